"""Rules written after the ninth round of seeded changes (Python runtime): a small path enumerator with an
environment of explaining locals (`MiniPaths`), and on top of it

  PX1  extent agreement in the coded streams: what a method stores / reads at `self._offset`, what it made sure of
       (capacity test, `_fill_buffer(n)`) and what it advances `self._offset` by are the same quantity
  PD2  the integer count of a date/time value is taken only in the serializer's own unit
  PF3  a flag's name is written only where the flag is contained in the bits still to be named (finite-domain evaluation)
  PW2  every struct format of _binary.py fixes byte order and packing with a literal `<`

Nothing is executed: the rules read the `ast` of tooling/internal/python/static_files/*.py.
"""
import ast
import copy
import itertools
import re


class _Subst(ast.NodeTransformer):
    def __init__(self, env):
        self.env = env

    def visit_Name(self, node):
        if isinstance(node.ctx, ast.Load) and node.id in self.env:
            return copy.deepcopy(self.env[node.id])
        return node


def _norm_len(node):
    """len(E[:n]) -> n ; len(E[a:]) -> len(E) - a   (the slices of a top-up / remainder split)"""
    class T(ast.NodeTransformer):
        def visit_Call(self, c):
            self.generic_visit(c)
            if isinstance(c.func, ast.Name) and c.func.id == "len" and len(c.args) == 1 and isinstance(c.args[0], ast.Subscript) and isinstance(c.args[0].slice, ast.Slice):
                s = c.args[0].slice
                if s.step is None and s.lower is None and s.upper is not None:
                    return s.upper
                if s.step is None and s.upper is None and s.lower is not None:
                    return ast.BinOp(left=ast.Call(func=ast.Name(id="len", ctx=ast.Load()), args=[c.args[0].value], keywords=[]), op=ast.Sub(), right=s.lower)
            return c
    return T().visit(node)


def canon(expr, env):
    e = _Subst(env).visit(copy.deepcopy(expr))
    e = _norm_len(e)
    ast.fix_missing_locations(e)
    return ast.unparse(e)


class MiniPaths:
    """Paths of a statement list: items ('stmt', node) | ('guard', expr, polarity); loops are taken zero times or twice."""
    LIMIT = 4000

    def __init__(self):
        self.overflow = False

    def paths(self, stmts):
        res = [([], "fall")]
        for st in stmts:
            nxt = []
            for items, oc in res:
                if oc != "fall":
                    nxt.append((items, oc))
                    continue
                for it2, oc2 in self.stmt(st):
                    nxt.append((items + it2, oc2))
            res = nxt
            if len(res) > self.LIMIT:
                self.overflow = True
                res = res[:self.LIMIT]
        return res

    def stmt(self, st):
        if isinstance(st, ast.If):
            out = []
            for it, oc in self.paths(st.body):
                out.append(([("guard", st.test, True)] + it, oc))
            for it, oc in (self.paths(st.orelse) if st.orelse else [([], "fall")]):
                out.append(([("guard", st.test, False)] + it, oc))
            return out
        if isinstance(st, (ast.While, ast.For)):
            test = st.test if isinstance(st, ast.While) else None
            always = isinstance(st, ast.While) and isinstance(st.test, ast.Constant) and bool(st.test.value)
            head = [("guard", test, True)] if (test is not None and not always) else []
            if isinstance(st, ast.For):
                head = [("stmt", st)]  # binds the loop variable
            out = []
            if not always:
                out.append(([("guard", test, False)] if test is not None else [], "fall"))
            for it1, oc1 in self.paths(st.body):
                if oc1 in ("return", "raise"):
                    out.append((head + it1, oc1))
                elif oc1 == "break":
                    out.append((head + it1, "fall"))
                else:  # fall / continue: a second iteration
                    for it2, oc2 in self.paths(st.body):
                        if oc2 in ("return", "raise"):
                            out.append((head + it1 + head + it2, oc2))
                        else:
                            out.append((head + it1 + head + it2, "fall"))
            return out
        if isinstance(st, ast.Return):
            return [([("stmt", st)], "return")]
        if isinstance(st, ast.Raise):
            return [([("stmt", st)], "raise")]
        if isinstance(st, ast.Break):
            return [([], "break")]
        if isinstance(st, ast.Continue):
            return [([], "continue")]
        if isinstance(st, ast.With):
            return [([("stmt", ast.Expr(value=i.context_expr)) for i in st.items] + it, oc) for it, oc in self.paths(st.body)]
        if isinstance(st, ast.Try):
            out = []
            for it, oc in self.paths(st.body):
                for it2, oc2 in (self.paths(st.finalbody) if st.finalbody else [([], "fall")]):
                    out.append((it + it2, oc if oc2 == "fall" else oc2))
            return out
        return [([("stmt", st)], "fall")]


def _is_self_attr(n, name):
    return isinstance(n, ast.Attribute) and n.attr == name and isinstance(n.value, ast.Name) and n.value.id == "self"


def _offset_plus(n):
    """`self._offset + N` -> N"""
    if isinstance(n, ast.BinOp) and isinstance(n.op, ast.Add):
        if _is_self_attr(n.left, "_offset"):
            return n.right
        if _is_self_attr(n.right, "_offset"):
            return n.left
    return None


def _buffer_like(n):
    """self._buffer, self._view, memoryview(self._buffer)"""
    if _is_self_attr(n, "_buffer") or _is_self_attr(n, "_view"):
        return True
    return isinstance(n, ast.Call) and isinstance(n.func, ast.Name) and n.func.id == "memoryview" and len(n.args) == 1 and _buffer_like(n.args[0])


def _bind(env, target, value):
    if isinstance(target, ast.Name):
        if value is None:
            env.pop(target.id, None)
        else:
            env[target.id] = _Subst(env).visit(copy.deepcopy(value))


_SELF_METHODS = {}


def _avail_fact(test, pol, env):
    """the canonical X of a fact `available bytes >= X` that (test == pol) establishes, else None"""
    if not (isinstance(test, ast.Compare) and len(test.ops) == 1):
        return None
    a, b, op = test.left, test.comparators[0], test.ops[0]

    def is_avail(e):
        e2 = _Subst(env).visit(copy.deepcopy(e))
        # `self._buffered_count()`: a zero-argument method that returns an expression stands for it
        if isinstance(e2, ast.Call) and not e2.args and isinstance(e2.func, ast.Attribute) and isinstance(e2.func.value, ast.Name) and e2.func.value.id == "self":
            m = _SELF_METHODS.get(e2.func.attr)
            if m is not None and len(m.body) >= 1 and isinstance(m.body[-1], ast.Return) and m.body[-1].value is not None and all(isinstance(x, ast.Expr) and isinstance(x.value, ast.Constant) for x in m.body[:-1]):
                e2 = m.body[-1].value
        return (isinstance(e2, ast.BinOp) and isinstance(e2.op, ast.Sub) and _is_self_attr(e2.left, "_last_read_count") and _is_self_attr(e2.right, "_offset")) or \
               (isinstance(e2, ast.BinOp) and isinstance(e2.op, ast.Sub) and isinstance(e2.left, ast.Call) and isinstance(e2.left.func, ast.Name) and e2.left.func.id == "len"
                and e2.left.args and _is_self_attr(e2.left.args[0], "_buffer") and _is_self_attr(e2.right, "_offset"))
    if is_avail(a):       # avail OP X
        x, o = b, op
    elif is_avail(b):     # X OP avail   ->  avail OP' X
        x = a
        o = {ast.Lt: ast.Gt, ast.LtE: ast.GtE, ast.Gt: ast.Lt, ast.GtE: ast.LtE}.get(type(op), type(None))()
    else:
        return None
    if (isinstance(o, ast.GtE) and pol) or (isinstance(o, ast.Lt) and not pol):
        return canon(x, env)
    return None


def rule_py_extents_agree(out, pyr):
    rid = "PX1"
    out.rule(rid, "_binary.py CodedOutputStream / CodedInputStream: on every path of every method, the number of bytes stored or read at `self._offset`, the number the method "
                  "made sure of just before (capacity / availability test, `_fill_buffer(n)`) and the number `self._offset` is advanced by are the same quantity "
                  "(explaining locals followed, a re-assigned variable is a different quantity)", 5)
    tree, rel = pyr.parse_py(out, "_binary.py")
    cls = pyr.classes(tree)
    for cname, reader in (("CodedOutputStream", False), ("CodedInputStream", True)):
        c = cls.get(cname)
        if c is None:
            out.undecided(rid, "anchor/" + cname, rel, "class not found")
            continue
        _SELF_METHODS.clear()
        _SELF_METHODS.update(pyr.methods(c))
        # ensure-helpers: methods `m(self, n)` after which `n` bytes are known to be available on every returning path
        # (`if avail < n: self._fill_buffer(n)`), e.g. a `_require(n)` factored out of the scalar reads
        ensure_helpers = set()
        if reader:
            for mname, fn in pyr.methods(c).items():
                ps = [a.arg for a in fn.args.args if a.arg != "self"]
                if len(ps) != 1 or mname == "_fill_buffer":
                    continue
                good, any_path = True, False
                for items, oc in MiniPaths().paths(fn.body):
                    if oc == "raise":
                        continue
                    any_path = True
                    env, avail = {}, None
                    for it in items:
                        if it[0] == "guard":
                            if it[1] is not None:
                                f = _avail_fact(it[1], it[2], env)
                                if f is not None:
                                    avail = f
                            continue
                        st = it[1]
                        for n in ast.walk(st):
                            if isinstance(n, ast.Call) and isinstance(n.func, ast.Attribute) and n.func.attr == "_fill_buffer" and isinstance(n.func.value, ast.Name) and n.func.value.id == "self":
                                avail = canon(n.args[0], env) if n.args else "0"
                            if isinstance(n, ast.Subscript) and _buffer_like(n.value):
                                good = False  # it reads: not a pure ensure-helper
                        if isinstance(st, ast.AugAssign) and _is_self_attr(st.target, "_offset"):
                            good = False
                        if isinstance(st, ast.Assign) and len(st.targets) == 1 and isinstance(st.targets[0], ast.Name):
                            _bind(env, st.targets[0], st.value)
                    if avail != ps[0]:
                        good = False
                if good and any_path:
                    ensure_helpers.add(mname)
        for mname, fn in pyr.methods(c).items():
            if mname in ("__init__", "_fill_buffer") or mname in ensure_helpers:
                continue  # _fill_buffer is the routine that establishes the fact
            mp = MiniPaths()
            sites = {}  # key -> (ok, pos, fact)

            def note(key, ok, node, fact):
                old = sites.get(key)
                if old is None or (old[0] and not ok):
                    sites[key] = (ok, pyr.pos(rel, node), fact)

            for items, oc in mp.paths(fn.body):
                env, avail, pending = {}, None, None
                rest_read = None
                for it in items + [("end", oc)]:
                    if it[0] == "end":
                        if reader:
                            key = "%s.%s/rest of the buffer taken" % (cname, mname)
                            if rest_read is not None and oc != "raise":
                                note(key, False, rest_read, "copies `self._view[self._offset : self._last_read_count]` (all that is left in the buffer) out and returns without `self._offset = self._last_read_count`: "
                                     "the bytes stay marked as unread and the NEXT reads are served from them again instead of from the stream position behind the block")
                            elif any(isinstance(x, ast.Slice) and _is_self_attr(x.upper, "_last_read_count") and _is_self_attr(x.lower, "_offset") for i2 in items if i2[0] == "stmt" for x in ast.walk(i2[1])):
                                note(key, True, fn, "marked consumed (`self._offset = self._last_read_count`) on the path")
                        continue
                    if it[0] == "guard":
                        if it[1] is not None:
                            f = _avail_fact(it[1], it[2], env)
                            if f is not None:
                                avail = f
                        continue
                    st = it[1]
                    # reads inside the statement (reader only)
                    if reader:
                        for n in ast.walk(st):
                            ext = None
                            if isinstance(n, ast.Assign) and len(n.targets) == 1 and _is_self_attr(n.targets[0], "_offset") and _is_self_attr(n.value, "_last_read_count"):
                                rest_read = None
                            if isinstance(n, ast.Subscript) and isinstance(n.ctx, ast.Load) and _buffer_like(n.value):
                                if _is_self_attr(n.slice, "_offset"):
                                    ext = "1"
                                elif isinstance(n.slice, ast.Slice) and _is_self_attr(n.slice.lower, "_offset") and n.slice.upper is not None:
                                    up = _offset_plus(n.slice.upper)
                                    if up is not None:
                                        ext = canon(up, env)
                                    elif _is_self_attr(n.slice.upper, "_last_read_count"):
                                        rest_read = n  # everything that is left in the buffer is taken: it has to be marked consumed
                            if isinstance(n, ast.Call) and isinstance(n.func, ast.Attribute) and n.func.attr == "unpack_from" and len(n.args) >= 2 and _buffer_like(n.args[0]) and _is_self_attr(n.args[1], "_offset"):
                                ext = canon(ast.Attribute(value=n.func.value, attr="size", ctx=ast.Load()), env)
                            if ext is None:
                                continue
                            key = "%s.%s/read of %s bytes" % (cname, mname, ext)
                            if avail == "CONSUMED":
                                note(key, False, n, "reads %s byte(s) at self._offset after the bytes it had made sure of were consumed (`self._offset` advanced) and before a new availability test / _fill_buffer" % ext)
                            elif avail is not None:
                                note(key, avail == ext, n, ("made sure of `%s` bytes, reads `%s`" % (avail, ext)) if avail == ext else
                                     "the method made sure of `%s` byte(s) but reads `%s` at self._offset: after a short refill the tail of the value comes from stale buffer content instead of raising EOFError" % (avail, ext))
                            pending = ext
                    for n in ast.walk(st):
                        if isinstance(n, ast.Call) and isinstance(n.func, ast.Attribute) and n.func.attr == "_fill_buffer" and isinstance(n.func.value, ast.Name) and n.func.value.id == "self":
                            avail = canon(n.args[0], env) if n.args else "0"
                        if isinstance(n, ast.Call) and isinstance(n.func, ast.Attribute) and n.func.attr in ensure_helpers and isinstance(n.func.value, ast.Name) and n.func.value.id == "self" and n.args:
                            avail = canon(n.args[0], env)
                    if isinstance(st, ast.Assign) and len(st.targets) == 1:
                        tg = st.targets[0]
                        if isinstance(tg, ast.Subscript) and _is_self_attr(tg.value, "_buffer") and not reader:
                            ext = None
                            if _is_self_attr(tg.slice, "_offset"):
                                ext = "1"
                            elif isinstance(tg.slice, ast.Slice) and _is_self_attr(tg.slice.lower, "_offset"):
                                rhs_len = canon(ast.Call(func=ast.Name(id="len", ctx=ast.Load()), args=[st.value], keywords=[]), env)
                                if tg.slice.upper is None:
                                    ext = rhs_len
                                else:
                                    up = _offset_plus(tg.slice.upper)
                                    if up is not None:
                                        ext = canon(up, env)
                                        note("%s.%s/slice store length" % (cname, mname), ext == rhs_len, st,
                                             ("slice of `%s` bytes receives `%s`" % (ext, rhs_len)) if ext == rhs_len else
                                             "a slice of `%s` bytes of the staging buffer is assigned a value of `%s` bytes: the bytearray is resized and the bytes behind the slice move" % (ext, rhs_len))
                            if ext is not None:
                                pending = ext
                        elif isinstance(tg, ast.Name):
                            _bind(env, tg, st.value)
                        elif _is_self_attr(tg, "_offset"):
                            pending, avail = None, (None if not reader else avail)
                    elif isinstance(st, ast.AnnAssign) and isinstance(st.target, ast.Name):
                        _bind(env, st.target, st.value)
                    elif isinstance(st, ast.Expr) and isinstance(st.value, ast.Call) and isinstance(st.value.func, ast.Attribute) and st.value.func.attr == "pack_into" and not reader:
                        a = st.value.args
                        if len(a) >= 2 and _is_self_attr(a[0], "_buffer") and _is_self_attr(a[1], "_offset"):
                            pending = canon(ast.Attribute(value=st.value.func.value, attr="size", ctx=ast.Load()), env)
                    elif isinstance(st, ast.AugAssign):
                        if _is_self_attr(st.target, "_offset") and isinstance(st.op, ast.Add):
                            m = canon(st.value, env)
                            if pending is not None:
                                key = "%s.%s/advance by %s" % (cname, mname, pending)
                                note(key, m == pending, st, ("%s `%s` bytes, advances by `%s`" % ("reads" if reader else "stores", pending, m)) if m == pending else
                                     "%s `%s` byte(s) at self._offset but advances self._offset by `%s`: %s" % (
                                         "reads" if reader else "stores", pending, m,
                                         "the next read starts at the wrong byte" if reader else "bytes that were never written (stale buffer content) are sent, or written bytes are overwritten"))
                            pending = None
                            if reader:
                                avail = "CONSUMED"
                        elif isinstance(st.target, ast.Name):
                            _bind(env, st.target, ast.BinOp(left=ast.Name(id=st.target.id, ctx=ast.Load()), op=st.op, right=st.value))
                    elif isinstance(st, ast.For):
                        for n in ast.walk(st.target):
                            if isinstance(n, ast.Name):
                                env.pop(n.id, None)
            if mp.overflow:
                out.undecided(rid, "%s.%s/paths" % (cname, mname), pyr.pos(rel, fn), "too many paths to enumerate")
            for key, (ok, p, fact) in sorted(sites.items()):
                (out.ok if ok else out.bad)(rid, key, p, fact)


def rule_py_time_counts_in_own_unit(out, pyr):
    rid = "PD2"
    out.rule(rid, "_binary.py: in a serializer whose dtype constant is a datetime64/timedelta64 with a unit, the integer count of a numpy value (`x.astype(np.int32/np.int64)`) is taken "
                  "only from a value known to be in that unit: `x.astype(OWN_DTYPE).astype(int)` or on the true branch of `x.dtype == OWN_DTYPE` (statement or conditional expression; "
                  "module-level helpers are followed with their parameters bound)", 3)
    tree, rel = pyr.parse_py(out, "_binary.py")
    consts = {}
    for st in tree.body:
        if isinstance(st, ast.Assign) and len(st.targets) == 1 and isinstance(st.targets[0], ast.Name) and st.targets[0].id.endswith("_DTYPE"):
            txt = ast.unparse(st.value)
            if "timedelta64" in txt or "datetime64" in txt:
                consts[st.targets[0].id] = txt
    module_funcs = {n.name: n for n in tree.body if isinstance(n, ast.FunctionDef)}

    def is_int_type(e):
        t = ast.unparse(e)
        return bool(re.search(r"\bint(8|16|32|64)?\b|^['\"]i[48]['\"]$|\bint_\b", t))

    def dtype_test(t, own):
        """(expr whose dtype is compared with own, polarity for equality) or None"""
        if isinstance(t, ast.Compare) and len(t.ops) == 1 and isinstance(t.ops[0], (ast.Eq, ast.NotEq)):
            for x, y in ((t.left, t.comparators[0]), (t.comparators[0], t.left)):
                if isinstance(x, ast.Attribute) and x.attr == "dtype" and isinstance(y, ast.Name) and y.id == own:
                    return x.value, isinstance(t.ops[0], ast.Eq)
        return None

    def unit_known(e, known, own):
        """e (environment already substituted) is known to be in the unit of `own`"""
        if ast.unparse(e) in known:
            return True
        if isinstance(e, ast.Call) and isinstance(e.func, ast.Attribute) and e.func.attr == "astype" and e.args and isinstance(e.args[0], ast.Name) and e.args[0].id == own:
            return True
        if isinstance(e, ast.IfExp):
            dt = dtype_test(e.test, own)
            ka, kb = set(known), set(known)
            if dt is not None:
                (ka if dt[1] else kb).add(ast.unparse(dt[0]))
            return unit_known(e.body, ka, own) and unit_known(e.orelse, kb, own)
        return False

    def analyse(cname, mname, fn, env0, own, value_roots, sites, depth=0):
        mp = MiniPaths()
        for items, oc in mp.paths(fn.body):
            known = set()
            env = dict(env0)
            for it in items:
                if it[0] == "guard":
                    if it[1] is not None:
                        t = _Subst(env).visit(copy.deepcopy(it[1]))
                        dt = dtype_test(t, own)
                        if dt is not None and dt[1] == it[2]:
                            known.add(ast.unparse(dt[0]))
                    continue
                st = it[1]
                for c in ast.walk(st):
                    if not isinstance(c, ast.Call):
                        continue
                    # a module-level helper that receives the value: analysed with its parameters bound
                    if isinstance(c.func, ast.Name) and c.func.id in module_funcs and depth < 2:
                        h = module_funcs[c.func.id]
                        hp = [a.arg for a in h.args.args]
                        henv = {}
                        for i, a in enumerate(c.args):
                            if i < len(hp):
                                henv[hp[i]] = _Subst(env).visit(copy.deepcopy(a))
                        for kw in c.keywords:
                            if kw.arg in hp:
                                henv[kw.arg] = _Subst(env).visit(copy.deepcopy(kw.value))
                        if any({x.id for x in ast.walk(v) if isinstance(x, ast.Name)} & value_roots for v in henv.values()):
                            analyse(cname, mname + ">" + h.name, h, henv, own, value_roots, sites, depth + 1)
                        continue
                    if not (isinstance(c.func, ast.Attribute) and c.func.attr == "astype" and c.args):
                        continue
                    targ = _Subst(env).visit(copy.deepcopy(c.args[0]))
                    if not is_int_type(targ):
                        continue
                    recv = _Subst(env).visit(copy.deepcopy(c.func.value))
                    roots = {x.id for x in ast.walk(recv) if isinstance(x, ast.Name)}
                    if not (roots & value_roots):
                        continue  # not a value handed in by the caller
                    ok = unit_known(recv, known, own)
                    key = "%s.%s/count of %s" % (cname, mname, ast.unparse(recv))
                    old = sites.get(key)
                    if old is None or (old[0] and not ok):
                        sites[key] = (ok, pyr.pos(rel, c))
                if isinstance(st, ast.Assign) and len(st.targets) == 1 and isinstance(st.targets[0], ast.Name):
                    _bind(env, st.targets[0], st.value)

    n = 0
    for cname, cls in pyr.classes(tree).items():
        init = pyr.methods(cls).get("__init__")
        own = None
        for c in (ast.walk(init) if init is not None else []):
            if isinstance(c, ast.Call) and isinstance(c.func, ast.Attribute) and c.func.attr == "__init__" and c.args and isinstance(c.args[0], ast.Name) and c.args[0].id in consts:
                own = c.args[0].id
        if own is None:
            continue
        for mname, fn in pyr.methods(cls).items():
            if mname == "__init__":
                continue
            params = {a.arg for a in fn.args.args if a.arg != "self"}
            sites = {}
            analyse(cname, mname, fn, {}, own, params, sites)
            for key, (ok, p) in sorted(sites.items()):
                n += 1
                out.check(ok, rid, key, p, "taken from a value in the unit of %s (cast or dtype test on the path)" % own,
                          "the integer count is taken from a numpy value whose unit is not known to be that of %s on this path: a datetime64/timedelta64 scalar in another unit "
                          "(numpy's default s / ms / D) is written as a raw count in its own unit and read back as a different instant" % own)
    if n == 0:
        out.undecided(rid, "anchor/integer counts of time values", rel, "none found")


def _eval_int(e, env):
    """evaluates a Python expression over small integers; raises KeyError for anything outside the domain"""
    if isinstance(e, ast.Constant) and isinstance(e.value, (int, bool)):
        return int(e.value)
    if isinstance(e, ast.BinOp):
        a, b = _eval_int(e.left, env), _eval_int(e.right, env)
        if isinstance(e.op, ast.BitAnd):
            return a & b
        if isinstance(e.op, ast.BitOr):
            return a | b
        if isinstance(e.op, ast.BitXor):
            return a ^ b
        if isinstance(e.op, ast.Sub):
            return a - b
        if isinstance(e.op, ast.Add):
            return a + b
        raise KeyError("op")
    if isinstance(e, ast.UnaryOp):
        if isinstance(e.op, ast.Invert):
            return ~_eval_int(e.operand, env)
        if isinstance(e.op, ast.Not):
            return int(not _eval_int(e.operand, env))
        raise KeyError("unary")
    if isinstance(e, ast.BoolOp):
        vals = [_eval_int(v, env) for v in e.values]
        return int(all(vals)) if isinstance(e.op, ast.And) else int(any(vals))
    if isinstance(e, ast.Compare):
        left = _eval_int(e.left, env)
        for op, c in zip(e.ops, e.comparators):
            r = _eval_int(c, env)
            ok = {ast.Eq: left == r, ast.NotEq: left != r, ast.Lt: left < r, ast.LtE: left <= r, ast.Gt: left > r, ast.GtE: left >= r}.get(type(op))
            if ok is None:
                raise KeyError("cmp")
            if not ok:
                return 0
            left = r
        return 1
    txt = ast.unparse(e)
    if txt in env:
        return env[txt]
    raise KeyError(txt)


def rule_py_flag_named_only_when_contained(out, pyr):
    rid = "PF3"
    out.rule(rid, "_ndjson.py FlagsConverter.to_json: inside the loop over the defined symbols, a symbol's name is appended only under conditions that imply `symbol != 0` and "
                  "`symbol & remaining == symbol` — decided by evaluating the conditions on the path for all 3-bit symbols and remainders, whatever their spelling", 1)
    tree, rel = pyr.parse_py(out, "_ndjson.py")
    cls = pyr.classes(tree).get("FlagsConverter")
    fn = None
    if cls is not None:
        # the method that decomposes a value into names: to_json, or the helper it delegates to
        for mname, m in pyr.methods(cls).items():
            if any(isinstance(n, ast.For) and "_value_to_name" in ast.unparse(n.iter) for n in ast.walk(m)) and \
                    any(isinstance(c, ast.Call) and isinstance(c.func, ast.Attribute) and c.func.attr in ("append", "add", "insert") for c in ast.walk(m)):
                fn = m
    if fn is None:
        out.undecided(rid, "anchor/FlagsConverter.to_json", rel, "no method of FlagsConverter loops over the declared symbols and appends names")
        return
    remaining = None
    for n in ast.walk(fn):
        if isinstance(n, ast.AugAssign) and isinstance(n.op, ast.BitAnd) and isinstance(n.target, ast.Name):
            remaining = n.target.id
        if (isinstance(n, ast.Assign) and len(n.targets) == 1 and isinstance(n.targets[0], ast.Name) and isinstance(n.value, ast.BinOp) and isinstance(n.value.op, ast.BitAnd)
                and isinstance(n.value.left, ast.Name) and n.value.left.id == n.targets[0].id):
            remaining = n.targets[0].id
    loops = [n for n in ast.walk(fn) if isinstance(n, ast.For) and "_value_to_name" in ast.unparse(n.iter)]
    if remaining is None or not loops:
        out.undecided(rid, "to_json/loop", pyr.pos(rel, fn), "the loop over the defined symbols or the remaining-bits variable was not recognised")
        return
    for loop in loops:
        tgt = loop.target.elts[0] if isinstance(loop.target, ast.Tuple) else loop.target
        if not isinstance(tgt, ast.Name):
            out.undecided(rid, "to_json/loop variable", pyr.pos(rel, loop), "loop target not understood")
            continue
        sym_txts = {tgt.id + ".value", "int(%s)" % tgt.id, "int(%s.value)" % tgt.id, tgt.id + "._value_"}
        mp = MiniPaths()
        bad, undec, n_app = None, None, 0
        for items, oc in mp.paths(loop.body):
            guards = []
            env_locals = {}
            for it in items:
                if it[0] == "guard":
                    if it[1] is not None:
                        guards.append((_Subst(env_locals).visit(copy.deepcopy(it[1])), it[2]))
                    continue
                st = it[1]
                if isinstance(st, ast.Assign) and len(st.targets) == 1 and isinstance(st.targets[0], ast.Name) and st.targets[0].id != remaining:
                    _bind(env_locals, st.targets[0], st.value)
                is_append = any(isinstance(c, ast.Call) and isinstance(c.func, ast.Attribute) and c.func.attr in ("append", "add", "insert") for c in ast.walk(st)) or \
                    (isinstance(st, ast.AugAssign) and isinstance(st.op, ast.Add) and isinstance(st.value, ast.List))
                if not is_append:
                    if isinstance(st, ast.AugAssign) and isinstance(st.target, ast.Name) and st.target.id == remaining:
                        break  # the remaining bits change: later tests are about another value
                    continue
                n_app += 1
                for sym, rem in itertools.product(range(8), range(8)):
                    env = {t: sym for t in sym_txts}
                    env[remaining] = rem
                    holds, unknown = True, False
                    for g, pol in guards:
                        try:
                            v = bool(_eval_int(g, env))
                        except KeyError:
                            unknown = True
                            continue
                        if v != pol:
                            holds = False
                            break
                    if not holds:
                        continue
                    if sym == 0 or (sym & rem) != sym:
                        if unknown:
                            undec = (st, sym, rem)
                        else:
                            bad = (st, sym, rem)
                break
        if n_app == 0:
            out.undecided(rid, "to_json/append", pyr.pos(rel, loop), "no append of a symbol name found in the loop")
        elif bad is not None:
            out.bad(rid, "to_json/name appended", pyr.pos(rel, bad[0]), "the name of a symbol is appended for symbol=%d, remaining=%d although the symbol is %s: "
                    "a value that holds only some bits of a combined symbol is written as that symbol and read back with more bits set" % (bad[1], bad[2], "zero" if bad[1] == 0 else "not contained in the remaining bits"))
        elif undec is not None:
            out.undecided(rid, "to_json/name appended", pyr.pos(rel, undec[0]), "a condition on the path is outside the evaluated domain and the others do not imply containment (symbol=%d, remaining=%d)" % (undec[1], undec[2]))
        else:
            out.ok(rid, "to_json/name appended", pyr.pos(rel, loop), "the conditions on every path to the append imply symbol != 0 and symbol & %s == symbol (64 assignments evaluated)" % remaining)


def rule_py_struct_formats_little_endian(out, pyr):
    rid = "PW2"
    out.rule(rid, "_binary.py: the format of every struct.Struct is a literal that starts with `<` (little-endian, no alignment padding), given directly or by every caller of the "
                  "constructor that passes it on; a format computed at run time may fall back to native alignment", 5)
    tree, rel = pyr.parse_py(out, "_binary.py")
    cls = pyr.classes(tree)

    def literal_ok(e):
        if isinstance(e, ast.Constant) and isinstance(e.value, str):
            return e.value.startswith("<")
        if isinstance(e, ast.BinOp) and isinstance(e.op, ast.Add):
            return literal_ok(e.left)
        if isinstance(e, ast.JoinedStr) and e.values and isinstance(e.values[0], ast.Constant):
            return str(e.values[0].value).startswith("<")
        return None

    # classes whose __init__ hands a parameter to struct.Struct: position of that parameter
    fmt_param = {}
    n = 0
    for node in ast.walk(tree):
        if not (isinstance(node, ast.Call) and isinstance(node.func, ast.Attribute) and node.func.attr == "Struct" and isinstance(node.func.value, ast.Name) and node.func.value.id == "struct" and node.args):
            continue
        a = node.args[0]
        v = literal_ok(a)
        if v is not None:
            n += 1
            out.check(v, rid, "struct.Struct(%s)" % ast.unparse(a), pyr.pos(rel, node), "literal little-endian format", "the format does not start with `<`: native byte order and alignment padding")
            continue
        owner = None
        for cname, c in cls.items():
            init = pyr.methods(c).get("__init__")
            if init is not None and any(x is node for x in ast.walk(init)) and isinstance(a, ast.Name):
                names = [p.arg for p in init.args.args]
                if a.id in names:
                    owner = (cname, names.index(a.id) - 1, a.id)
        if owner is None:
            n += 1
            out.bad(rid, "struct.Struct(%s)" % ast.unparse(a), pyr.pos(rel, node), "the format `%s` is computed at run time: nothing fixes its byte order and packing (a format without `<` uses native alignment, "
                    "so a narrow field in front of a wider one is followed by padding bytes that are not part of the wire format)" % ast.unparse(a))
        else:
            fmt_param[owner[0]] = (owner[1], owner[2])
    # callers: super().__init__(..., "<x") in subclasses (transitively) and direct instantiations
    def bases_of(c):
        res = []
        for b in c.bases:
            t = b.value if isinstance(b, ast.Subscript) else b
            if isinstance(t, ast.Name):
                res.append(t.id)
        return res
    changed = True
    while changed:
        changed = False
        for cname, c in cls.items():
            for b in bases_of(c):
                if b in fmt_param and cname not in fmt_param:
                    init = pyr.methods(c).get("__init__")
                    if init is None:
                        fmt_param[cname] = fmt_param[b]  # inherits the constructor
                        changed = True
                        continue
                    for call in ast.walk(init):
                        if isinstance(call, ast.Call) and isinstance(call.func, ast.Attribute) and call.func.attr == "__init__" and isinstance(call.func.value, ast.Call) and ast.unparse(call.func.value.func) == "super":
                            idx, pname = fmt_param[b]
                            arg = call.args[idx] if idx < len(call.args) else next((k.value for k in call.keywords if k.arg == pname), None)
                            if arg is None:
                                continue
                            v = literal_ok(arg)
                            if v is None and isinstance(arg, ast.Name) and arg.id in [p.arg for p in init.args.args]:
                                fmt_param[cname] = ([p.arg for p in init.args.args].index(arg.id) - 1, arg.id)
                                changed = True
                            else:
                                n += 1
                                out.check(bool(v), rid, "%s/format handed to %s" % (cname, b), pyr.pos(rel, call), "literal little-endian format %s" % ast.unparse(arg),
                                          "the format handed to the struct-based serializer is not a literal starting with `<`")
    for node in ast.walk(tree):
        if isinstance(node, ast.Call) and isinstance(node.func, ast.Name) and node.func.id in fmt_param:
            idx, pname = fmt_param[node.func.id]
            arg = node.args[idx] if idx < len(node.args) else next((k.value for k in node.keywords if k.arg == pname), None)
            if arg is not None:
                n += 1
                out.check(bool(literal_ok(arg)), rid, "%s(...)/format" % node.func.id, pyr.pos(rel, node), "literal little-endian format", "format is not a literal starting with `<`")
    if n == 0:
        out.undecided(rid, "anchor/struct.Struct", rel, "no struct format found")


def _norm_count(e, env):
    """canonical text of a count: len(X.shape) -> X.ndim ; len(E[:-k]) -> len(E) - k ; len(E[:k]) -> k ; explaining locals substituted"""
    e = _Subst(env).visit(copy.deepcopy(e))

    class T(ast.NodeTransformer):
        def visit_Call(self, c):
            self.generic_visit(c)
            if isinstance(c.func, ast.Name) and c.func.id == "cast" and len(c.args) == 2:
                return c.args[1]  # typing.cast is the identity
            if isinstance(c.func, ast.Name) and c.func.id == "len" and len(c.args) == 1:
                a = c.args[0]
                if isinstance(a, ast.Attribute) and a.attr == "shape":
                    return ast.Attribute(value=a.value, attr="ndim", ctx=ast.Load())
                if isinstance(a, ast.Subscript) and isinstance(a.slice, ast.Slice) and a.slice.step is None and a.slice.lower is None and a.slice.upper is not None:
                    inner = T().visit(ast.Call(func=ast.Name(id="len", ctx=ast.Load()), args=[a.value], keywords=[]))
                    up = a.slice.upper
                    if isinstance(up, ast.UnaryOp) and isinstance(up.op, ast.USub):
                        return ast.BinOp(left=inner, op=ast.Sub(), right=up.operand)
                    return up
            return c
    e = T().visit(e)
    ast.fix_missing_locations(e)
    return ast.unparse(e).replace(" ", "")


def rule_py_count_prefix_is_the_loop_length(out, pyr):
    rid = "PL2"
    out.rule(rid, "_binary.py: a `write_unsigned_varint(N)` that is immediately followed by a loop writing one item per element of S announces N = len(S) "
                  "(with len(x.shape) = x.ndim and len(E[:-k]) = len(E) - k; explaining locals and helper results assigned once are followed)", 4)
    tree, rel = pyr.parse_py(out, "_binary.py")
    n = 0
    for cname, cls in pyr.classes(tree).items():
        for mname, fn in pyr.methods(cls).items():
            env = {}
            # locals assigned exactly once in the method
            counts = {}
            for st in ast.walk(fn):
                if isinstance(st, ast.Assign) and len(st.targets) == 1 and isinstance(st.targets[0], ast.Name):
                    counts[st.targets[0].id] = counts.get(st.targets[0].id, 0) + 1
            for st in ast.walk(fn):
                if isinstance(st, ast.Assign) and len(st.targets) == 1 and isinstance(st.targets[0], ast.Name) and counts[st.targets[0].id] == 1:
                    v = st.value
                    # `shape = self._leading_shape(value)`: a helper with a single returned expression per path cannot be summarised here
                    env[st.targets[0].id] = v

            def visit(stmts):
                nonlocal n
                for i, st in enumerate(stmts):
                    for child in ("body", "orelse", "finalbody"):
                        sub = getattr(st, child, None)
                        if isinstance(sub, list) and sub and isinstance(sub[0], ast.stmt):
                            visit(sub)
                    if not (isinstance(st, ast.Expr) and isinstance(st.value, ast.Call) and isinstance(st.value.func, ast.Attribute) and st.value.func.attr == "write_unsigned_varint" and st.value.args):
                        continue
                    if i + 1 >= len(stmts) or not isinstance(stmts[i + 1], ast.For):
                        continue
                    loop = stmts[i + 1]
                    writes = any(isinstance(c, ast.Call) and isinstance(c.func, ast.Attribute) and c.func.attr.startswith("write") for c in ast.walk(loop))
                    if not writes:
                        continue
                    it = loop.iter
                    # `for k, v in value.items()` / enumerate(S): the collection behind the iterator
                    while isinstance(it, ast.Call) and ((isinstance(it.func, ast.Attribute) and it.func.attr in ("items", "keys", "values") and not it.args) or (isinstance(it.func, ast.Name) and it.func.id == "enumerate" and it.args)):
                        it = it.func.value if isinstance(it.func, ast.Attribute) else it.args[0]
                    announced = _norm_count(st.value.args[0], env)
                    actual = _norm_count(ast.Call(func=ast.Name(id="len", ctx=ast.Load()), args=[it], keywords=[]), env)
                    n += 1
                    out.check(announced == actual, rid, "%s.%s/count before the loop over %s" % (cname, mname, ast.unparse(loop.iter)), pyr.pos(rel, st),
                              "announces `%s`, the loop writes len = `%s`" % (announced, actual),
                              "the count written in front of the loop is `%s` but the loop writes one item per element of `%s` (`%s` items): the reader takes the announced number of items, "
                              "so the following bytes are decoded as something else" % (announced, ast.unparse(loop.iter), actual))
            visit(fn.body)
    if n == 0:
        out.undecided(rid, "anchor/count-prefixed loops", rel, "none found")


def rule_py_arrays_written_flat(out, pyr):
    rid = "PF4"
    out.rule(rid, "_ndjson.py array converters (classes *NDArrayConverter*): the JSON form of array data is a FLAT row-major list — every `x.tolist()` in their to_json / numpy_to_json "
                  "methods is applied to a flattened array (`ravel()`, `flatten()`, `reshape(-1)`), never to the n-dimensional array itself (nested lists are not what C++ writes and requires)", 3)
    tree, rel = pyr.parse_py(out, "_ndjson.py")
    n = 0
    for cname, cls in pyr.classes(tree).items():
        if "NDArrayConverter" not in cname:
            continue
        for mname, fn in pyr.methods(cls).items():
            if mname not in ("to_json", "numpy_to_json"):
                continue
            n += 1
            bad = None
            for c in ast.walk(fn):
                if isinstance(c, ast.Call) and isinstance(c.func, ast.Attribute) and c.func.attr == "tolist":
                    r = c.func.value
                    flat = isinstance(r, ast.Call) and isinstance(r.func, ast.Attribute) and (
                        r.func.attr in ("ravel", "flatten") or (r.func.attr == "reshape" and len(r.args) == 1 and ast.unparse(r.args[0]) in ("-1", "(-1,)")))
                    if not flat:
                        bad = c
            out.check(bad is None, rid, "%s.%s/array data" % (cname, mname), pyr.pos(rel, bad if bad is not None else fn),
                      "array data is produced element by element from `.flat` or from a flattened array",
                      "`%s` converts the n-dimensional array itself: a fixed array of two or more dimensions is written as nested lists, which the generated C++ reader rejects (it writes and requires a flat row-major list)" % (ast.unparse(bad) if bad is not None else ""))
    if n == 0:
        out.undecided(rid, "anchor/NDArray converters", rel, "none found")
