"""Static analysers for the runtime files embedded in the generators:
python `ast` over tooling/internal/python/static_files/*.py, and (cxx_ast.py) the clang
JSON AST of tooling/internal/cpp/include/detail/binary/*.h. Nothing is imported or run.

Each analyser appends obligations {key, rule, pos, status, fact} like the Go side.
"""
import ast
import json
import os

HERE = os.path.dirname(os.path.abspath(__file__))
VERIF = os.path.dirname(HERE)


class Out:
    def __init__(self, repo):
        self.repo = repo
        self.obs = []
        self.rules = {}
        self.order = []
        self.stats = {}
        self.tables = {}
        self._seen = {}

    def rule(self, rid, doc, minimum):
        if rid not in self.rules:
            self.rules[rid] = {"id": rid, "doc": doc, "min_instances": minimum, "instances": 0}
            self.order.append(rid)

    def _add(self, rid, key, pos, status, fact):
        self.rules[rid]["instances"] += 1
        full = rid + "/" + key
        n = self._seen.get(full, 0) + 1
        self._seen[full] = n
        if n > 1:
            full = "%s#%d" % (full, n)
        self.obs.append({"key": full, "rule": rid, "pos": pos, "status": status, "fact": fact})

    def ok(self, rid, key, pos, fact):
        self._add(rid, key, pos, "ok", fact)

    def bad(self, rid, key, pos, fact):
        self._add(rid, key, pos, "violated", fact)

    def undecided(self, rid, key, pos, fact):
        self._add(rid, key, pos, "undecided", fact)

    def check(self, cond, rid, key, pos, okfact, badfact):
        if cond:
            self.ok(rid, key, pos, okfact)
        else:
            self.bad(rid, key, pos, badfact)

    def finish(self):
        for rid in self.order:
            r = self.rules[rid]
            if r["instances"] < r["min_instances"]:
                self.obs.append({"key": rid + "/_mincount", "rule": rid, "pos": "-", "status": "undecided",
                                 "fact": "rule matched %d instances, fewer than the %d confirmed by hand" % (r["instances"], r["min_instances"])})
        return {"obligations": self.obs, "rules": [self.rules[r] for r in self.order], "stats": self.stats, "tables": self.tables}


STATIC = "tooling/internal/python/static_files"


def parse_py(out, name):
    path = os.path.join(out.repo, STATIC, name)
    with open(path) as f:
        src = f.read()
    return ast.parse(src, filename=path), os.path.join(STATIC, name)


def pos(rel, node):
    return "%s:%d" % (rel, getattr(node, "lineno", 0))


def classes(tree):
    return {n.name: n for n in tree.body if isinstance(n, ast.ClassDef)}


def methods(cls):
    return {n.name: n for n in cls.body if isinstance(n, (ast.FunctionDef, ast.AsyncFunctionDef))}


def module_assigns(tree):
    """name -> value node for simple module-level assignments."""
    res = {}
    for n in tree.body:
        if isinstance(n, ast.Assign) and len(n.targets) == 1 and isinstance(n.targets[0], ast.Name):
            res[n.targets[0].id] = n.value
        elif isinstance(n, ast.AnnAssign) and isinstance(n.target, ast.Name) and n.value is not None:
            res[n.target.id] = n.value
    return res


def load_ref(name):
    with open(os.path.join(VERIF, "refs", name)) as f:
        return json.load(f)


# ----------------------------------------------------------------------------------
# JK: JSON kinds the Python NDJSON converters can emit ⊆ documented kinds (refs/jsonkinds.json)
# ----------------------------------------------------------------------------------

ANNOT_KINDS = {"bool": {"boolean"}, "int": {"number"}, "float": {"number"}, "str": {"string"}, "None": {"null"}}


def annot_kind(a):
    if a is None:
        return None
    if isinstance(a, ast.Name):
        return ANNOT_KINDS.get(a.id)
    if isinstance(a, ast.Subscript) and isinstance(a.value, ast.Name):
        if a.value.id in ("list", "List"):
            return {"array"}
        if a.value.id in ("dict", "Dict"):
            return {"object"}
    if isinstance(a, ast.Attribute) and isinstance(a.value, ast.Name) and a.value.id == "np":
        if a.attr.startswith(("int", "uint", "float")):
            return {"number"}
        if a.attr == "bool_":
            return {"boolean"}
    return None


class KindEval:
    """Abstract evaluation of an expression to the set of JSON kinds it can denote."""

    def __init__(self, cls, fn, tree):
        self.cls = cls
        self.fn = fn
        self.tree = tree
        self.params = {a.arg: a.annotation for a in fn.args.args}
        self.locals = {}
        for n in ast.walk(fn):
            if isinstance(n, ast.AnnAssign) and isinstance(n.target, ast.Name):
                self.locals[n.target.id] = annot_kind(n.annotation)
        # attributes assigned in __init__
        self.attrs = {}
        init = methods(cls).get("__init__")
        if init:
            ann = {a.arg: a.annotation for a in init.args.args}
            for n in ast.walk(init):
                if isinstance(n, ast.Assign) and len(n.targets) == 1:
                    t = n.targets[0]
                    if isinstance(t, ast.Attribute) and isinstance(t.value, ast.Name) and t.value.id == "self":
                        self.attrs[t.attr] = (n.value, ann)

    def ev(self, e, depth=0):
        if depth > 6:
            return None
        if isinstance(e, ast.Constant):
            v = e.value
            if v is None:
                return {"null"}
            if isinstance(v, bool):
                return {"boolean"}
            if isinstance(v, (int, float)):
                return {"number"}
            if isinstance(v, str):
                return {"string"}
        if isinstance(e, (ast.List, ast.ListComp, ast.Tuple)):
            return {"array"}
        if isinstance(e, (ast.Dict, ast.DictComp)):
            return {"object"}
        if isinstance(e, ast.JoinedStr):
            return {"string"}
        if isinstance(e, ast.IfExp):
            a, b = self.ev(e.body, depth + 1), self.ev(e.orelse, depth + 1)
            return None if a is None or b is None else a | b
        if isinstance(e, ast.Name):
            if e.id in self.locals and self.locals[e.id]:
                return self.locals[e.id]
            if e.id in self.params:
                return annot_kind(self.params[e.id])
            return None
        if isinstance(e, ast.Call):
            f = e.func
            if isinstance(f, ast.Name):
                if f.id in ("str",):
                    return {"string"}
                if f.id in ("int", "float"):
                    return {"number"}
                if f.id == "bool":
                    return {"boolean"}
                if f.id in ("list", "sorted"):
                    return {"array"}
                if f.id == "dict":
                    return {"object"}
                if f.id == "cast" and len(e.args) == 2:
                    return annot_kind(e.args[0])
            if isinstance(f, ast.Attribute):
                if f.attr in ("isoformat", "strftime", "format", "join"):
                    return {"string"}
                if f.attr in ("tolist",):
                    return {"array"}
                if f.attr in ("item",):
                    return {"number"}
                if isinstance(f.value, ast.Name) and f.value.id == "self" and f.attr in ("to_json", "numpy_to_json"):
                    return set()  # recursion into the converter's other method: contributes nothing new
            return None
        if isinstance(e, ast.Attribute):
            # value.value on an enum/flag parameter -> the underlying integer
            if e.attr == "value" and isinstance(e.value, ast.Name) and e.value.id in self.params:
                return {"number"}
            if e.attr in ("real", "imag"):
                return {"number"}
            if isinstance(e.value, ast.Name) and e.value.id == "self" and e.attr in self.attrs:
                val, ann = self.attrs[e.attr]
                sub = KindEval(self.cls, methods(self.cls)["__init__"], self.tree)
                return sub.ev(val, depth + 1)
            return None
        if isinstance(e, ast.Subscript):
            # self._value_to_name[...] : dict[..., str]
            if isinstance(e.value, ast.Attribute) and isinstance(e.value.value, ast.Name) and e.value.value.id == "self":
                if e.value.attr in self.attrs:
                    val, ann = self.attrs[e.value.attr]
                    if isinstance(val, ast.Name) and val.id in ann:
                        a = ann[val.id]
                        if isinstance(a, ast.Subscript) and isinstance(a.value, ast.Name) and a.value.id == "dict":
                            sl = a.slice
                            if isinstance(sl, ast.Tuple) and len(sl.elts) == 2:
                                return annot_kind(sl.elts[1])
            if isinstance(e.value, ast.Name) and e.value.id in self.params:
                ak = self.params[e.value.id]
                if isinstance(ak, ast.Subscript) and isinstance(ak.value, ast.Name) and ak.value.id == "dict":
                    sl = ak.slice
                    if isinstance(sl, ast.Tuple) and len(sl.elts) == 2:
                        return annot_kind(sl.elts[1])
            return None
        return None


def returns_of(fn):
    res = []
    for n in ast.walk(fn):
        if isinstance(n, ast.Return) and n.value is not None:
            res.append(n)
    return res


def rule_json_kinds(out):
    rid = "JK"
    out.rule(rid, "every JSON kind the Python NDJSON converters can return from to_json/numpy_to_json is among the documented kinds of that type "
                  "(refs/jsonkinds.json); the generator's union table must contain those kinds (Go rule J1)", 40)
    ref = load_ref("jsonkinds.json")
    tree, rel = parse_py(out, "_ndjson.py")
    cls = classes(tree)
    assigns = module_assigns(tree)
    table = {}
    targets = []
    for prim, kinds in sorted(ref["primitives"].items()):
        name = prim + "_converter"
        v = assigns.get(name)
        if v is None or not (isinstance(v, ast.Call) and isinstance(v.func, ast.Name) and v.func.id in cls):
            out.bad(rid, "primitive/" + prim, rel, "no module-level `%s = <Converter>()` in _ndjson.py: generated code referring to _ndjson.%s fails at import" % (name, name))
            continue
        targets.append(("prim:" + prim, cls[v.func.id], set(kinds)))
    for d, cname in (("enum", "EnumConverter"), ("flags", "FlagsConverter")):
        if cname not in cls:
            out.bad(rid, "definition/" + d, rel, "class %s not found" % cname)
            continue
        targets.append(("def:" + d, cls[cname], set(ref["definitions"][d])))
    for label, c, allowed in targets:
        ms = methods(c)
        got = set()
        for mname in ("to_json", "numpy_to_json"):
            fn = ms.get(mname)
            if fn is None:
                out.bad(rid, "%s/%s" % (label, mname), pos(rel, c), "converter class %s has no %s" % (c.name, mname))
                continue
            ke = KindEval(c, fn, tree)
            for r in returns_of(fn):
                k = ke.ev(r.value)
                key = "%s/%s.%s/return" % (label, c.name, mname)
                if k is None:
                    out.undecided(rid, key, pos(rel, r), "cannot determine the JSON kind of `%s`" % ast.unparse(r.value))
                    continue
                got |= k
                extra = k - allowed
                out.check(not extra, rid, key, pos(rel, r), "returns %s ⊆ documented %s" % ("|".join(sorted(k)) or "(delegates)", "|".join(sorted(allowed))),
                          "returns JSON kind %s, which the documented mapping (refs/jsonkinds.json) does not list for %s: unions decided untagged on the documented kinds become ambiguous" % ("|".join(sorted(extra)), label))
        table[label] = sorted(got)
    out.tables["python_runtime_json_kinds"] = table


# ----------------------------------------------------------------------------------
# PN1: JSON null is a value. The step look-ups of NDJsonProtocolReader._read_json_line
# must tell "key absent" from "value null" with a sentinel default compared by identity.
# ----------------------------------------------------------------------------------

def rule_ndjson_sentinel(out):
    rid = "PN1"
    out.rule(rid, "NDJsonProtocolReader._read_json_line looks a step up with `.get(stepName, <sentinel>)` and compares the result with that sentinel by identity "
                  "(a `.get(stepName)` / `is not None` test treats a legitimate null value — unset optional, null union case — as 'step absent')", 2)
    tree, rel = parse_py(out, "_ndjson.py")
    cls = classes(tree).get("NDJsonProtocolReader")
    fn = methods(cls).get("_read_json_line") if cls else None
    if fn is None:
        out.undecided(rid, "anchor/NDJsonProtocolReader._read_json_line", rel, "method not found")
        return
    step = fn.args.args[1].arg if len(fn.args.args) > 1 else None
    # names bound to the sentinel inside the function
    sentinels = {"MISSING_SENTINEL"}
    for n in ast.walk(fn):
        if isinstance(n, ast.Assign) and len(n.targets) == 1 and isinstance(n.targets[0], ast.Name) and isinstance(n.value, ast.Name) and n.value.id in sentinels:
            sentinels.add(n.targets[0].id)
    parents = {}
    for n in ast.walk(fn):
        for ch in ast.iter_child_nodes(n):
            parents[ch] = n
    count = 0
    for n in ast.walk(fn):
        if isinstance(n, ast.Subscript) and isinstance(n.slice, ast.Name) and n.slice.id == step:
            count += 1
            out.bad(rid, "_read_json_line/subscript[%s]" % step, pos(rel, n), "indexes the line object with the step name: raises KeyError instead of reporting a missing step")
        if isinstance(n, ast.Call) and isinstance(n.func, ast.Attribute) and n.func.attr == "get" and n.args and isinstance(n.args[0], ast.Name) and n.args[0].id == step:
            count += 1
            key = "_read_json_line/%s.get(%s)" % (ast.unparse(n.func.value), step)
            has_default = len(n.args) == 2 and isinstance(n.args[1], ast.Name) and n.args[1].id in sentinels
            # walk up to the comparison
            p = parents.get(n)
            while p is not None and isinstance(p, ast.NamedExpr):
                p = parents.get(p)
            cmp_ok = isinstance(p, ast.Compare) and len(p.ops) == 1 and isinstance(p.ops[0], (ast.IsNot, ast.Is)) and \
                isinstance(p.comparators[0], ast.Name) and p.comparators[0].id in sentinels
            out.check(has_default and cmp_ok, rid, key, pos(rel, n), "sentinel default, compared by identity with the sentinel",
                      "the look-up does not use the sentinel default with an identity comparison: a step whose JSON value is null is taken for an absent step "
                      "(required step → 'not found' error on valid data; stream of optionals starting with null → reported empty)")
    if count == 0:
        out.undecided(rid, "_read_json_line/lookups", pos(rel, fn), "no look-up of the step name found")


# ----------------------------------------------------------------------------------
# dispatch
# ----------------------------------------------------------------------------------

RULES = {
    "C02": [rule_json_kinds, rule_ndjson_sentinel],
}


def run(prop, tier, repo):
    out = Out(repo)
    for r in RULES.get(prop, []):
        r(out)
    try:
        import cxx_ast
        for r in cxx_ast.RULES.get(prop, []):
            r(out, tier)
    except ImportError:
        pass
    return out.finish()


if __name__ == "__main__":
    import sys
    res = run(sys.argv[1], "quick", sys.argv[2] if len(sys.argv) > 2 else "/repo")
    for o in res["obligations"]:
        if o["status"] != "ok" or "-v" in sys.argv:
            print(o["status"], o["key"], o["pos"], o["fact"][:200])
    print({r["id"]: r["instances"] for r in res["rules"]})
    print(json.dumps(res["tables"], indent=0)[:1500])
