"""Static analysers for the runtime files embedded in the generators:
python `ast` over tooling/internal/python/static_files/*.py, and (cxx_ast.py) the clang
JSON AST of tooling/internal/cpp/include/detail/binary/*.h. Nothing is imported or run.

Each analyser appends obligations {key, rule, pos, status, fact} like the Go side.
"""
import ast
import re
import json
import os

HERE = os.path.dirname(os.path.abspath(__file__))
VERIF = os.path.dirname(HERE)


class Out:
    def __init__(self, repo):
        self.repo = repo
        self.obs = []
        self.rules = {}
        self.order = []
        self.stats = {}
        self.tables = {}
        self._seen = {}

    def rule(self, rid, doc, minimum):
        if rid not in self.rules:
            self.rules[rid] = {"id": rid, "doc": doc, "min_instances": minimum, "instances": 0}
            self.order.append(rid)

    def _add(self, rid, key, pos, status, fact):
        self.rules[rid]["instances"] += 1
        full = rid + "/" + key
        n = self._seen.get(full, 0) + 1
        self._seen[full] = n
        if n > 1:
            full = "%s#%d" % (full, n)
        self.obs.append({"key": full, "rule": rid, "pos": pos, "status": status, "fact": fact})

    def ok(self, rid, key, pos, fact):
        self._add(rid, key, pos, "ok", fact)

    def bad(self, rid, key, pos, fact):
        self._add(rid, key, pos, "violated", fact)

    def undecided(self, rid, key, pos, fact):
        self._add(rid, key, pos, "undecided", fact)

    def check(self, cond, rid, key, pos, okfact, badfact):
        if cond:
            self.ok(rid, key, pos, okfact)
        else:
            self.bad(rid, key, pos, badfact)

    def finish(self):
        for rid in self.order:
            r = self.rules[rid]
            if r["instances"] < r["min_instances"]:
                self.obs.append({"key": rid + "/_mincount", "rule": rid, "pos": "-", "status": "undecided",
                                 "fact": "rule matched %d instances, fewer than the %d confirmed by hand" % (r["instances"], r["min_instances"])})
        return {"obligations": self.obs, "rules": [self.rules[r] for r in self.order], "stats": self.stats, "tables": self.tables}


STATIC = "tooling/internal/python/static_files"


def parse_py(out, name):
    path = os.path.join(out.repo, STATIC, name)
    with open(path) as f:
        src = f.read()
    return ast.parse(src, filename=path), os.path.join(STATIC, name)


def pos(rel, node):
    return "%s:%d" % (rel, getattr(node, "lineno", 0))


def classes(tree):
    return {n.name: n for n in tree.body if isinstance(n, ast.ClassDef)}


def methods(cls):
    return {n.name: n for n in cls.body if isinstance(n, (ast.FunctionDef, ast.AsyncFunctionDef))}


def module_assigns(tree):
    """name -> value node for simple module-level assignments."""
    res = {}
    for n in tree.body:
        if isinstance(n, ast.Assign) and len(n.targets) == 1 and isinstance(n.targets[0], ast.Name):
            res[n.targets[0].id] = n.value
        elif isinstance(n, ast.AnnAssign) and isinstance(n.target, ast.Name) and n.value is not None:
            res[n.target.id] = n.value
    return res


def load_ref(name):
    with open(os.path.join(VERIF, "refs", name)) as f:
        return json.load(f)


# ----------------------------------------------------------------------------------
# JK: JSON kinds the Python NDJSON converters can emit ⊆ documented kinds (refs/jsonkinds.json)
# ----------------------------------------------------------------------------------

ANNOT_KINDS = {"bool": {"boolean"}, "int": {"number"}, "float": {"number"}, "str": {"string"}, "None": {"null"}}


def annot_kind(a):
    if a is None:
        return None
    if isinstance(a, ast.Name):
        return ANNOT_KINDS.get(a.id)
    if isinstance(a, ast.Subscript) and isinstance(a.value, ast.Name):
        if a.value.id in ("list", "List"):
            return {"array"}
        if a.value.id in ("dict", "Dict"):
            return {"object"}
    if isinstance(a, ast.Attribute) and isinstance(a.value, ast.Name) and a.value.id == "np":
        if a.attr.startswith(("int", "uint", "float")):
            return {"number"}
        if a.attr == "bool_":
            return {"boolean"}
    return None


class KindEval:
    """Abstract evaluation of an expression to the set of JSON kinds it can denote."""

    def __init__(self, cls, fn, tree):
        self.cls = cls
        self.fn = fn
        self.tree = tree
        self.params = {a.arg: a.annotation for a in fn.args.args}
        self.locals = {}
        for n in ast.walk(fn):
            if isinstance(n, ast.AnnAssign) and isinstance(n.target, ast.Name):
                self.locals[n.target.id] = annot_kind(n.annotation)
        # attributes assigned in __init__
        self.attrs = {}
        init = methods(cls).get("__init__")
        if init:
            ann = {a.arg: a.annotation for a in init.args.args}
            for n in ast.walk(init):
                if isinstance(n, ast.Assign) and len(n.targets) == 1:
                    t = n.targets[0]
                    if isinstance(t, ast.Attribute) and isinstance(t.value, ast.Name) and t.value.id == "self":
                        self.attrs[t.attr] = (n.value, ann)

    def ev(self, e, depth=0):
        if depth > 6:
            return None
        if isinstance(e, ast.Constant):
            v = e.value
            if v is None:
                return {"null"}
            if isinstance(v, bool):
                return {"boolean"}
            if isinstance(v, (int, float)):
                return {"number"}
            if isinstance(v, str):
                return {"string"}
        if isinstance(e, (ast.List, ast.ListComp, ast.Tuple)):
            return {"array"}
        if isinstance(e, (ast.Dict, ast.DictComp)):
            return {"object"}
        if isinstance(e, ast.JoinedStr):
            return {"string"}
        if isinstance(e, ast.IfExp):
            a, b = self.ev(e.body, depth + 1), self.ev(e.orelse, depth + 1)
            return None if a is None or b is None else a | b
        if isinstance(e, ast.Name):
            if e.id in self.locals and self.locals[e.id]:
                return self.locals[e.id]
            if e.id in self.params:
                return annot_kind(self.params[e.id])
            return None
        if isinstance(e, ast.Call):
            f = e.func
            if isinstance(f, ast.Name):
                if f.id in ("str",):
                    return {"string"}
                if f.id in ("int", "float"):
                    return {"number"}
                if f.id == "bool":
                    return {"boolean"}
                if f.id in ("list", "sorted"):
                    return {"array"}
                if f.id == "dict":
                    return {"object"}
                if f.id == "cast" and len(e.args) == 2:
                    return annot_kind(e.args[0])
            if isinstance(f, ast.Attribute):
                if f.attr in ("isoformat", "strftime", "format", "join"):
                    return {"string"}
                if f.attr in ("tolist",):
                    return {"array"}
                if f.attr in ("item",):
                    return {"number"}
                if isinstance(f.value, ast.Name) and f.value.id == "self" and f.attr in ("to_json", "numpy_to_json"):
                    return set()  # recursion into the converter's other method: contributes nothing new
            return None
        if isinstance(e, ast.Attribute):
            # value.value on an enum/flag parameter -> the underlying integer
            if e.attr == "value" and isinstance(e.value, ast.Name) and e.value.id in self.params:
                return {"number"}
            if e.attr in ("real", "imag"):
                return {"number"}
            if isinstance(e.value, ast.Name) and e.value.id == "self" and e.attr in self.attrs:
                val, ann = self.attrs[e.attr]
                sub = KindEval(self.cls, methods(self.cls)["__init__"], self.tree)
                return sub.ev(val, depth + 1)
            return None
        if isinstance(e, ast.Subscript):
            # self._value_to_name[...] : dict[..., str]
            if isinstance(e.value, ast.Attribute) and isinstance(e.value.value, ast.Name) and e.value.value.id == "self":
                if e.value.attr in self.attrs:
                    val, ann = self.attrs[e.value.attr]
                    if isinstance(val, ast.Name) and val.id in ann:
                        a = ann[val.id]
                        if isinstance(a, ast.Subscript) and isinstance(a.value, ast.Name) and a.value.id == "dict":
                            sl = a.slice
                            if isinstance(sl, ast.Tuple) and len(sl.elts) == 2:
                                return annot_kind(sl.elts[1])
            if isinstance(e.value, ast.Name) and e.value.id in self.params:
                ak = self.params[e.value.id]
                if isinstance(ak, ast.Subscript) and isinstance(ak.value, ast.Name) and ak.value.id == "dict":
                    sl = ak.slice
                    if isinstance(sl, ast.Tuple) and len(sl.elts) == 2:
                        return annot_kind(sl.elts[1])
            return None
        return None


def returns_of(fn):
    res = []
    for n in ast.walk(fn):
        if isinstance(n, ast.Return) and n.value is not None:
            res.append(n)
    return res


def rule_json_kinds(out):
    rid = "JK"
    out.rule(rid, "every JSON kind the Python NDJSON converters can return from to_json/numpy_to_json is among the documented kinds of that type "
                  "(refs/jsonkinds.json); the generator's union table must contain those kinds (Go rule J1)", 40)
    ref = load_ref("jsonkinds.json")
    tree, rel = parse_py(out, "_ndjson.py")
    cls = classes(tree)
    assigns = module_assigns(tree)
    table = {}
    targets = []
    for prim, kinds in sorted(ref["primitives"].items()):
        name = prim + "_converter"
        v = assigns.get(name)
        if v is None or not (isinstance(v, ast.Call) and isinstance(v.func, ast.Name) and v.func.id in cls):
            out.bad(rid, "primitive/" + prim, rel, "no module-level `%s = <Converter>()` in _ndjson.py: generated code referring to _ndjson.%s fails at import" % (name, name))
            continue
        targets.append(("prim:" + prim, cls[v.func.id], set(kinds)))
    for d, cname in (("enum", "EnumConverter"), ("flags", "FlagsConverter")):
        if cname not in cls:
            out.bad(rid, "definition/" + d, rel, "class %s not found" % cname)
            continue
        targets.append(("def:" + d, cls[cname], set(ref["definitions"][d])))
    for label, c, allowed in targets:
        ms = methods(c)
        got = set()
        for mname in ("to_json", "numpy_to_json"):
            fn = ms.get(mname)
            if fn is None:
                out.bad(rid, "%s/%s" % (label, mname), pos(rel, c), "converter class %s has no %s" % (c.name, mname))
                continue
            ke = KindEval(c, fn, tree)
            for r in returns_of(fn):
                k = ke.ev(r.value)
                key = "%s/%s.%s/return" % (label, c.name, mname)
                if k is None:
                    out.undecided(rid, key, pos(rel, r), "cannot determine the JSON kind of `%s`" % ast.unparse(r.value))
                    continue
                got |= k
                extra = k - allowed
                out.check(not extra, rid, key, pos(rel, r), "returns %s ⊆ documented %s" % ("|".join(sorted(k)) or "(delegates)", "|".join(sorted(allowed))),
                          "returns JSON kind %s, which the documented mapping (refs/jsonkinds.json) does not list for %s: unions decided untagged on the documented kinds become ambiguous" % ("|".join(sorted(extra)), label))
        table[label] = sorted(got)
    out.tables["python_runtime_json_kinds"] = table


# ----------------------------------------------------------------------------------
# PN1: JSON null is a value. The step look-ups of NDJsonProtocolReader._read_json_line
# must tell "key absent" from "value null" with a sentinel default compared by identity.
# ----------------------------------------------------------------------------------

def rule_ndjson_sentinel(out):
    rid = "PN1"
    out.rule(rid, "NDJsonProtocolReader._read_json_line looks a step up with `.get(stepName, <sentinel>)` and compares the result with that sentinel by identity "
                  "(a `.get(stepName)` / `is not None` test treats a legitimate null value — unset optional, null union case — as 'step absent')", 2)
    tree, rel = parse_py(out, "_ndjson.py")
    cls = classes(tree).get("NDJsonProtocolReader")
    fn = methods(cls).get("_read_json_line") if cls else None
    if fn is None:
        out.undecided(rid, "anchor/NDJsonProtocolReader._read_json_line", rel, "method not found")
        return
    step = fn.args.args[1].arg if len(fn.args.args) > 1 else None
    # names bound to the sentinel inside the function
    sentinels = {"MISSING_SENTINEL"}
    for n in ast.walk(fn):
        if isinstance(n, ast.Assign) and len(n.targets) == 1 and isinstance(n.targets[0], ast.Name) and isinstance(n.value, ast.Name) and n.value.id in sentinels:
            sentinels.add(n.targets[0].id)
    parents = {}
    for n in ast.walk(fn):
        for ch in ast.iter_child_nodes(n):
            parents[ch] = n
    count = 0
    for n in ast.walk(fn):
        if isinstance(n, ast.Subscript) and isinstance(n.slice, ast.Name) and n.slice.id == step:
            count += 1
            out.bad(rid, "_read_json_line/subscript[%s]" % step, pos(rel, n), "indexes the line object with the step name: raises KeyError instead of reporting a missing step")
        if isinstance(n, ast.Call) and isinstance(n.func, ast.Attribute) and n.func.attr == "get" and n.args and isinstance(n.args[0], ast.Name) and n.args[0].id == step:
            count += 1
            key = "_read_json_line/%s.get(%s)" % (ast.unparse(n.func.value), step)
            has_default = len(n.args) == 2 and isinstance(n.args[1], ast.Name) and n.args[1].id in sentinels
            # walk up to the comparison
            p = parents.get(n)
            while p is not None and isinstance(p, ast.NamedExpr):
                p = parents.get(p)
            def id_cmp(c):
                return isinstance(c, ast.Compare) and len(c.ops) == 1 and isinstance(c.ops[0], (ast.IsNot, ast.Is)) and \
                    isinstance(c.comparators[0], ast.Name) and c.comparators[0].id in sentinels
            cmp_ok = id_cmp(p)
            if not cmp_ok and isinstance(p, ast.Assign) and len(p.targets) == 1 and isinstance(p.targets[0], ast.Name):
                # `found = line.get(step, SENTINEL)` ... `if found is SENTINEL:` — every test of the local is an identity test with the sentinel
                v = p.targets[0].id
                tests = [c for c in ast.walk(fn) if isinstance(c, ast.Compare) and isinstance(c.left, ast.Name) and c.left.id == v]
                truthy = [t for t in ast.walk(fn) if isinstance(t, (ast.If, ast.While, ast.IfExp)) and
                          (isinstance(t.test, ast.Name) and t.test.id == v or isinstance(t.test, ast.UnaryOp) and isinstance(t.test.operand, ast.Name) and t.test.operand.id == v)]
                cmp_ok = bool(tests) and all(id_cmp(c) for c in tests) and not truthy
            out.check(has_default and cmp_ok, rid, key, pos(rel, n), "sentinel default, compared by identity with the sentinel",
                      "the look-up does not use the sentinel default with an identity comparison: a step whose JSON value is null is taken for an absent step "
                      "(required step → 'not found' error on valid data; stream of optionals starting with null → reported empty)")
    if count == 0:
        out.undecided(rid, "_read_json_line/lookups", pos(rel, fn), "no look-up of the step name found")



# ----------------------------------------------------------------------------------
# PB1: capacity before unchecked byte writes (CodedOutputStream.write_byte_no_check)
# ----------------------------------------------------------------------------------

CAP_EXCEPTIONS = {
    "CodedOutputStream.write_unsigned_varint": "varint loop: at most 10 bytes for values < 2^64 (every integer serializer range-checks before calling); "
                                               "the rule still requires the `< 10` capacity test in front of the loop",
}


def _recv_name(call):
    """receiver text of a method call X.m(...), e.g. 'stream', 'self', 'self._stream'"""
    if isinstance(call.func, ast.Attribute):
        try:
            return ast.unparse(call.func.value)
        except Exception:
            return None
    return None


_CAP_CTX = {"consts": {}, "inline": {}}


def _cap_context(cls, fn):
    """names of fn bound once to an int constant, and zero-argument methods of cls that only return an expression"""
    consts, counts = {}, {}
    for n in ast.walk(fn):
        if isinstance(n, ast.Assign) and len(n.targets) == 1 and isinstance(n.targets[0], ast.Name):
            nm = n.targets[0].id
            counts[nm] = counts.get(nm, 0) + 1
            if isinstance(n.value, ast.Constant) and isinstance(n.value.value, int):
                consts[nm] = n.value.value
        elif isinstance(n, (ast.AugAssign, ast.AnnAssign)) and isinstance(n.target, ast.Name):
            counts[n.target.id] = counts.get(n.target.id, 0) + 2
    consts = {k: v for k, v in consts.items() if counts.get(k) == 1}
    inline = {}
    if cls is not None:
        for mname, m in methods(cls).items():
            body = [b for b in m.body if not (isinstance(b, ast.Expr) and isinstance(b.value, ast.Constant))]
            if len(m.args.args) == 1 and len(body) == 1 and isinstance(body[0], ast.Return) and body[0].value is not None:
                inline["self.%s()" % mname] = "(" + ast.unparse(body[0].value) + ")"
    _CAP_CTX["consts"], _CAP_CTX["inline"] = consts, inline


def _is_capacity_idiom(stmt):
    """`if (len(self._buffer) - self._offset) < N: self.flush()` -> N   (the free space may be computed by a
    one-line method, N may be a local bound once to a constant, the comparison may be written either way round)"""
    if not isinstance(stmt, ast.If) or stmt.orelse:
        return None
    t = stmt.test
    if isinstance(t, ast.UnaryOp) and isinstance(t.op, ast.Not) and isinstance(t.operand, ast.Compare) and len(t.operand.ops) == 1:
        inv = {ast.GtE: ast.Lt, ast.LtE: ast.Gt}
        if type(t.operand.ops[0]) in inv:
            t = ast.Compare(left=t.operand.left, ops=[inv[type(t.operand.ops[0])]()], comparators=t.operand.comparators)
    if not (isinstance(t, ast.Compare) and len(t.ops) == 1):
        return None
    lhs, rhs = t.left, t.comparators[0]
    if isinstance(t.ops[0], ast.Gt):
        lhs, rhs = rhs, lhs
    elif not isinstance(t.ops[0], ast.Lt):
        return None
    left = ast.unparse(lhs)
    for k, v in _CAP_CTX["inline"].items():
        left = left.replace(k, v)
    left = left.replace(" ", "")
    while left.startswith("(") and left.endswith(")"):
        left = left[1:-1]
    if left != "len(self._buffer)-self._offset":
        return None
    body = stmt.body
    if len(body) == 1 and isinstance(body[0], ast.Expr) and isinstance(body[0].value, ast.Call) and ast.unparse(body[0].value) == "self.flush()":
        r = rhs
        if isinstance(r, ast.Constant) and isinstance(r.value, int):
            return r.value
        if isinstance(r, ast.Name) and r.id in _CAP_CTX["consts"]:
            return _CAP_CTX["consts"][r.id]
        return 1 if isinstance(r, (ast.Name, ast.Attribute)) else None  # `< size`: at least what is about to be packed
    return None


class CapWalker:
    def __init__(self, out, rid, rel, qual, streams):
        self.out, self.rid, self.rel, self.qual, self.streams = out, rid, rel, qual, streams
        self.sites = 0
        self.reported = set()
        self.status = {}

    def report(self):
        for site in sorted(self.status):
            key, call, ok = self.status[site]
            if ok:
                self.out.ok(self.rid, key, pos(self.rel, call), "capacity for this byte established on every path")
            else:
                self.out.bad(self.rid, key, pos(self.rel, call),
                             "unchecked byte write with no ensure_capacity/flush test since the last buffer-consuming call on some path (a later loop iteration included): "
                             "when the 64 KiB buffer is exactly full here the bytearray index is out of range (IndexError) — the stream is lost")

    def calls_in_order(self, node):
        res = []
        for n in ast.walk(node):
            if isinstance(n, ast.Call):
                res.append(n)
        res.sort(key=lambda c: (c.lineno, c.col_offset))
        return res

    def expr(self, node, cap):
        for call in self.calls_in_order(node):
            recv = _recv_name(call)
            args = [ast.unparse(a) for a in call.args]
            if recv in self.streams and isinstance(call.func, ast.Attribute):
                m = call.func.attr
                if m == "ensure_capacity" and call.args and isinstance(call.args[0], ast.Constant):
                    cap[recv] = call.args[0].value
                    continue
                if m == "ensure_capacity" and call.args:
                    cap[recv] = max(cap.get(recv, 0), 1)  # ensure_capacity(size): at least what is about to be packed
                    continue
                if m == "write_byte_no_check":
                    key = "%s/%s.write_byte_no_check" % (self.qual, recv)
                    site = (call.lineno, call.col_offset)
                    # judged over all passes (a loop is walked until its entry state is stable): covered only if covered every time
                    ok_here = cap.get(recv, 0) >= 1
                    if ok_here:
                        cap[recv] -= 1
                    prev = self.status.get(site)
                    self.status[site] = (key, call, ok_here and (prev[2] if prev else True))
                    self.sites += 1
                    continue
                if m in ("flush",):
                    continue
                cap[recv] = 0
            else:
                # the stream passed to something else: the callee may fill the buffer
                for st in self.streams:
                    if st in args:
                        cap[st] = 0

    def block(self, stmts, cap):
        """returns cap after the block, or None if the block always leaves"""
        for st in stmts:
            n = _is_capacity_idiom(st)
            if n is not None and "self" in self.streams:
                cap["self"] = n
                continue
            if isinstance(st, (ast.Return, ast.Raise)):
                if getattr(st, "value", None) is not None:
                    self.expr(st.value, cap)
                if isinstance(st, ast.Raise) and st.exc is not None:
                    pass
                return None
            if isinstance(st, ast.If):
                self.expr(st.test, cap)
                a = self.block(st.body, dict(cap))
                b = self.block(st.orelse, dict(cap)) if st.orelse else dict(cap)
                if a is None and b is None:
                    return None
                merged = {}
                for k in set((a or {}).keys()) | set((b or {}).keys()) | set(cap.keys()):
                    vals = [x.get(k, 0) for x in (a, b) if x is not None]
                    merged[k] = min(vals)
                cap = merged
                continue
            if isinstance(st, (ast.For, ast.While)):
                if isinstance(st, ast.For):
                    self.expr(st.iter, cap)
                else:
                    self.expr(st.test, cap)
                entry = dict(cap)
                for _ in range(4):
                    after = self.block(st.body, dict(entry))
                    if after is None:
                        break
                    new_entry = {k: min(entry.get(k, 0), after.get(k, 0)) for k in set(entry) | set(after)}
                    if new_entry == entry:
                        break
                    entry = new_entry
                cap = entry
                continue
            if isinstance(st, (ast.With, ast.Try)):
                body = st.body
                r = self.block(body, cap)
                cap = r if r is not None else cap
                continue
            self.expr(st, cap)
        return cap


def rule_py_capacity(out):
    rid = "PB1"
    out.rule(rid, "every write_byte_no_check in _binary.py is preceded on every path, since the last call that can fill the buffer, by ensure_capacity(n) "
                  "or the `len(buffer) - offset < n → flush()` test", 8)
    tree, rel = parse_py(out, "_binary.py")
    for cname, cls in classes(tree).items():
        for mname, fn in methods(cls).items():
            src = ast.unparse(fn)
            if "write_byte_no_check" not in src or mname == "write_byte_no_check":
                continue
            qual = "%s.%s" % (cname, mname)
            _cap_context(cls, fn)
            streams = {"stream", "self._stream"}
            if cname == "CodedOutputStream":
                streams = {"self"}
            if qual in CAP_EXCEPTIONS:
                # still require the capacity idiom with N >= 10 before the loop
                n = None
                for st in fn.body:
                    v = _is_capacity_idiom(st)
                    if v is None and isinstance(st, ast.Expr) and isinstance(st.value, ast.Call) and isinstance(st.value.func, ast.Attribute) \
                            and st.value.func.attr == "ensure_capacity" and _recv_name(st.value) in streams and st.value.args \
                            and isinstance(st.value.args[0], ast.Constant) and isinstance(st.value.args[0].value, int):
                        v = st.value.args[0].value  # the same test, through the method that implements it
                    if v is not None:
                        n = v
                out.check(n is not None and n >= 10, rid, qual + "/capacity test before the varint loop", pos(rel, fn),
                          "exception: " + CAP_EXCEPTIONS[qual] + " (test present: < %s)" % n,
                          "the `< 10` capacity test in front of the varint loop is missing or smaller than the 10 bytes a 64-bit varint can need")
                continue
            w = CapWalker(out, rid, rel, qual, streams)
            w.block(fn.body, {s: 0 for s in streams})
            w.report()


# ----------------------------------------------------------------------------------
# PB2: bytes leave CodedOutputStream in the order they were written: a direct write to the
# underlying stream is preceded by a flush of the staging buffer.
# ----------------------------------------------------------------------------------

def rule_py_write_order(out):
    rid = "PB2"
    out.rule(rid, "CodedOutputStream: every direct `self._stream.write(...)` (bypassing the staging buffer) is preceded on its path by `self.flush()`, "
                  "so bytes buffered earlier (e.g. magic bytes and version before a large schema) are not overtaken", 2)
    tree, rel = parse_py(out, "_binary.py")
    cls = classes(tree).get("CodedOutputStream")
    if cls is None:
        out.undecided(rid, "CodedOutputStream", rel, "class not found")
        return
    for mname, fn in methods(cls).items():
        if mname == "flush":
            continue

        def scan(stmts, flushed):
            for st in stmts:
                if isinstance(st, ast.Expr) and isinstance(st.value, ast.Call) and ast.unparse(st.value) == "self.flush()":
                    flushed = True
                    continue
                if isinstance(st, ast.If):
                    scan(st.body, flushed)
                    scan(st.orelse, flushed)
                    continue
                if isinstance(st, (ast.For, ast.While, ast.With, ast.Try)):
                    scan(st.body, flushed)
                    continue
                for n in ast.walk(st):
                    if isinstance(n, ast.Call) and ast.unparse(n.func) == "self._stream.write":
                        out.check(flushed, rid, "CodedOutputStream.%s/direct write" % mname, pos(rel, n), "staging buffer flushed first",
                                  "writes directly to the underlying stream while earlier bytes may still sit in the staging buffer: they come out AFTER this data "
                                  "(a schema larger than the buffer is written ahead of the magic bytes)")
        scan(fn.body, False)


# ----------------------------------------------------------------------------------
# PH1: headers. Writer: magic, fixed int32 version, schema string, in that order.
# Readers: magic / version / schema are compared with `!=` and a mismatch raises, before
# anything else is read.
# ----------------------------------------------------------------------------------

def _raises(body):
    return any(isinstance(s, ast.Raise) for s in body)


def rule_py_headers(out):
    rid = "PH1"
    out.rule(rid, "Python binary and NDJSON readers compare magic/first line, format version and schema with `!=` and raise on mismatch, in that order, "
                  "before any value is read; the binary writer writes magic, int32 version, schema in that order", 8)
    tree, rel = parse_py(out, "_binary.py")
    cl = classes(tree)
    # writer order
    w = methods(cl["BinaryProtocolWriter"]).get("__init__") if "BinaryProtocolWriter" in cl else None
    if w is None:
        out.undecided(rid, "BinaryProtocolWriter.__init__", rel, "not found")
    else:
        # on every path of the constructor (module helpers expanded in place): the calls, in order
        pew = PathEnum(tree)
        seqs = []
        for wp in pew.paths(w.body):
            if wp.outcome == "raise":
                continue
            sq = []
            for call, _n in wp.events:
                fn_t = ast.unparse(call.func)
                args_t = " ".join(wp._expand(a) for a in call.args)
                if fn_t.endswith("write_bytes") and "MAGIC_BYTES" in args_t:
                    sq.append("magic")
                elif fn_t.endswith("write_fixed_int32") and "CURRENT_BINARY_FORMAT_VERSION" in args_t:
                    sq.append("version")
                elif fn_t.endswith("string_serializer.write") and "schema" in args_t:
                    sq.append("schema")
            seqs.append(sq)
        seq = seqs[0] if seqs and all(q == seqs[0] for q in seqs) else seqs
        out.check(seq == ["magic", "version", "schema"], rid, "BinaryProtocolWriter.__init__/header order", pos(rel, w),
                  "writes magic, fixed int32 version, schema string", "header is not written as magic, int32 version, schema: %s" % seq)
    # readers: decided on the normally-completing paths of __init__ (helpers of the module expanded in
    # place), so that the shape of the tests — `!=` with raise, `==` with early return, `not (a == b)`,
    # nested ifs, a helper function — does not matter
    r = methods(cl["BinaryProtocolReader"]).get("__init__") if "BinaryProtocolReader" in cl else None
    if r is None:
        out.undecided(rid, "BinaryProtocolReader.__init__", rel, "not found")
    else:
        pe = PathEnum(tree)
        ok_paths = [p for p in pe.paths(r.body) if p.outcome != "raise"]
        key = "BinaryProtocolReader.__init__"
        if pe.overflow or not ok_paths:
            out.undecided(rid, key + "/paths", pos(rel, r), "cannot enumerate the paths of the reader's constructor")
        else:
            for which, marker in (("magic", "MAGIC_BYTES"), ("version", "CURRENT_BINARY_FORMAT_VERSION")):
                bad = [p for p in ok_paths if not p.asserts_equal_whole(marker)]
                out.check(not bad, rid, "%s/%s compared with !=" % (key, which), pos(rel, r), "every path that completes has %s == the expected value" % which,
                          "the constructor can complete without the %s having been found equal to %s: some foreign streams are accepted" % (which, marker))
            bad = [p for p in ok_paths if not (p.asserts_equal_whole("expected_schema") or p.asserts_falsy("expected_schema") or p.denies_and("expected_schema") or p.absent_or_equal("expected_schema"))]
            out.check(not bad, rid, key + "/schema compared with !=", pos(rel, r), "every path that completes has the stored schema equal to the expected one, or no expected schema was given",
                      "the constructor can complete although an expected schema was given and the stream's schema was not found equal to it")
            order_ok = all(p.order_of(["MAGIC_BYTES", "CURRENT_BINARY_FORMAT_VERSION", "expected_schema"]) for p in ok_paths)
            out.check(order_ok, rid, key + "/checks in order", pos(rel, r), "magic, version, schema are checked in stream order",
                      "the header checks are not made in the order magic, version, schema")
    tree2, rel2 = parse_py(out, "_ndjson.py")
    cl2 = classes(tree2)
    r2 = methods(cl2["NDJsonProtocolReader"]).get("__init__") if "NDJsonProtocolReader" in cl2 else None
    if r2 is None:
        out.undecided(rid, "NDJsonProtocolReader.__init__", rel2, "not found")
    else:
        pe = PathEnum(tree2)
        ok_paths = [p for p in pe.paths(r2.body) if p.outcome != "raise"]
        key = "NDJsonProtocolReader.__init__"
        if pe.overflow or not ok_paths:
            out.undecided(rid, key + "/paths", pos(rel2, r2), "cannot enumerate the paths of the reader's constructor")
        else:
            bad = [p for p in ok_paths if not p.asserts_membership("yardl")]
            out.check(not bad, rid, key + "/yardl key check", pos(rel2, r2), "every path that completes found the 'yardl' key in the first line",
                      "the constructor can complete without the first line having a 'yardl' entry")
            bad = [p for p in ok_paths if not p.asserts_equal_whole("CURRENT_NDJSON_FORMAT_VERSION")]
            out.check(not bad, rid, key + "/version check", pos(rel2, r2), "mismatch raises", "the constructor can complete with a format version other than CURRENT_NDJSON_FORMAT_VERSION")
            bad = [p for p in ok_paths if not p.asserts_equal_whole("json.loads(schema)")]
            out.check(not bad, rid, key + "/schema check", pos(rel2, r2), "mismatch raises: the whole parsed schema (protocol and type definitions) is compared",
                      "the constructor can complete although the header's schema was not found equal to the WHOLE schema of the protocol (a comparison of a part, e.g. only the protocol entry, lets a stream with different record/enum/alias definitions through)")


def _py_balanced(s):
    d = 0
    for ch in s:
        if ch in "([{":
            d += 1
        elif ch in ")]}":
            d -= 1
            if d < 0:
                return False
    return d == 0


class PyPath:
    def __init__(self, lits, outcome, env, events=None):
        self.lits, self.outcome, self.env = lits, outcome, env
        self.events = events or []  # (call node, number of literals known when it is made)

    def asserts_nonempty(self, subject, upto=None):
        """len(subject) > 0 is known (among the first `upto` literals)"""
        want = ("len(%s)" % subject).replace(" ", "")
        for t, val in self.lits[:upto]:
            if isinstance(t, ast.Compare) and len(t.ops) == 1:
                l, r, op = ast.unparse(t.left).replace(" ", ""), ast.unparse(t.comparators[0]).replace(" ", ""), t.ops[0]
                if l == want and r == "0" and ((isinstance(op, (ast.Gt, ast.NotEq)) and val) or (isinstance(op, (ast.Eq, ast.LtE)) and not val)):
                    return True
                if l == want and r == "1" and ((isinstance(op, ast.GtE) and val) or (isinstance(op, ast.Lt) and not val)):
                    return True
                if r == want and l == "0" and ((isinstance(op, (ast.Lt, ast.NotEq)) and val) or (isinstance(op, (ast.Eq, ast.GtE)) and not val)):
                    return True
        return False

    def _expand(self, node):
        """source text of an expression with single-assignment locals replaced by their value"""
        txt = ast.unparse(node)
        for _ in range(3):
            changed = False
            for name, val in self.env.items():
                if name.startswith("<none>"):
                    continue
                new = re.sub(r"(?<![\w.])%s(?![\w])" % re.escape(name), "(" + val + ")", txt)
                if new != txt:
                    txt, changed = new, True
            if not changed:
                break
        return txt

    def _eq_literals(self):
        """(left text, right text, index) for every comparison known to hold with equality on this path"""
        res = []
        for i, (t, val) in enumerate(self.lits):
            if isinstance(t, ast.Compare) and len(t.ops) == 1:
                if (isinstance(t.ops[0], ast.Eq) and val) or (isinstance(t.ops[0], ast.NotEq) and not val):
                    res.append((ast.unparse(t.left) + " " + self._expand(t.left), ast.unparse(t.comparators[0]) + " " + self._expand(t.comparators[0]), i))
        return res

    def asserts_equal(self, marker):
        return any(marker in a or marker in b for a, b, _ in self._eq_literals())

    def asserts_equal_whole(self, marker):
        """some comparison known to hold with equality has `marker` itself as one operand — not a projection,
        slice or element of it (directly or through single-assignment locals)"""
        def norm(t):
            t = t.replace(" ", "").replace("\n", "")
            while t.startswith("(") and t.endswith(")") and _py_balanced(t[1:-1]):
                t = t[1:-1]
            return t
        want = norm(marker)
        for i, (t, val) in enumerate(self.lits):
            if isinstance(t, ast.Compare) and len(t.ops) == 1:
                if (isinstance(t.ops[0], ast.Eq) and val) or (isinstance(t.ops[0], ast.NotEq) and not val):
                    for side in (t.left, t.comparators[0]):
                        if norm(ast.unparse(side)) == want or norm(self._expand(side)) == want:
                            return True
        return False

    def asserts_ge(self, a, b):
        """a >= b is known on this path (a, b: markers of the operand texts)"""
        for t, val in self.lits:
            if not (isinstance(t, ast.Compare) and len(t.ops) == 1):
                continue
            l, r, op = ast.unparse(t.left) + " " + self._expand(t.left), ast.unparse(t.comparators[0]) + " " + self._expand(t.comparators[0]), t.ops[0]
            if a in l and b in r and ((isinstance(op, ast.Lt) and not val) or (isinstance(op, ast.GtE) and val)):
                return True
            if b in l and a in r and ((isinstance(op, ast.Gt) and not val) or (isinstance(op, ast.LtE) and val)):
                return True
        return False

    def asserts_falsy(self, name):
        for t, val in self.lits:
            if not val and (isinstance(t, ast.Name) and t.id == name):
                return True
            if val and isinstance(t, ast.Compare) and len(t.ops) == 1 and isinstance(t.ops[0], ast.Is) and ast.unparse(t.left) == name and ast.unparse(t.comparators[0]) == "None":
                return True
        return False

    def absent_or_equal(self, name):
        """some literal of the path implies: `name` is falsy/None, or something was found equal to `name` itself"""
        def norm(t):
            t = t.replace(" ", "").replace("\n", "")
            while t.startswith("(") and t.endswith(")") and _py_balanced(t[1:-1]):
                t = t[1:-1]
            return t

        def whole(side):
            return norm(ast.unparse(side)) == name or norm(self._expand(side)) == name

        def imp(t, val):
            if isinstance(t, ast.UnaryOp) and isinstance(t.op, ast.Not):
                return imp(t.operand, not val)
            if isinstance(t, ast.BoolOp):
                if isinstance(t.op, ast.And):
                    return any(imp(v, True) for v in t.values) if val else all(imp(v, False) for v in t.values)
                return all(imp(v, True) for v in t.values) if val else any(imp(v, False) for v in t.values)
            if isinstance(t, ast.Name):
                return t.id == name and not val
            if isinstance(t, ast.Compare) and len(t.ops) == 1:
                op, l, r = t.ops[0], t.left, t.comparators[0]
                if isinstance(op, (ast.Is, ast.Eq)) and ast.unparse(l) == name and ast.unparse(r) == "None":
                    return val
                if isinstance(op, (ast.IsNot, ast.NotEq)) and ast.unparse(l) == name and ast.unparse(r) == "None":
                    return not val
                if isinstance(op, ast.Eq) and (whole(l) or whole(r)):
                    return val
                if isinstance(op, ast.NotEq) and (whole(l) or whole(r)):
                    return not val
            return False

        return any(imp(t, val) for t, val in self.lits)

    def denies_and(self, name):
        """not (name and X != name): either no expected value or equality"""
        for t, val in self.lits:
            if not val and isinstance(t, ast.BoolOp) and isinstance(t.op, ast.And) and len(t.values) == 2:
                a, b = t.values
                if isinstance(a, ast.Name) and a.id == name and isinstance(b, ast.Compare) and len(b.ops) == 1 and isinstance(b.ops[0], ast.NotEq) \
                        and (name in ast.unparse(b.left) or name in ast.unparse(b.comparators[0])):
                    return True
        return False

    def asserts_membership(self, key):
        for t, val in self.lits:
            if isinstance(t, ast.Compare) and len(t.ops) == 1 and isinstance(t.left, ast.Constant) and t.left.value == key:
                if (isinstance(t.ops[0], ast.In) and val) or (isinstance(t.ops[0], ast.NotIn) and not val):
                    return True
        return False

    def order_of(self, markers):
        last = -1
        for m in markers:
            idx = None
            for a, b, i in self._eq_literals():
                if m in a or m in b:
                    idx = i
                    break
            if idx is None:
                # optional check absent on this path (no expected schema)
                for i, (t, val) in enumerate(self.lits):
                    if m in ast.unparse(t):
                        idx = i
                        break
            if idx is None:
                continue
            if idx < last:
                return False
            last = idx
        return True


class PathEnum:
    """Enumerates the paths of a (simple) function body as lists of (test, value) literals.
    `a and b` taken / `a or b` not taken / `not a` are split into their parts. Calls of module-level
    functions of the same file are expanded in place. Loops and try bodies are taken once or not at all."""

    def __init__(self, module, limit=512):
        self.funcs = {n.name: n for n in module.body if isinstance(n, ast.FunctionDef)}
        self.limit = limit
        self.overflow = False

    def split(self, test, val, env=None, depth=0):
        if isinstance(test, ast.Name) and env and test.id in env and depth < 3:
            # an explaining local: `ok = a == b` ... `if ok:` tests `a == b`
            try:
                sub = ast.parse(env[test.id], mode="eval").body
            except SyntaxError:
                sub = None
            if isinstance(sub, (ast.Compare, ast.BoolOp)) or (isinstance(sub, ast.UnaryOp) and isinstance(sub.op, ast.Not)):
                return self.split(sub, val, env, depth + 1)
        if isinstance(test, ast.UnaryOp) and isinstance(test.op, ast.Not):
            return self.split(test.operand, not val, env, depth)
        if isinstance(test, ast.BoolOp):
            if isinstance(test.op, ast.And) and val:
                return [l for v in test.values for l in self.split(v, True, env, depth)]
            if isinstance(test.op, ast.Or) and not val:
                return [l for v in test.values for l in self.split(v, False, env, depth)]
        return [(test, val)]

    def known_value(self, test, env):
        """truth value of a test that only asks about a local currently holding None, else None"""
        if isinstance(test, ast.UnaryOp) and isinstance(test.op, ast.Not):
            v = self.known_value(test.operand, env)
            return None if v is None else not v
        if isinstance(test, ast.Call) and isinstance(test.func, ast.Name) and test.func.id == "isinstance" and len(test.args) == 2:
            if ("<none>" + ast.unparse(test.args[0])) in env and "None" not in ast.unparse(test.args[1]):
                return False
        if isinstance(test, ast.Compare) and len(test.ops) == 1 and ast.unparse(test.comparators[0]) == "None" and ("<none>" + ast.unparse(test.left)) in env:
            if isinstance(test.ops[0], (ast.Is, ast.Eq)):
                return True
            if isinstance(test.ops[0], (ast.IsNot, ast.NotEq)):
                return False
        return None

    def paths(self, stmts, depth=0, start=None):
        res = [start if start is not None else PyPath([], "fall", {})]
        for st in stmts:
            nxt = []
            for p in res:
                if p.outcome != "fall":
                    nxt.append(p)
                    continue
                for q in self.step(st, p, depth):
                    nxt.append(q)
            res = nxt
            if len(res) > self.limit:
                self.overflow = True
                return res[: self.limit]
        return res

    def _seq(self, p, stmts, depth):
        # the block continues the path: it sees the bindings made so far and may undo them
        return self.paths(stmts, depth, PyPath(p.lits, "fall", p.env, p.events))

    def step(self, st, p, depth):
        def calls(node):
            cs = [n for n in ast.walk(node) if isinstance(n, ast.Call)]
            cs.sort(key=lambda c: (c.lineno, c.col_offset))
            return [(c, len(p.lits)) for c in cs]

        if isinstance(st, ast.Raise):
            return [PyPath(p.lits, "raise", p.env, p.events)]
        if isinstance(st, ast.Return):
            q = PyPath(p.lits, "return", p.env, p.events + (calls(st.value) if st.value is not None else []))
            q.ret = ast.unparse(st.value) if st.value is not None else None
            return [q]
        if isinstance(st, ast.If):
            res = []
            ev = p.events + calls(st.test)
            known = self.known_value(st.test, p.env)
            for val, body in ((True, st.body), (False, st.orelse)):
                if known is not None and val != known:
                    continue  # `isinstance(x, T)` / `x is None` on a local that holds None: one branch only
                q = PyPath(p.lits + self.split(st.test, val, p.env), "fall", p.env, ev)
                res += self._seq(q, body, depth)
            return res
        if isinstance(st, (ast.For, ast.While)):
            return self._seq(p, st.body, depth) + [p]
        if isinstance(st, ast.Try):
            res = self._seq(p, st.body, depth)
            for h in st.handlers:
                res += self._seq(p, h.body, depth)
            return res
        if isinstance(st, ast.With):
            return self._seq(p, st.body, depth)
        if isinstance(st, ast.Assign) and len(st.targets) == 1 and isinstance(st.targets[0], (ast.Name, ast.Attribute)) \
                and isinstance(st.value, ast.Call) and isinstance(st.value.func, ast.Name) and st.value.func.id in self.funcs and depth < 3:
            # `x = helper(args)`: the helper's paths, x bound to what each returns
            fn = self.funcs[st.value.func.id]
            env = dict(p.env)
            for a, prm in zip(st.value.args, fn.args.args):
                env[prm.arg] = p._expand(a)
            res = []
            tname = ast.unparse(st.targets[0])
            for q in self._seq(PyPath(p.lits, "fall", env, p.events + [(st.value, len(p.lits))]), fn.body, depth + 1):
                if q.outcome in ("fall", "return"):
                    e2 = dict(q.env)
                    e2.pop(tname, None)
                    e2.pop("<none>" + tname, None)
                    r = getattr(q, "ret", None)
                    if r is not None and not re.search(r"(?<![\w.])%s(?![\w])" % re.escape(tname), r):
                        e2[tname] = PyPath([], "fall", q.env)._expand(ast.parse(r, mode="eval").body)
                    res.append(PyPath(q.lits, "fall", e2, q.events))
                else:
                    res.append(PyPath(q.lits, q.outcome, q.env, q.events))
            return res
        if isinstance(st, ast.Assign) and len(st.targets) == 1 and isinstance(st.targets[0], (ast.Name, ast.Attribute)):
            env = dict(p.env)
            env.pop("<none>" + ast.unparse(st.targets[0]), None)
            if isinstance(st.value, ast.Constant) and st.value.value is None:
                env["<none>" + ast.unparse(st.targets[0])] = "1"
            name = ast.unparse(st.targets[0])
            val = ast.unparse(st.value)
            pat = r"(?<![\w.])%s(?![\w])" % re.escape(name)
            if re.search(pat, val):
                env.pop(name, None)  # defined from itself: not a plain alias
            elif name in env and (any(re.search(pat, ast.unparse(t)) for t, _v in p.lits) or any(re.search(pat, ast.unparse(c)) for c, _n in p.events)):
                env.pop(name, None)  # reassigned after something on the path was said about the old value
            else:
                env[name] = val
            return [PyPath(p.lits, "fall", env, p.events + calls(st.value))]
        if isinstance(st, ast.AnnAssign) and st.value is not None and isinstance(st.target, (ast.Name, ast.Attribute)):
            env = dict(p.env)
            env[ast.unparse(st.target)] = ast.unparse(st.value)
            return [PyPath(p.lits, "fall", env, p.events + calls(st.value))]
        if isinstance(st, ast.Expr) and isinstance(st.value, ast.Call) and isinstance(st.value.func, ast.Name) and st.value.func.id in self.funcs and depth < 3:
            fn = self.funcs[st.value.func.id]
            # bind parameters to the argument texts
            env = dict(p.env)
            for a, prm in zip(st.value.args, fn.args.args):
                env[prm.arg] = ast.unparse(a)
            res = []
            for q in self._seq(PyPath(p.lits, "fall", env, p.events + [(st.value, len(p.lits))]), fn.body, depth + 1):
                res.append(PyPath(q.lits, "fall" if q.outcome in ("fall", "return") else q.outcome, q.env, q.events))
            return res
        if isinstance(st, ast.Expr):
            return [PyPath(p.lits, "fall", p.env, p.events + calls(st.value))]
        return [p]


# ----------------------------------------------------------------------------------
# PE1: end of input. Every buffer read of CodedInputStream is preceded by the
# `_last_read_count - _offset < n → _fill_buffer(n)` idiom; _fill_buffer raises when it
# cannot provide min_count bytes; every function that calls readinto can raise EOFError.
# ----------------------------------------------------------------------------------

def rule_py_eof(out):
    rid = "PE1"
    out.rule(rid, "CodedInputStream: buffer reads are preceded by the refill test with at least the bytes consumed, _fill_buffer raises EOFError when it cannot "
                  "provide min_count bytes, and every method that calls readinto on the underlying stream compares the count and can raise EOFError", 3)
    tree, rel = parse_py(out, "_binary.py")
    cls = classes(tree).get("CodedInputStream")
    if cls is None:
        out.undecided(rid, "CodedInputStream", rel, "class not found")
        return
    ms = methods(cls)
    for mname, fn in ms.items():
        src = ast.unparse(fn)
        if "readinto" in src:
            has_raise = any(isinstance(n, ast.Raise) and n.exc is not None and "EOFError" in ast.unparse(n.exc) for n in ast.walk(fn))
            cmp_count = False
            for n in ast.walk(fn):
                if isinstance(n, ast.Compare) and "readinto" in ast.unparse(n):
                    cmp_count = True
                if isinstance(n, ast.Assign) and "readinto" in ast.unparse(n.value) and mname == "_fill_buffer":
                    cmp_count = True
            out.check(has_raise and cmp_count, rid, "CodedInputStream.%s/short read raises" % mname, pos(rel, fn),
                      "the byte count returned by readinto is examined and a short read raises EOFError",
                      "this method reads from the underlying stream but cannot raise EOFError on a short read: a truncated payload is returned zero-padded")
    # (the refill test in front of every buffer read is rule PE2)
    fb = ms.get("_fill_buffer")
    if fb is not None:
        # every path that returns normally either was not asked for a minimum, or has established
        # _last_read_count >= min_count (whatever way the two tests are written or nested)
        pe = PathEnum(tree)
        ok_paths = [p for p in pe.paths(fb.body) if p.outcome != "raise"]
        ok = bool(ok_paths) and not pe.overflow
        # names that hold the same number as self._last_read_count (assigned into it)
        counts = {"_last_read_count"}
        for x in ast.walk(fb):
            if isinstance(x, ast.Assign) and len(x.targets) == 1 and ast.unparse(x.targets[0]) == "self._last_read_count" and isinstance(x.value, ast.Name):
                counts.add(x.value.id)

        def lit_ok(t, val, env):
            """the literal (t is val) implies: no minimum was asked for, or the count reaches it"""
            if isinstance(t, ast.UnaryOp) and isinstance(t.op, ast.Not):
                return lit_ok(t.operand, not val, env)
            if isinstance(t, ast.BoolOp):
                if isinstance(t.op, ast.And):
                    return any(lit_ok(v, True, env) for v in t.values) if val else all(lit_ok(v, False, env) for v in t.values)
                return all(lit_ok(v, True, env) for v in t.values) if val else any(lit_ok(v, False, env) for v in t.values)
            if isinstance(t, ast.Compare) and len(t.ops) == 1:
                q = PyPath([(t, val)], "fall", env)
                txt = ast.unparse(t)
                # min_count <= 0 known true / min_count > 0 known false
                l, r, op = ast.unparse(t.left).strip(), ast.unparse(t.comparators[0]).strip(), t.ops[0]
                if l == "min_count" and r == "0" and ((isinstance(op, (ast.Gt, ast.NotEq)) and not val) or (isinstance(op, (ast.LtE, ast.Eq)) and val)):
                    return True
                if r == "min_count" and l == "0" and ((isinstance(op, (ast.Lt, ast.NotEq)) and not val) or (isinstance(op, (ast.GtE, ast.Eq)) and val)):
                    return True
                return any(q.asserts_ge(cn, "min_count") for cn in counts) and "min_count" in txt
            return False

        for p in ok_paths:
            ok = ok and any(lit_ok(t, val, p.env) for t, val in p.lits)
        out.check(ok, rid, "CodedInputStream._fill_buffer/raises below min_count", pos(rel, fb), "raises EOFError when fewer than min_count bytes are available",
                  "_fill_buffer does not raise when it obtained fewer than min_count bytes")


def rule_py_mixins_have_no_public_methods(out):
    rid = "PM1"
    out.rule(rid, "the runtime mixins that come FIRST in the bases of every generated reader/writer class (BinaryProtocolWriter/Reader, NDJsonProtocolWriter/Reader) define "
                  "no public method: close(), __enter__/__exit__ and the step methods are those of the generated abstract base, which holds the state machine — a public "
                  "method on the mixin shadows it (method resolution order)", 4)
    for fname, names in (("_binary.py", ("BinaryProtocolWriter", "BinaryProtocolReader")), ("_ndjson.py", ("NDJsonProtocolWriter", "NDJsonProtocolReader"))):
        tree, rel = parse_py(out, fname)
        cl = classes(tree)
        for cname in names:
            cls = cl.get(cname)
            if cls is None:
                out.undecided(rid, "anchor/" + cname, rel, "class not found")
                continue
            public = sorted(m for m in methods(cls) if not m.startswith("_") or m in ("__enter__", "__exit__", "__del__"))
            out.check(not public, rid, cname + "/public methods", pos(rel, cls), "only the constructor and underscore hooks (_close, _end_stream, ...)",
                      "%s defines %s: generated classes list the mixin before their abstract base, so this method replaces the generated one — the protocol state check "
                      "(all steps written / read, streams ended) it performs is bypassed" % (cname, ", ".join(public)))


def rule_py_optional_identity(out):
    rid = "PN3"
    out.rule(rid, "_ndjson.py / _binary.py serializers and converters: a parameter annotated Optional[...] is tested for absence with `is None` / `is not None`, never by truthiness "
                  "(0, '', False, [] and {} are present values)", 2)
    n = 0
    for fname in ("_ndjson.py", "_binary.py"):
        tree, rel = parse_py(out, fname)
        for cname, cls in classes(tree).items():
            if not (cname.endswith("Serializer") or cname.endswith("Converter")):
                continue  # values on the wire pass through serializers and converters; configuration parameters are not values
            for mname, fn in methods(cls).items():
                opt = [a.arg for a in fn.args.args if a.annotation is not None and "Optional[" in ast.unparse(a.annotation)]
                for prm in opt:
                    tests = []
                    for x in ast.walk(fn):
                        if isinstance(x, (ast.If, ast.While, ast.IfExp)):
                            tests.append(x.test)
                        elif isinstance(x, ast.Assert):
                            tests.append(x.test)
                    bad = None
                    used = False

                    def truthy(t):
                        """sub-expressions of a condition that are evaluated for their truth value"""
                        if isinstance(t, ast.BoolOp):
                            return [y for v in t.values for y in truthy(v)]
                        if isinstance(t, ast.UnaryOp) and isinstance(t.op, ast.Not):
                            return truthy(t.operand)
                        return [t]
                    for t in tests:
                        for leaf in truthy(t):
                            if isinstance(leaf, ast.Name) and leaf.id == prm:
                                bad = leaf
                            if isinstance(leaf, ast.Compare) and isinstance(leaf.left, ast.Name) and leaf.left.id == prm:
                                used = True
                    if bad is None and not used:
                        continue
                    n += 1
                    out.check(bad is None, rid, "%s.%s/%s" % (cname, mname, prm), pos(rel, bad if bad is not None else fn), "absence is tested with `is None`",
                              "`%s` (Optional) is tested by truthiness: a present value that is falsy — 0, an empty string, False, an empty list or map — is treated as absent "
                              "(written as null / skipped)" % prm)
    if n == 0:
        out.undecided(rid, "anchor/Optional parameters", "-", "no test of an Optional[...] parameter found in the Python runtimes")


def rule_py_fraction_padded(out):
    rid = "PT1"
    out.rule(rid, "yardl_types.py: a sub-second remainder (second result of divmod(x, 10**k) / x % 10**k, k >= 3) that is rendered into text is zero-padded to k digits "
                  "(format spec 0k, rjust(k, '0') or zfill(k)) before anything is stripped: 5 ns after the second is '.000000005', not '.5'", 1)
    tree, rel = parse_py(out, "yardl_types.py")
    n = 0

    def pow10(node):
        try:
            v = ast.literal_eval(node)
        except Exception:
            return None
        if isinstance(v, int) and v >= 1000:
            k = len(str(v)) - 1
            return k if v == 10 ** k else None
        return None

    for fn in ast.walk(tree):
        if not isinstance(fn, (ast.FunctionDef, ast.AsyncFunctionDef)):
            continue
        frac = {}  # name -> digits
        for node in ast.walk(fn):
            if isinstance(node, ast.Assign) and len(node.targets) == 1:
                t, v = node.targets[0], node.value
                if isinstance(t, ast.Tuple) and len(t.elts) == 2 and isinstance(t.elts[1], ast.Name) and isinstance(v, ast.Call) \
                        and isinstance(v.func, ast.Name) and v.func.id == "divmod" and len(v.args) == 2 and pow10(v.args[1]):
                    frac[t.elts[1].id] = pow10(v.args[1])
                if isinstance(t, ast.Name) and isinstance(v, ast.BinOp) and isinstance(v.op, ast.Mod) and pow10(v.right):
                    frac[t.id] = pow10(v.right)
        if not frac:
            continue
        parents = {}
        for node in ast.walk(fn):
            for ch in ast.iter_child_nodes(node):
                parents[ch] = node
        for node in ast.walk(fn):
            if not (isinstance(node, ast.Name) and node.id in frac and isinstance(node.ctx, ast.Load)):
                continue
            k = frac[node.id]
            par = parents.get(node)
            rendered, padded = False, False
            if isinstance(par, ast.FormattedValue):
                rendered = True
                spec = ast.unparse(par.format_spec) if par.format_spec is not None else ""
                padded = ("0%d" % k) in spec
            elif isinstance(par, ast.Call) and isinstance(par.func, ast.Name) and par.func.id == "str" and par.args and par.args[0] is node:
                rendered = True
                # str(n).rjust(k, '0') / .zfill(k) directly on the result
                up = parents.get(par)
                if isinstance(up, ast.Attribute) and up.attr in ("rjust", "zfill"):
                    call = parents.get(up)
                    if isinstance(call, ast.Call) and call.args:
                        try:
                            w = ast.literal_eval(call.args[0])
                        except Exception:
                            w = None
                        fill_ok = up.attr == "zfill" or (len(call.args) > 1 and isinstance(call.args[1], ast.Constant) and call.args[1].value == "0")
                        padded = w == k and fill_ok
            if not rendered:
                continue
            n += 1
            out.check(padded, rid, "%s/%s rendered#%d" % (fn.name, node.id, n), pos(rel, node), "padded to %d digits" % k,
                      "`%s` is the remainder of a division by 10**%d and is written into the text without being padded to %d digits: a fraction with leading zeros "
                      "(5 ns, 50 ms) is printed as a larger one" % (node.id, k, k))
    if n == 0:
        out.undecided(rid, "anchor/fraction", rel, "no rendered sub-second remainder found")


_PY_VARINT_ALLOWED = {
    "Gt": {0x7F}, "GtE": {0x80}, "Lt": {0x80}, "LtE": {0x7F}, "Eq": {0}, "NotEq": {0},
    "BitOr": {0x80}, "BitAnd": {0x7F, 0x80, 1}, "RShift": {7, 1, 63}, "LShift": {1, 7}, "Add": {7}, "Sub": {1},
}


def rule_py_varint_constants(out):
    rid = "VC1"
    out.rule(rid, "_binary.py: every integer literal the varint / zig-zag routines of the coded streams combine with a value (a local or the result of another operation) is the one "
                  "the encoding defines — 7-bit groups (0x7F, shift 7), continuation bit 0x80, zig-zag by one bit with the sign taken from bit 63", 10)
    tree, rel = parse_py(out, "_binary.py")
    n = 0
    counts = {}

    def value_like(node):
        # an expression over locals only; buffer bookkeeping reads attributes of self / calls len()
        if not (isinstance(node, (ast.Name, ast.BinOp, ast.UnaryOp)) or (isinstance(node, ast.Call) and isinstance(node.func, ast.Name) and node.func.id == "int")):
            return False
        for x in ast.walk(node):
            if isinstance(x, ast.Attribute) or (isinstance(x, ast.Call) and not (isinstance(x.func, ast.Name) and x.func.id == "int")):
                return False
        return True

    def const(node):
        if isinstance(node, ast.Constant) and isinstance(node.value, int) and not isinstance(node.value, bool):
            return node.value
        return None

    for fn in ast.walk(tree):
        if not isinstance(fn, ast.FunctionDef) or not re.search(r"varint|zigzag", fn.name):
            continue
        for node in ast.walk(fn):
            triples = []
            if isinstance(node, ast.BinOp):
                triples.append((type(node.op).__name__, node.left, node.right))
            elif isinstance(node, ast.AugAssign) and isinstance(node.target, ast.Name):
                triples.append((type(node.op).__name__, node.target, node.value))
            elif isinstance(node, ast.Compare) and len(node.ops) == 1:
                triples.append((type(node.ops[0]).__name__, node.left, node.comparators[0]))
            for op, a, b in triples:
                if op not in _PY_VARINT_ALLOWED:
                    continue
                ca, cb = const(a), const(b)
                if (ca is None) == (cb is None):
                    continue
                other = b if ca is not None else a
                if not value_like(other):
                    continue  # buffer bookkeeping (`len(buf) - offset < 10`, `self._offset += 1`)
                v = ca if ca is not None else cb
                n += 1
                k = "%s/%s %s" % (fn.name, op, hex(v) if v > 9 else v)
                counts[k] = counts.get(k, 0) + 1
                key = k if counts[k] == 1 else "%s#%d" % (k, counts[k])
                out.check(v in _PY_VARINT_ALLOWED[op], rid, key, pos(rel, node), "a constant of the encoding",
                          "`%s %s` in %s: the varint encoding works in groups of 7 bits with 0x80 as the continuation bit (zig-zag: one bit, sign from bit 63) — with this "
                          "constant every value that needs more than one byte is written or read as a different number" % (op, hex(v) if v > 9 else v, fn.name))
    if n == 0:
        out.undecided(rid, "anchor/varint routines", rel, "no literal found in the varint routines")


def rule_py_length_prefix_measures_payload(out):
    rid = "PL1"
    out.rule(rid, "_binary.py: where a length prefix `write_unsigned_varint(len(X))` is followed by `write_bytes(Y)` in the same function, Y is X — the count written is the count "
                  "of the bytes written (the UTF-8 bytes of a string, not its characters)", 1)
    tree, rel = parse_py(out, "_binary.py")
    n = 0
    for fn in ast.walk(tree):
        if not isinstance(fn, ast.FunctionDef):
            continue
        measured = None  # (expression text, node)
        for node in ast.walk(fn):
            pass
        # statement order inside the function body (top level and nested blocks, in source order)
        calls = sorted((c for c in ast.walk(fn) if isinstance(c, ast.Call) and isinstance(c.func, ast.Attribute)), key=lambda c: (c.lineno, c.col_offset))
        # explaining locals assigned once in the function: `byte_count = len(encoded)`
        assigned = {}
        for a in ast.walk(fn):
            if isinstance(a, ast.Assign) and len(a.targets) == 1 and isinstance(a.targets[0], ast.Name):
                assigned.setdefault(a.targets[0].id, []).append(a.value)
            elif isinstance(a, ast.AnnAssign) and isinstance(a.target, ast.Name) and a.value is not None:
                assigned.setdefault(a.target.id, []).append(a.value)
            elif isinstance(a, ast.AugAssign) and isinstance(a.target, ast.Name):
                assigned.setdefault(a.target.id, []).append(None)
        for c in calls:
            arg0 = c.args[0] if c.args else None
            if isinstance(arg0, ast.Name) and len(assigned.get(arg0.id, [])) == 1 and assigned[arg0.id][0] is not None:
                arg0 = assigned[arg0.id][0]
            if c.func.attr == "write_unsigned_varint" and isinstance(arg0, ast.Call) and isinstance(arg0.func, ast.Name) and arg0.func.id == "len" and arg0.args:
                measured = (ast.unparse(arg0.args[0]), c)
            elif c.func.attr == "write_bytes" and c.args and measured is not None:
                n += 1
                payload = ast.unparse(c.args[0])
                out.check(payload == measured[0], rid, "%s/len(%s) then write_bytes#%d" % (fn.name, measured[0], n), pos(rel, c), "the payload is what was measured",
                          "the prefix is len(%s) but the bytes written are %s: for a string with non-ASCII characters the reader takes too few bytes and everything after it is decoded from the wrong "
                          "position" % (measured[0], payload))
                measured = None
    if n == 0:
        out.undecided(rid, "anchor/length prefix", rel, "no length-prefixed write_bytes found")


def rule_py_row_major(out):
    rid = "PF1"
    out.rule(rid, "_ndjson.py, _binary.py: arrays are flattened and rebuilt in C (row-major) order: no reshape / ravel / flatten / tobytes / array construction with an `order` other "
                  "than 'C', no asfortranarray", 1)
    n = 0
    for fname in ("_ndjson.py", "_binary.py"):
        tree, rel = parse_py(out, fname)
        for c in ast.walk(tree):
            if not isinstance(c, ast.Call):
                continue
            name = c.func.attr if isinstance(c.func, ast.Attribute) else c.func.id if isinstance(c.func, ast.Name) else ""
            if name == "asfortranarray":
                n += 1
                out.bad(rid, "%s/asfortranarray#%d" % (fname, n), pos(rel, c), "column-major copy in the serialization path: elements reach the wire in another order than the documented row-major one")
                continue
            if name not in ("reshape", "ravel", "flatten", "tobytes", "array", "asarray", "ascontiguousarray", "frombuffer", "empty", "zeros", "copy"):
                continue
            n += 1
            order = next((k.value for k in c.keywords if k.arg == "order"), None)
            ok = order is None or (isinstance(order, ast.Constant) and order.value == "C")
            out.check(ok, rid, "%s/%s#%d" % (fname, name, n), pos(rel, c), "C order",
                      "`%s(..., order=%s)`: for an array that is not C-contiguous the elements are taken in memory order, not in the row-major order the format documents (the shape written is "
                      "unchanged, so the reader rebuilds a transposed array)" % (name, ast.unparse(order) if order is not None else "?"))
    if n == 0:
        out.undecided(rid, "anchor/array calls", "tooling/internal/python/static_files", "no reshape/ravel/flatten call found")


def rule_py_flags_names_only_when_complete(out):
    rid = "PF2"
    out.rule(rid, "_ndjson.py FlagsConverter.to_json: the list of flag names is returned only where the bits not covered by a name are known to be zero (`remaining == 0`); "
                  "otherwise the integer is written — a value with undefined bits must not lose them", 1)
    tree, rel = parse_py(out, "_ndjson.py")
    cls = classes(tree).get("FlagsConverter")
    fn = methods(cls).get("to_json") if cls else None
    if fn is None:
        out.undecided(rid, "anchor/FlagsConverter.to_json", rel, "method not found")
        return
    names_list, remaining = None, None
    for n in ast.walk(fn):
        if isinstance(n, (ast.Assign, ast.AnnAssign)):
            tgt = n.targets[0] if isinstance(n, ast.Assign) else n.target
            if isinstance(tgt, ast.Name) and isinstance(n.value, ast.List) and not n.value.elts:
                names_list = tgt.id
        if isinstance(n, ast.AugAssign) and isinstance(n.op, ast.BitAnd) and isinstance(n.target, ast.Name):
            remaining = n.target.id
        if (isinstance(n, ast.Assign) and len(n.targets) == 1 and isinstance(n.targets[0], ast.Name) and isinstance(n.value, ast.BinOp) and isinstance(n.value.op, ast.BitAnd)
                and isinstance(n.value.left, ast.Name) and n.value.left.id == n.targets[0].id):
            remaining = n.targets[0].id  # `rem = rem & ~bits`
    if not names_list or not remaining:
        out.undecided(rid, "to_json/variables", pos(rel, fn), "the list of names / the remaining-bits variable was not recognised")
        return
    parents = {}
    for n in ast.walk(fn):
        for ch in ast.iter_child_nodes(n):
            parents[ch] = n

    def in_loop(t):
        cur = parents.get(t)
        while cur is not None and cur is not fn:
            if isinstance(cur, (ast.For, ast.While)):
                return True
            cur = parents.get(cur)
        return False

    def zero_known(t, v):
        """the literal (t, v) says that the remaining bits are zero, and is tested after the loop that clears them"""
        if in_loop(t):
            return False
        if isinstance(t, ast.Compare) and len(t.ops) == 1 and isinstance(t.ops[0], (ast.Eq, ast.NotEq)):
            a, b = t.left, t.comparators[0]
            for x, y in ((a, b), (b, a)):
                if isinstance(x, ast.Name) and x.id == remaining and isinstance(y, ast.Constant) and y.value == 0 and type(y.value) is int:
                    return v == isinstance(t.ops[0], ast.Eq)
        if isinstance(t, ast.Name) and t.id == remaining:
            return not v
        return False

    pe = PathEnum(tree)
    paths = [q for q in pe.paths(fn.body) if q.outcome == "return" and q.ret is not None and re.search(r"\b%s\b" % re.escape(names_list), q.ret)]
    if pe.overflow or not paths:
        out.undecided(rid, "to_json/returns", pos(rel, fn), "no return of the list of names found")
        return
    bad = None
    for q in paths:
        # a conditional expression `names if rem == 0 else value.value` carries its own test
        if not any(zero_known(t, v) for t, v in q.lits) and not re.search(r"\bif\s+(%s\s*==\s*0|not\s+%s)\s+else\b" % (re.escape(remaining), re.escape(remaining)), q.ret):
            bad = q
    out.check(bad is None, rid, "to_json/return names#1", pos(rel, fn), "returned only where `%s` is known to be 0 (tested after the loop)" % remaining,
              "the list of names can be returned while `%s` is not known to be zero: a flags value with a bit that no name covers is written as the names alone and the bit is lost" % remaining)


_PY_TRIVIAL = {
    "Int8Serializer": "true", "UInt8Serializer": "true", "Float32Serializer": "true", "Float64Serializer": "true", "Complex32Serializer": "true", "Complex64Serializer": "true",
    "EnumSerializer": "delegate", "FixedVectorSerializer": "delegate", "FixedNDArraySerializer": "delegate", "RecordSerializer": "all",
}


def rule_py_trivially_serializable_set(out):
    rid = "TS3"
    out.rule(rid, "_binary.py: the serializers whose arrays are copied to the wire as their memory image (is_trivially_serializable not False) are exactly the fixed-width "
                  "one-byte / floating point / complex primitives, enums, fixed vectors and fixed arrays of such, and records of such whose aligned dtype has no padding (item size == sum of the field sizes) — the set the C++ runtime uses (rule TS2, sizeof test); "
                  "optionals, unions, strings, varint integers, dates and dynamic containers are written element by element", 10)
    tree, rel = parse_py(out, "_binary.py")
    n = 0
    for cname, cls in classes(tree).items():
        m = methods(cls).get("is_trivially_serializable")
        if m is None:
            continue
        ret = [x for x in ast.walk(m) if isinstance(x, ast.Return) and x.value is not None]
        kind = "other"
        if len(ret) == 1:
            v = ret[0].value
            if isinstance(v, ast.Constant) and v.value is True:
                kind = "true"
            elif isinstance(v, ast.Constant) and v.value is False:
                kind = "false"
            elif isinstance(v, ast.Call) and isinstance(v.func, ast.Attribute) and v.func.attr == "is_trivially_serializable":
                base = ast.unparse(v.func.value)
                kind = "false" if base.startswith("super()") and cname != "TypeSerializer" else "delegate"
            elif isinstance(v, ast.Call) and isinstance(v.func, ast.Name) and v.func.id == "all":
                kind = "all-unpadded-missing"  # all fields trivial, but nothing about the layout
            elif isinstance(v, ast.BoolOp) and isinstance(v.op, ast.And):
                # `all(<fields trivially serializable>) and <item size == sum of field sizes>`: the record's aligned dtype has no padding
                has_all = any(isinstance(t, ast.Call) and isinstance(t.func, ast.Name) and t.func.id == "all" for t in v.values)
                has_layout = any(isinstance(t, ast.Compare) and len(t.ops) == 1 and isinstance(t.ops[0], ast.Eq) and any(isinstance(y, ast.Attribute) and y.attr == "itemsize" for y in ast.walk(t))
                                 and any(isinstance(y, ast.Call) and isinstance(y.func, ast.Name) and y.func.id == "sum" for y in ast.walk(t)) for t in v.values)
                if has_all and has_layout and len(v.values) == 2:
                    kind = "all"
                elif has_all:
                    kind = "all-unpadded-missing"
        n += 1
        want = _PY_TRIVIAL.get(cname, "false")
        out.check(kind == want, rid, "%s/is_trivially_serializable" % cname, pos(rel, m), "%s, as the wire format requires" % kind,
                  "%s answers `%s` where the format requires `%s`: arrays of this type would be copied as raw memory although the wire form of an element differs from its memory image "
                  "(or the other way round), so the bytes no longer match what C++ and MATLAB write" % (cname, kind, want))
    for cname in _PY_TRIVIAL:
        if cname not in classes(tree):
            out.undecided(rid, "%s/is_trivially_serializable" % cname, rel, "class not found")
    if n == 0:
        out.undecided(rid, "anchor/is_trivially_serializable", rel, "no definition found")


def rule_py_map_shape_by_schema(out):
    rid = "PM2"
    out.rule(rid, "_ndjson.py MapConverter: whether a map is a JSON object or an array of pairs is decided by the key converter (the schema), in to_json and in from_json alike — "
                  "never by the keys or the JSON value at hand (an empty int-keyed map is `[]`, not `{}`)", 2)
    tree, rel = parse_py(out, "_ndjson.py")
    cls = classes(tree).get("MapConverter")
    if cls is None:
        out.undecided(rid, "anchor/MapConverter", rel, "class not found")
        return
    # predicates of the class that ask the key converter: `def _has_string_keys(self): return isinstance(self._key_converter, ...)`
    schema_preds = set()
    for name, m in methods(cls).items():
        rets = [r for r in ast.walk(m) if isinstance(r, ast.Return) and r.value is not None]
        if len(rets) == 1 and len(m.body) <= 2 and any(isinstance(x, ast.Attribute) and x.attr == "_key_converter" for x in ast.walk(rets[0].value)):
            schema_preds.add(name)

    def asks_schema(test):
        for x in ast.walk(test):
            if isinstance(x, ast.Attribute) and x.attr == "_key_converter":
                return True
            if isinstance(x, ast.Call) and isinstance(x.func, ast.Attribute) and x.func.attr in schema_preds and isinstance(x.func.value, ast.Name) and x.func.value.id == "self":
                return True
        return False
    for mname in ("to_json", "from_json"):
        fn = methods(cls).get(mname)
        if fn is None:
            out.undecided(rid, "MapConverter.%s" % mname, rel, "method not found")
            continue
        # every path that returns a value has passed a test of the key converter: the form it returns was chosen by the schema
        pe = PathEnum(tree)
        paths = [q for q in pe.paths(fn.body) if q.outcome == "return"]
        if pe.overflow or len(paths) < 2:
            out.undecided(rid, "MapConverter.%s/object form" % mname, pos(rel, fn), "the branch that returns the JSON object form was not found (%d returning paths)" % len(paths))
            continue
        bad = None
        for q in paths:
            if not any(asks_schema(t) for t, _v in q.lits):
                bad = q
        out.check(bad is None, rid, "MapConverter.%s/object form" % mname, pos(rel, fn), "every returning path chose its form by self._key_converter",
                  "a path returns `%s` having tested only `%s`, not the key converter: an empty map (or one whose keys happen to be strings) takes the form of a string-keyed map, "
                  "which the other languages' readers reject for this key type" % ((bad.ret or "")[:60] if bad else "", " and ".join(ast.unparse(t)[:50] for t, _v in bad.lits)[:160] if bad else ""))


def rule_py_fixed_containers_have_no_length(out):
    rid = "PS2"
    out.rule(rid, "_binary.py FixedVectorSerializer / FixedNDArraySerializer: write and read go element by element through the element serializer (or as raw bytes): they "
                  "neither write nor read a length, directly or by delegating to a serializer of a variable-length container", 2)
    tree, rel = parse_py(out, "_binary.py")
    cl = classes(tree)
    variable = {"VectorSerializer", "DynamicNDArraySerializer", "NDArraySerializer", "MapSerializer", "StreamSerializer", "StringSerializer"}
    n = 0
    for cname in ("FixedVectorSerializer", "FixedNDArraySerializer"):
        cls = cl.get(cname)
        if cls is None:
            out.undecided(rid, cname, rel, "class not found")
            continue
        # attributes of self bound to a variable-length serializer in __init__
        bad_attrs = {}
        init = methods(cls).get("__init__")
        if init is not None:
            for a in ast.walk(init):
                if isinstance(a, ast.Assign) and len(a.targets) == 1 and isinstance(a.targets[0], ast.Attribute) and isinstance(a.value, ast.Call):
                    f = a.value.func
                    name = f.id if isinstance(f, ast.Name) else f.attr if isinstance(f, ast.Attribute) else ""
                    if name in variable:
                        bad_attrs[a.targets[0].attr] = name
        for mname in ("write", "read", "write_numpy", "read_numpy"):
            fn = methods(cls).get(mname)
            if fn is None:
                continue
            n += 1
            why = None
            for c in ast.walk(fn):
                if not isinstance(c, ast.Call) or not isinstance(c.func, ast.Attribute):
                    continue
                if c.func.attr in ("write_unsigned_varint", "read_unsigned_varint", "write_signed_varint", "read_signed_varint"):
                    why = "calls %s" % c.func.attr
                if isinstance(c.func.value, ast.Attribute) and c.func.value.attr in bad_attrs and c.func.attr in ("write", "read", "write_numpy", "read_numpy"):
                    why = "delegates to a %s" % bad_attrs[c.func.value.attr]
            out.check(why is None, rid, "%s.%s" % (cname, mname), pos(rel, fn), "no length on the wire",
                      "%s.%s %s: a fixed-length container gets a length prefix that the C++ and MATLAB readers (and files written before) do not have" % (cname, mname, why))
    if n == 0:
        out.undecided(rid, "anchor/fixed containers", rel, "no write/read method found")



def rule_py_dtype_constants_agree(out):
    rid = "PD1"
    out.rule(rid, "_binary.py: a serializer class that hands a module-level `*_DTYPE` constant to super().__init__ refers to no other `*_DTYPE` constant of a different numpy kind "
                  "(datetime64 vs timedelta64) in its methods: a cast through the wrong kind keeps the raw count instead of converting the unit", 2)
    tree, rel = parse_py(out, "_binary.py")
    consts = {}
    for st in tree.body:
        if isinstance(st, ast.Assign) and len(st.targets) == 1 and isinstance(st.targets[0], ast.Name) and st.targets[0].id.endswith("_DTYPE"):
            txt = ast.unparse(st.value)
            kind = "timedelta" if "timedelta64" in txt else "datetime" if "datetime64" in txt else "other"
            consts[st.targets[0].id] = kind
    n = 0
    for cname, cls in classes(tree).items():
        init = methods(cls).get("__init__")
        if init is None:
            continue
        own = None
        for c in ast.walk(init):
            if isinstance(c, ast.Call) and isinstance(c.func, ast.Attribute) and c.func.attr == "__init__" and c.args and isinstance(c.args[0], ast.Name) and c.args[0].id in consts:
                own = c.args[0].id
        if own is None or consts[own] == "other":
            continue
        n += 1
        bad = None
        for x in ast.walk(cls):
            if isinstance(x, ast.Name) and x.id in consts and consts[x.id] not in ("other", consts[own]):
                bad = x
        out.check(bad is None, rid, "%s/dtype constants" % cname, pos(rel, bad if bad is not None else cls), "only %s-kind constants (own: %s)" % (consts[own], own),
                  "%s is a %s serializer (super().__init__(%s)) but refers to %s, a %s dtype: casting a value through it reinterprets the count instead of converting it to "
                  "nanoseconds/days — a value in another unit is written with the wrong magnitude" % (cname, consts[own], own, bad.id if bad is not None else "", consts.get(bad.id, "") if bad is not None else ""))
    if n == 0:
        out.undecided(rid, "anchor/serializers with a *_DTYPE constant", rel, "none found")

def _outcomes(stmts):
    """how a statement list can end: subset of {'raise', 'return', 'fall', 'jump'}"""
    out = set()
    for st in stmts:
        if isinstance(st, ast.Raise):
            return out | {"raise"}
        if isinstance(st, ast.Return):
            return out | {"return"}
        if isinstance(st, (ast.Break, ast.Continue)):
            return out | {"jump"}
        if isinstance(st, ast.If):
            a, b = _outcomes(st.body), _outcomes(st.orelse) if st.orelse else {"fall"}
            out |= (a | b) - {"fall"}
            if "fall" not in a and "fall" not in b:
                return out
        elif isinstance(st, (ast.With, ast.AsyncWith)):
            a = _outcomes(st.body)
            out |= a - {"fall"}
            if "fall" not in a:
                return out
        elif isinstance(st, ast.Try):
            a = _outcomes(st.body)
            for h in st.handlers:
                a |= _outcomes(h.body)
            out |= a - {"fall"}
            if "fall" not in a:
                return out
        elif isinstance(st, (ast.For, ast.While, ast.AsyncFor)):
            out |= _outcomes(st.body) & {"raise", "return"}
    return out | {"fall"}


def _always_raises(stmts):
    """every path through the statement list ends in `raise`"""
    return _outcomes(stmts) == {"raise"}


def rule_py_no_swallowed_eof(out):
    rid = "PE3"
    out.rule(rid, "_binary.py, _ndjson.py: an `except` handler that can catch the error of a truncated or undecodable input (EOFError, json.JSONDecodeError, ValueError, "
                  "Exception, BaseException, bare) raises on every path through it: a cut-off stream is never turned into a normal result or into 'end of stream'", 1)
    nfn = 0
    for fname in ("_binary.py", "_ndjson.py"):
        tree, rel = parse_py(out, fname)
        for node in ast.walk(tree):
            if not isinstance(node, (ast.FunctionDef, ast.AsyncFunctionDef)):
                continue
            nfn += 1
            for h in [x for x in ast.walk(node) if isinstance(x, ast.ExceptHandler)]:
                names = []
                if h.type is None:
                    names = ["<bare>"]
                elif isinstance(h.type, ast.Tuple):
                    names = [ast.unparse(e) for e in h.type.elts]
                else:
                    names = [ast.unparse(h.type)]
                catches = any(n.split(".")[-1] in ("<bare>", "EOFError", "Exception", "BaseException", "JSONDecodeError", "ValueError") for n in names)
                if not catches:
                    continue
                out.check(_always_raises(h.body), rid, "%s/%s/except %s" % (fname, node.name, ",".join(names)), pos(rel, h), "the handler raises on every path",
                          "%s catches %s and can continue normally: reaching the end of the input (or a line cut off in the middle) inside it is reported as a normal result instead of an error" % (node.name, ",".join(names)))
    if nfn >= 60:
        out.ok(rid, "anchor/functions scanned", "tooling/internal/python/static_files", "%d functions of the Python binary and NDJSON runtimes scanned" % nfn)
    else:
        out.undecided(rid, "anchor/functions scanned", "tooling/internal/python/static_files", "only %d functions found" % nfn)


# ----------------------------------------------------------------------------------
# PS1: a stream block count of 0 is the terminator: block writers never emit it.
# PA1: values handed out by readers do not alias the reusable input buffer.
# ----------------------------------------------------------------------------------

def rule_py_stream_blocks(out):
    rid = "PS1"
    out.rule(rid, "StreamSerializer.write writes a block length only under a `len(value) > 0` test (0 is the end-of-stream marker); "
                  "BinaryProtocolWriter._end_stream writes exactly the 0 terminator", 2)
    tree, rel = parse_py(out, "_binary.py")
    cl = classes(tree)
    fn = methods(cl["StreamSerializer"]).get("write") if "StreamSerializer" in cl else None
    if fn is None:
        out.undecided(rid, "StreamSerializer.write", rel, "not found")
    else:
        # on every path, a block length `len(X)` is written only where len(X) > 0 is known
        pe = PathEnum(tree)
        sites = {}
        for p in pe.paths(fn.body):
            for call, nlits in p.events:
                arg0 = ""
                if isinstance(call.func, ast.Attribute) and call.func.attr == "write_unsigned_varint" and call.args:
                    arg0 = p._expand(call.args[0]).replace(" ", "")
                    while arg0.startswith("(") and arg0.endswith(")") and _py_balanced(arg0[1:-1]):
                        arg0 = arg0[1:-1]
                if arg0.startswith("len(") and arg0.endswith(")") and _py_balanced(arg0[4:-1]):
                    subject = arg0[4:-1]
                    ok = p.asserts_nonempty(subject, nlits)
                    k = (call.lineno, call.col_offset)
                    sites[k] = (sites.get(k, (True,))[0] and ok, call, subject)
        for k in sorted(sites):
            guarded, call, subject = sites[k]
            out.check(guarded, rid, "StreamSerializer.write/block length len(%s)" % subject, pos(rel, call), "block length is written only when it is > 0",
                      "a block length can be written for an empty batch: the 0 is the end-of-stream marker, so later items of the stream are lost")
        if not sites or pe.overflow:
            out.undecided(rid, "StreamSerializer.write/block length", pos(rel, fn), "no block-length write found")
    es = methods(cl["BinaryProtocolWriter"]).get("_end_stream") if "BinaryProtocolWriter" in cl else None
    if es is None:
        out.undecided(rid, "BinaryProtocolWriter._end_stream", rel, "not found")
    else:
        t = ast.unparse(es)
        out.check("write_byte_no_check(0)" in t and "ensure_capacity(1)" in t, rid, "BinaryProtocolWriter._end_stream", pos(rel, es),
                  "writes the single 0 byte terminator with capacity ensured", "_end_stream does not write the 0 terminator")


def rule_py_no_alias(out):
    rid = "PA1"
    out.rule(rid, "a memoryview obtained from CodedInputStream.read_view (a window into the reusable 64 KiB buffer) never reaches np.frombuffer or a return "
                  "value without being copied (bytes/bytearray/str/tobytes/copy)", 2)
    tree, rel = parse_py(out, "_binary.py")
    count = 0
    units = []  # every function that can hold a view: methods of the other classes and module-level functions
    for cname, cls in classes(tree).items():
        if cname == "CodedInputStream":
            continue
        for mname, fn in methods(cls).items():
            units.append((cname, mname, fn))
    for n in tree.body:
        if isinstance(n, (ast.FunctionDef, ast.AsyncFunctionDef)):
            units.append(("<module>", n.name, n))
    if True:
        for cname, mname, fn in units:
            views = set()
            for n in ast.walk(fn):
                if isinstance(n, ast.Assign) and isinstance(n.value, ast.Call) and isinstance(n.value.func, ast.Attribute) and n.value.func.attr == "read_view":
                    for t in n.targets:
                        if isinstance(t, ast.Name):
                            views.add(t.id)
            for n in ast.walk(fn):
                if isinstance(n, ast.Call) and isinstance(n.func, ast.Attribute) and n.func.attr == "read_view":
                    count += 1
            if not views and "read_view" not in ast.unparse(fn):
                continue
            for n in ast.walk(fn):
                bad = None
                if isinstance(n, ast.Call) and ast.unparse(n.func) in ("np.frombuffer", "numpy.frombuffer"):
                    a0 = n.args[0] if n.args else None
                    if a0 is not None and ((isinstance(a0, ast.Name) and a0.id in views) or "read_view" in ast.unparse(a0)):
                        bad = n
                if isinstance(n, ast.Return) and n.value is not None:
                    v = n.value
                    if (isinstance(v, ast.Name) and v.id in views) or (isinstance(v, ast.Call) and isinstance(v.func, ast.Attribute) and v.func.attr == "read_view"):
                        bad = n
                if bad is not None:
                    out.bad(rid, "%s.%s/view escapes" % (cname, mname), pos(rel, bad),
                            "a view into the reader's reusable buffer is wrapped by np.frombuffer / returned without a copy: the next refill silently overwrites the values already handed out")
            key = "%s.%s/read_view use" % (cname, mname)
            if not any(o["key"].startswith(rid + "/%s.%s/view escapes" % (cname, mname)) for o in out.obs):
                out.ok(rid, key, pos(rel, fn), "view is compared or decoded into a new object before leaving the method")
    out.stats["PA1_read_view_calls"] = count

# ----------------------------------------------------------------------------------
# PW1: primitive wire table of the Python runtime vs refs/wire.json (docs/reference/binary.md)
# ----------------------------------------------------------------------------------

STRUCT_CLASS = {"<?": "byte", "<b": "byte", "<B": "byte", "<f": "f32", "<d": "f64", "<ff": "f32f32", "<dd": "f64f64"}


def wire_class_of(cls, all_classes, depth=0):
    """derive how a *_serializer class writes a value"""
    ms = methods(cls)
    init = ms.get("__init__")
    if init is not None:
        for n in ast.walk(init):
            if isinstance(n, ast.Call) and isinstance(n.func, ast.Attribute) and n.func.attr == "__init__" and len(n.args) == 2 and isinstance(n.args[1], ast.Constant):
                fmt = n.args[1].value
                if fmt in STRUCT_CLASS:
                    return STRUCT_CLASS[fmt]
    w = ms.get("write")
    if w is not None:
        calls = [n.func.attr for n in ast.walk(w) if isinstance(n, ast.Call) and isinstance(n.func, ast.Attribute) and isinstance(n.func.value, ast.Name) and n.func.value.id == "stream"]
        if "write_signed_varint" in calls:
            return "svarint"
        if "write_unsigned_varint" in calls and "write_bytes" in calls:
            return "string"
        if "write_unsigned_varint" in calls and "write_bytes_directly" in calls:
            return "string"
        if "write_unsigned_varint" in calls:
            return "uvarint"
        # delegates to its own write_numpy
        if any(isinstance(n, ast.Call) and isinstance(n.func, ast.Attribute) and n.func.attr == "write_numpy" and isinstance(n.func.value, ast.Name) and n.func.value.id == "self" for n in ast.walk(w)):
            wn = ms.get("write_numpy")
            if wn is not None:
                c2 = [n.func.attr for n in ast.walk(wn) if isinstance(n, ast.Call) and isinstance(n.func, ast.Attribute) and isinstance(n.func.value, ast.Name) and n.func.value.id == "stream"]
                if c2 and all(x == "write_signed_varint" for x in c2):
                    return "svarint"
                if c2 and all(x == "write_unsigned_varint" for x in c2):
                    return "uvarint"
        # delegates to another serializer (date/time/datetime -> int64 signed varint)
        for n in ast.walk(w):
            if isinstance(n, ast.Call) and isinstance(n.func, ast.Attribute) and n.func.attr == "write" and isinstance(n.func.value, ast.Name) and n.func.value.id.endswith("_serializer"):
                return "via:" + n.func.value.id
    for b in cls.bases:
        base = b.value.id if isinstance(b, ast.Subscript) and isinstance(b.value, ast.Name) else b.id if isinstance(b, ast.Name) else None
        if base in all_classes and depth < 3 and base not in ("TypeSerializer", "StructSerializer"):
            return wire_class_of(all_classes[base], all_classes, depth + 1)
    return None


def rule_py_wire_table(out):
    rid = "PW1"
    out.rule(rid, "_binary.py: each of the 18 `<primitive>_serializer` objects writes its value with the wire class the binary format reference prescribes "
                  "(raw byte, zig-zag varint, unsigned varint, little-endian IEEE floats, length-prefixed UTF-8)", 18)
    ref = load_ref("wire.json")["primitives"]
    tree, rel = parse_py(out, "_binary.py")
    cl = classes(tree)
    assigns = module_assigns(tree)
    table = {}
    for prim, want in sorted(ref.items()):
        name = prim + "_serializer"
        v = assigns.get(name)
        if v is None or not (isinstance(v, ast.Call) and isinstance(v.func, ast.Name) and v.func.id in cl):
            out.bad(rid, "primitive/" + prim, rel, "no module-level `%s = <Serializer>()`" % name)
            continue
        got = wire_class_of(cl[v.func.id], cl)
        hops = 0
        while got and got.startswith("via:") and hops < 3:
            tgt = assigns.get(got[4:])
            got = wire_class_of(cl[tgt.func.id], cl) if tgt is not None and isinstance(tgt, ast.Call) and isinstance(tgt.func, ast.Name) and tgt.func.id in cl else None
            hops += 1
        table[prim] = got
        if got in ("svarint", "uvarint") and v.func.id in cl:
            # all four entry points of the class (python value / numpy value, write / read) use the same varint family
            fam = "signed" if got == "svarint" else "unsigned"
            for mname, m in sorted(methods(cl[v.func.id]).items()):
                if mname not in ("write", "write_numpy", "read", "read_numpy"):
                    continue
                used = sorted({n.func.attr for n in ast.walk(m) if isinstance(n, ast.Call) and isinstance(n.func, ast.Attribute)
                               and isinstance(n.func.value, ast.Name) and n.func.value.id == "stream" and n.func.attr.endswith("_varint")})
                if not used:
                    continue
                want_m = ("write_%s_varint" if mname.startswith("write") else "read_%s_varint") % fam
                out.check(used == [want_m], rid, "primitive/%s/%s" % (prim, mname), pos(rel, m), "uses stream.%s" % want_m,
                          "%s.%s uses %s but the class writes %s varints: values written through one entry point are misread through the other" % (v.func.id, mname, ", ".join(used), fam))
        if got is None:
            out.undecided(rid, "primitive/" + prim, pos(rel, cl[v.func.id]), "cannot determine how %s writes its value" % v.func.id)
        else:
            out.check(got == want, rid, "primitive/" + prim, pos(rel, cl[v.func.id]), "%s → %s" % (v.func.id, got),
                      "%s writes a %s but the binary format prescribes %s for %s: C++ and Python streams are no longer interchangeable" % (v.func.id, got, want, prim))
    out.tables["python_wire_table"] = table


# ----------------------------------------------------------------------------------
# L1 (Python half): link check of emitted runtime symbols against the shipped runtimes.
# ----------------------------------------------------------------------------------

def module_names(tree):
    names = set()
    for n in tree.body:
        if isinstance(n, (ast.ClassDef, ast.FunctionDef, ast.AsyncFunctionDef)):
            names.add(n.name)
        elif isinstance(n, ast.Assign):
            for t in n.targets:
                if isinstance(t, ast.Name):
                    names.add(t.id)
        elif isinstance(n, ast.AnnAssign) and isinstance(n.target, ast.Name):
            names.add(n.target.id)
        elif isinstance(n, (ast.Import, ast.ImportFrom)):
            for a in n.names:
                names.add((a.asname or a.name).split(".")[0])
    return names


LINK_EXCEPTIONS = {
    "python_ndjson/none_converter": "python/ndjson.typeConverter returns it only for a nil type, and every caller handles nil itself (union cases print `None`, "
                                    "optionals wrap the non-null case); no model reaches this template — the name is nevertheless missing from _ndjson.py",
}


def rule_link(out):
    rid = "L2"
    out.rule(rid, "every runtime symbol the generators can emit (collected from the Go templates, computed names expanded over the 18 primitives) is defined in the "
                  "shipped runtime: _binary.py/_ndjson.py module-level names, MATLAB +binary/<Name>.m files, C++ declarations in detail/binary/*.h", 130)
    syms = out.go.get("emitted_runtime_symbols")
    if not syms:
        out.undecided(rid, "emitted symbols", "-", "the Go analyser did not provide the table of emitted runtime symbols")
        return
    tb, relb = parse_py(out, "_binary.py")
    tn, reln = parse_py(out, "_ndjson.py")
    defined = {"python_binary": module_names(tb), "python_ndjson": module_names(tn)}
    # names re-exported by `from .yardl_types import *`
    ty, _ = parse_py(out, "yardl_types.py")
    defined["python_binary"] |= module_names(ty)
    defined["python_ndjson"] |= module_names(ty)
    mdir = os.path.join(out.repo, "tooling/internal/matlab/static_files/+binary")
    defined["matlab_binary"] = {f[:-2] for f in os.listdir(mdir) if f.endswith(".m")} if os.path.isdir(mdir) else set()
    import cxx_ast
    roots, rc, err = cxx_ast.dump(out.repo, "reader_writer.h")
    cxx = set()
    for r in roots:
        for n in cxx_ast.walk(r):
            if n.get("kind") in ("FunctionDecl", "FunctionTemplateDecl", "CXXRecordDecl", "ClassTemplateDecl", "VarDecl", "TypeAliasDecl", "TypeAliasTemplateDecl") and n.get("name"):
                cxx.add(n["name"])
    defined["cpp_binary"] = cxx
    where = {"python_binary": relb, "python_ndjson": reln, "matlab_binary": "tooling/internal/matlab/static_files/+binary", "cpp_binary": "tooling/internal/cpp/include/detail/binary"}
    for kind in sorted(syms):
        for entry in syms[kind]:
            name, _, at = entry.partition("@")
            exc = LINK_EXCEPTIONS.get("%s/%s" % (kind, name))
            if exc:
                out.ok(rid, "%s/%s" % (kind, name), at, "table exception: " + exc)
                continue
            ok = name in defined.get(kind, set())
            if "*" in name:
                # a name with a computed part the Go side could not enumerate: some runtime name must match
                import fnmatch
                ok = any(fnmatch.fnmatchcase(d, name) for d in defined.get(kind, set()))
            out.check(ok, rid, "%s/%s" % (kind, name), at, "defined in " + where[kind],
                      "the generator emits `%s` (%s) but the shipped runtime (%s) defines no such name: the generated code fails to import/compile/run for models that reach this template" % (name, kind, where[kind]))


# ----------------------------------------------------------------------------------
# dispatch
# ----------------------------------------------------------------------------------


# ----------------------------------------------------------------------------------
# PN2: an untagged union is dispatched on the exact JSON type. The generator hands each case the list
# of Python types its JSON kinds parse into ([bool], [int, float], [str], [list], [dict]); because
# `bool` is a subclass of `int`, an isinstance() dispatch sends true/false to the number case.
# ----------------------------------------------------------------------------------

def rule_union_dispatch(out):
    rid = "PN2"
    out.rule(rid, "_ndjson.py UnionConverter: the case of an untagged union is selected by the exact type of the JSON value (`type(json_object)` as the key / compared "
                  "by identity), never by isinstance() against the candidate types (isinstance(True, int) holds, so [int, bool] unions would lose their case)", 2)
    tree, rel = parse_py(out, "_ndjson.py")
    cls = classes(tree).get("UnionConverter")
    if cls is None:
        out.undecided(rid, "anchor/UnionConverter", rel, "class not found")
        return
    ms = methods(cls)
    for mname in ("from_json", "from_json_to_numpy"):
        fn = ms.get(mname)
        if fn is None:
            out.undecided(rid, "UnionConverter.%s" % mname, rel, "method not found")
            continue
        param = fn.args.args[1].arg if len(fn.args.args) > 1 else None
        # helper methods of the class that receive the value are looked into as well
        todo, seen, uses_type, bad = [fn], set(), False, None
        delegated = False
        while todo:
            f = todo.pop()
            if f.name in seen:
                continue
            seen.add(f.name)
            prm = f.args.args[1].arg if len(f.args.args) > 1 else None
            for n in ast.walk(f):
                if isinstance(n, ast.Call) and isinstance(n.func, ast.Name) and n.func.id == "type" and n.args and isinstance(n.args[0], ast.Name) and n.args[0].id == prm:
                    uses_type = True
                if isinstance(n, ast.Call) and isinstance(n.func, ast.Name) and n.func.id == "isinstance" and len(n.args) == 2 and \
                        isinstance(n.args[0], ast.Name) and n.args[0].id == prm:
                    second = n.args[1]
                    # a fixed structural assertion (the tagged form is a dict) is not a dispatch
                    if not (isinstance(second, ast.Name) and second.id in ("dict", "Mapping")):
                        bad = n
                if isinstance(n, ast.Call) and isinstance(n.func, ast.Attribute) and isinstance(n.func.value, ast.Name) and n.func.value.id == "self" and \
                        n.func.attr in ms and any(isinstance(a, ast.Name) and a.id == prm for a in n.args):
                    todo.append(ms[n.func.attr])
                    if n.func.attr in ("from_json",) and f is fn and mname != "from_json":
                        delegated = True
        key = "UnionConverter.%s/untagged dispatch" % mname
        if bad is not None:
            out.bad(rid, key, pos(rel, bad), "the case is chosen with isinstance(%s, …) against candidate types: a JSON boolean also satisfies the number case (bool is a subclass of int), so the active case of an [int, bool] union is lost on reading" % param)
        elif uses_type or delegated:
            out.ok(rid, key, pos(rel, fn), "dispatch on type(%s)" % param)
        else:
            out.undecided(rid, key, pos(rel, fn), "cannot find how the untagged case is selected")


# ----------------------------------------------------------------------------------
# PH2: the schema travels as text whose key order matters (the C++ NDJSON reader compares ordered JSON,
# generated readers compare the parsed header with their literal): the Python NDJSON writer must serialise
# objects in insertion order and parse the schema literal without a reordering hook.
# ----------------------------------------------------------------------------------

def rule_ndjson_key_order(out):
    rid = "PH2"
    out.rule(rid, "_ndjson.py: every json.dump/json.dumps of the writer keeps insertion order (no sort_keys, no custom encoder hook), json.loads of the schema literal has no "
                  "object hook, and the header object is {'yardl': {'version', 'schema'}} with the parsed schema as is", 3)
    tree, rel = parse_py(out, "_ndjson.py")
    cls = classes(tree).get("NDJsonProtocolWriter")
    if cls is None:
        out.undecided(rid, "anchor/NDJsonProtocolWriter", rel, "class not found")
        return
    allowed = {"ensure_ascii", "separators", "check_circular", "allow_nan", "indent"}
    n = 0
    mod_dicts, mod_counts = {}, {}
    for st in tree.body:
        tgt, val = None, None
        if isinstance(st, ast.Assign) and len(st.targets) == 1 and isinstance(st.targets[0], ast.Name):
            tgt, val = st.targets[0].id, st.value
        elif isinstance(st, ast.AnnAssign) and isinstance(st.target, ast.Name) and st.value is not None:
            tgt, val = st.target.id, st.value
        if tgt is not None:
            mod_counts[tgt] = mod_counts.get(tgt, 0) + 1
            if isinstance(val, ast.Dict):
                mod_dicts[tgt] = val
    mod_dicts = {k: v for k, v in mod_dicts.items() if mod_counts.get(k) == 1 and not re.search(r"(?<![\w.])%s\s*(\[|\.(update|pop|clear|setdefault))" % re.escape(k), ast.unparse(tree))}
    for mname, fn in methods(cls).items():
        for node in ast.walk(fn):
            if isinstance(node, ast.Call) and ast.unparse(node.func) in ("json.dump", "json.dumps"):
                n += 1
                kws = []
                for k in node.keywords:
                    if k.arg is None and isinstance(k.value, ast.Name) and k.value.id in mod_dicts:
                        # **OPTIONS where OPTIONS is a module-level dict literal bound once
                        for dk, dv in zip(mod_dicts[k.value.id].keys, mod_dicts[k.value.id].values):
                            kws.append(ast.keyword(arg=dk.value if isinstance(dk, ast.Constant) and isinstance(dk.value, str) else None, value=dv))
                    else:
                        kws.append(k)
                extra = sorted(k.arg or "**" for k in kws if (k.arg not in allowed) and not (k.arg == "sort_keys" and isinstance(k.value, ast.Constant) and k.value.value is False))
                out.check(not extra, rid, "NDJsonProtocolWriter.%s/%s options" % (mname, ast.unparse(node.func)), pos(rel, node), "order-preserving options only",
                          "serialises with %s: the header's schema text is no longer the schema literal's key order, which the C++ reader (ordered JSON comparison) and the format description rely on" % ", ".join(extra))
            if isinstance(node, ast.Call) and ast.unparse(node.func) == "json.loads":
                n += 1
                hooks = [k.arg for k in node.keywords if k.arg in ("object_hook", "object_pairs_hook", "cls")]
                out.check(not hooks, rid, "NDJsonProtocolWriter.%s/json.loads(schema)" % mname, pos(rel, node), "plain json.loads", "the schema literal is parsed with %s" % hooks)
    init = methods(cls).get("__init__")
    hdr_ok = False
    if init is not None:
        # locals of the constructor bound once to a dict display
        ldicts, lcounts = {}, {}
        for node in ast.walk(init):
            if isinstance(node, ast.Assign) and len(node.targets) == 1 and isinstance(node.targets[0], ast.Name):
                lcounts[node.targets[0].id] = lcounts.get(node.targets[0].id, 0) + 1
                if isinstance(node.value, ast.Dict):
                    ldicts[node.targets[0].id] = node.value
        for node in ast.walk(init):
            if isinstance(node, ast.Dict) and len(node.keys) == 1 and isinstance(node.keys[0], ast.Constant) and node.keys[0].value == "yardl":
                inner = node.values[0]
                if isinstance(inner, ast.Name) and lcounts.get(inner.id) == 1 and inner.id in ldicts \
                        and not re.search(r"(?<![\w.])%s\s*(\[|\.(update|pop|clear|setdefault))" % re.escape(inner.id), ast.unparse(init)):
                    inner = ldicts[inner.id]
                if not isinstance(inner, ast.Dict):
                    continue
                ks = [k.value for k in inner.keys if isinstance(k, ast.Constant)]
                vals = {k.value: ast.unparse(v) for k, v in zip(inner.keys, inner.values) if isinstance(k, ast.Constant)}
                hdr_ok = ks == ["version", "schema"] and vals.get("schema", "").replace(" ", "") == "json.loads(schema)"
    out.check(hdr_ok, rid, "NDJsonProtocolWriter.__init__/header object", pos(rel, init) if init is not None else rel, "{'yardl': {'version': …, 'schema': json.loads(schema)}}",
              "the header line is not {'yardl': {'version', 'schema': json.loads(schema)}}")
    if n == 0:
        out.undecided(rid, "NDJsonProtocolWriter/json calls", rel, "no json.dump / json.loads found in the writer")


# ----------------------------------------------------------------------------------
# PE2: every element read of the input buffer happens behind a refill test of its own. In each method of
# CodedInputStream, an indexed read `buf[off]` (1 byte) or `fmt.unpack_from(buf, off)` (fmt.size bytes) — buf being
# self._buffer / self._view or a local alias — is preceded, in its own block or an enclosing one but NOT outside the
# innermost loop around it, by `if available < n: self._fill_buffer(n)` (written inline, through a helper method with
# that body, or as an unconditional _fill_buffer(n)). A test hoisted out of the decoding loop covers only the first
# byte: the continuation bytes of a varint cut by the end of the data are read from stale buffer contents.
# ----------------------------------------------------------------------------------

def rule_py_refill_scope(out):
    rid = "PE2"
    out.rule(rid, "CodedInputStream: each indexed buffer read / unpack_from has a refill test for at least the bytes it consumes before it in the same loop iteration "
                  "(inline `available < n → _fill_buffer(n)`, a helper with that body, or an unconditional _fill_buffer(n))", 2)
    tree, rel = parse_py(out, "_binary.py")
    cls = classes(tree).get("CodedInputStream")
    if cls is None:
        out.undecided(rid, "CodedInputStream", rel, "class not found")
        return
    ms = methods(cls)

    def nospace(n):
        return ast.unparse(n).replace(" ", "")

    # helpers: `def h(self): return self._last_read_count - self._offset`  /  `def g(self, n): if avail < n: self._fill_buffer(n)`
    avail_helpers = set()
    for name, fn in ms.items():
        body = [b for b in fn.body if not (isinstance(b, ast.Expr) and isinstance(b.value, ast.Constant))]
        if len(body) == 1 and isinstance(body[0], ast.Return) and body[0].value is not None and nospace(body[0].value) == "self._last_read_count-self._offset":
            avail_helpers.add(name)

    def is_avail(e, offs):
        t = nospace(e)
        if t == "self._last_read_count-self._offset":
            return True
        if isinstance(e, ast.BinOp) and isinstance(e.op, ast.Sub) and nospace(e.left) == "self._last_read_count" and isinstance(e.right, ast.Name) and e.right.id in offs:
            return True
        if isinstance(e, ast.Call) and isinstance(e.func, ast.Attribute) and isinstance(e.func.value, ast.Name) and e.func.value.id == "self" and e.func.attr in avail_helpers and not e.args:
            return True
        return False

    def guard_amount(st, offs, depth=0):
        """the byte count a statement guarantees to be buffered afterwards (source text), or None"""
        if isinstance(st, ast.If) and isinstance(st.test, ast.Compare) and len(st.test.ops) == 1:
            l, op, r = st.test.left, st.test.ops[0], st.test.comparators[0]
            need = None
            if isinstance(op, ast.Lt) and is_avail(l, offs):
                need = r
            elif isinstance(op, ast.Gt) and is_avail(r, offs):
                need = l
            if need is not None:
                for b in ast.walk(ast.Module(body=st.body, type_ignores=[])):
                    if isinstance(b, ast.Call) and isinstance(b.func, ast.Attribute) and b.func.attr == "_fill_buffer" and b.args and nospace(b.args[0]) == nospace(need):
                        return nospace(need)
        if isinstance(st, ast.Expr) and isinstance(st.value, ast.Call) and isinstance(st.value.func, ast.Attribute) and isinstance(st.value.func.value, ast.Name) and st.value.func.value.id == "self":
            call = st.value
            if call.func.attr == "_fill_buffer" and call.args:
                return nospace(call.args[0])
            h = ms.get(call.func.attr)
            if h is not None and depth < 2 and len(h.args.args) == 2 and len(call.args) == 1:
                prm = h.args.args[1].arg
                for hb in h.body:
                    g = guard_amount(hb, set(), depth + 1)
                    if g == prm:
                        return nospace(call.args[0])
        return None

    n_reads = 0
    for mname, fn in ms.items():
        if mname in ("__init__", "close", "_fill_buffer"):
            continue
        parents = {}
        for x in ast.walk(fn):
            for ch in ast.iter_child_nodes(x):
                parents[ch] = x
        bufs, offs = {"self._buffer", "self._view"}, set()
        for x in ast.walk(fn):
            if isinstance(x, ast.Assign) and len(x.targets) == 1 and isinstance(x.targets[0], ast.Name):
                v = nospace(x.value)
                if v in ("self._buffer", "self._view", "memoryview(self._buffer)"):
                    bufs.add(x.targets[0].id)
                if v == "self._offset":
                    offs.add(x.targets[0].id)
        reads = []  # (node, needed text)
        for x in ast.walk(fn):
            if isinstance(x, ast.Subscript) and isinstance(x.ctx, ast.Load) and nospace(x.value) in bufs and not isinstance(x.slice, ast.Slice):
                reads.append((x, "1"))
            if isinstance(x, ast.Call) and isinstance(x.func, ast.Attribute) and x.func.attr == "unpack_from" and x.args and nospace(x.args[0]) in bufs:
                reads.append((x, nospace(x.func.value) + ".size"))
        for node, need in reads:
            n_reads += 1
            # walk up to the innermost loop (or the function), looking at earlier siblings
            ok = False
            child = node
            cur = parents.get(node)
            while cur is not None and not ok:
                for field in ("body", "orelse", "finalbody"):
                    blk = getattr(cur, field, None)
                    if isinstance(blk, list) and child in blk:
                        for sib in blk[:blk.index(child)]:
                            g = guard_amount(sib, offs)
                            if g is not None and (g == need or (g.isdigit() and need.isdigit() and int(g) >= int(need))):
                                ok = True
                if isinstance(cur, (ast.While, ast.For)) or cur is fn:
                    break
                child, cur = cur, parents.get(cur)
            out.check(ok, rid, "CodedInputStream.%s/%s" % (mname, nospace(node)[:40]), pos(rel, node), "refill test for %s byte(s) precedes the read in the same iteration" % need,
                      "no refill test for %s byte(s) stands before this buffer read inside its own loop iteration (a test in front of the loop covers the first byte only): at the end of a "
                      "truncated stream the read takes stale bytes from the buffer instead of raising EOFError" % need)
    if n_reads == 0:
        out.undecided(rid, "CodedInputStream/buffer reads", rel, "no indexed buffer read found")

RULES = {
    "C14": [rule_py_trivially_serializable_set, rule_py_fixed_containers_have_no_length, rule_py_row_major, rule_py_stream_blocks],
    "C07": [rule_py_mixins_have_no_public_methods],
    "C02": [rule_json_kinds, rule_ndjson_sentinel, rule_union_dispatch, rule_py_optional_identity, rule_py_fraction_padded, rule_py_row_major, rule_py_flags_names_only_when_complete, rule_py_map_shape_by_schema],
    "C03": [rule_py_dtype_constants_agree, rule_link, rule_py_wire_table, rule_py_capacity, rule_py_no_alias, rule_py_stream_blocks, rule_py_optional_identity, rule_ndjson_sentinel, rule_py_fraction_padded, rule_py_varint_constants, rule_py_length_prefix_measures_payload, rule_py_row_major, rule_py_flags_names_only_when_complete, rule_py_trivially_serializable_set],
    "C08": [rule_link],
    "C15": [rule_py_headers, rule_ndjson_key_order],
    "C16": [rule_py_eof, rule_py_refill_scope, rule_py_no_swallowed_eof],
    "C17": [rule_py_stream_blocks, rule_py_no_alias, rule_py_capacity],
    "C04": [rule_py_headers, rule_py_write_order, rule_ndjson_key_order],
    "C01": [rule_py_row_major, rule_py_dtype_constants_agree, rule_py_wire_table, rule_py_stream_blocks, rule_py_write_order, rule_py_no_alias, rule_py_varint_constants, rule_py_length_prefix_measures_payload, rule_py_trivially_serializable_set, rule_py_fixed_containers_have_no_length],
}


def _r9(name):
    def f(out):
        import pyrules9
        import sys as _sys
        return getattr(pyrules9, name)(out, _sys.modules[__name__])
    f.__name__ = name
    return f


for _p, _names in {
    "C01": ["rule_py_extents_agree", "rule_py_time_counts_in_own_unit", "rule_py_struct_formats_little_endian", "rule_py_count_prefix_is_the_loop_length"],
    "C03": ["rule_py_extents_agree", "rule_py_time_counts_in_own_unit", "rule_py_struct_formats_little_endian", "rule_py_flag_named_only_when_contained", "rule_py_count_prefix_is_the_loop_length", "rule_py_arrays_written_flat"],
    "C14": ["rule_py_struct_formats_little_endian", "rule_py_time_counts_in_own_unit", "rule_py_count_prefix_is_the_loop_length", "rule_py_arrays_written_flat"],
    "C02": ["rule_py_flag_named_only_when_contained", "rule_py_arrays_written_flat"],
    "C16": ["rule_py_extents_agree"],
    "C17": ["rule_py_extents_agree"],
}.items():
    RULES.setdefault(_p, []).extend(_r9(n) for n in _names)


def _r11(name):
    def f(out):
        import pyrules11
        import sys as _sys
        return getattr(pyrules11, name)(out, _sys.modules[__name__])
    f.__name__ = name
    return f


for _p, _names in {
    "C02": ["rule_py_lines_split_at_newline_only", "rule_py_ndjson_writer_header"],
    "C03": ["rule_py_lines_split_at_newline_only", "rule_py_decodes_are_strict", "rule_py_serializers_keep_no_per_value_state"],
    "C15": ["rule_py_decodes_are_strict", "rule_py_ndjson_writer_header"],
    "C04": ["rule_py_ndjson_writer_header"],
    "C01": ["rule_py_decodes_are_strict", "rule_py_serializers_keep_no_per_value_state"],
    "C16": ["rule_py_decodes_are_strict", "rule_py_available_bytes_come_from_the_stream"],
    "C17": ["rule_py_available_bytes_come_from_the_stream", "rule_py_serializers_keep_no_per_value_state"],
    "C14": ["rule_py_serializers_keep_no_per_value_state"],
}.items():
    RULES.setdefault(_p, []).extend(_r11(n) for n in _names)


def run(prop, tier, repo, go_tables=None):
    out = Out(repo)
    out.go = go_tables or {}
    for r in RULES.get(prop, []):
        r(out)
    try:
        import cxx_ast
        for r in cxx_ast.RULES.get(prop, []):
            r(out, tier)
    except ImportError:
        pass
    return out.finish()


if __name__ == "__main__":
    import sys
    res = run(sys.argv[1], "quick", sys.argv[2] if len(sys.argv) > 2 and not sys.argv[2].startswith("-") else "/repo")
    for o in res["obligations"]:
        if o["status"] != "ok" or "-v" in sys.argv:
            print(o["status"], o["key"], o["pos"], o["fact"][:200])
    print({r["id"]: r["instances"] for r in res["rules"]})
    print(json.dumps(res["tables"], indent=0)[:1500])
