"""Rules written after the eleventh round of seeded changes (Python runtime, `ast` only).

  PL3  the NDJSON reader separates documents at "\\n" only: lines come from readline() (or split("\\n")), never from
       str.splitlines(), which also breaks at U+0085, U+2028, U+2029, \\v, \\f, \\x1c-\\x1e — all legal inside a JSON string
       (the writer dumps with ensure_ascii=False)
  PU1  bytes are decoded strictly: no decode call of the runtime names an error handler other than "strict" (a lenient
       handler drops or replaces bytes, so different byte strings — e.g. a corrupted schema in the header — compare equal)
  PH3  the NDJSON writer puts the header line on the stream on every path of its constructor (a protocol whose steps are
       all empty streams still produces a file the reader accepts)
"""
import ast


def rule_py_lines_split_at_newline_only(out, pyr):
    rid = "PL3"
    out.rule(rid, "_ndjson.py: documents are separated at '\\n' only — the reader obtains lines with readline() / split('\\n'), never with str.splitlines() "
                  "(which also breaks at U+0085, U+2028, U+2029 and other characters that are legal inside a JSON string)", 1)
    tree, rel = pyr.parse_py(out, "_ndjson.py")
    n = 0
    for c in ast.walk(tree):
        if not (isinstance(c, ast.Call) and isinstance(c.func, ast.Attribute)):
            continue
        a = c.func.attr
        if a in ("readline", "readlines", "splitlines") or (a == "split" and c.args and isinstance(c.args[0], ast.Constant) and c.args[0].value in ("\n", b"\n")):
            n += 1
            # readlines() on a text stream is newline-based (universal newlines only), fine; splitlines is not
            out.check(a != "splitlines", rid, "_ndjson.py/%s#%d" % (a, n), pyr.pos(rel, c), "line boundaries are '\\n' (the stream's own line reading)",
                      "`%s`: str.splitlines() also breaks at U+0085, U+2028, U+2029, \\x0b, \\x0c, \\x1c-\\x1e; the writer emits these characters verbatim inside strings and map keys "
                      "(ensure_ascii=False), so one JSON document is cut in two and the reader fails or mis-assigns steps" % ast.unparse(c)[:80])
    # iteration over the stream object (`for line in self._stream`) is newline-based as well and counts as an instance
    for f in ast.walk(tree):
        if isinstance(f, ast.For) and "_stream" in ast.unparse(f.iter) and not isinstance(f.iter, ast.Call):
            n += 1
            out.ok(rid, "_ndjson.py/iteration#%d" % n, pyr.pos(rel, f), "iterating a text stream yields '\\n'-terminated lines")
    if n == 0:
        out.undecided(rid, "anchor/line reads", rel, "no line-reading call found in _ndjson.py")


def rule_py_decodes_are_strict(out, pyr):
    rid = "PU1"
    out.rule(rid, "_binary.py, _ndjson.py: every conversion of bytes to str (`str(b, enc[, errors])`, `.decode(...)`, `codecs.decode`) uses strict error handling — "
                  "no error handler such as 'ignore', 'replace', 'surrogateescape' is named", 1)
    n = 0
    for fname in ("_binary.py", "_ndjson.py"):
        tree, rel = pyr.parse_py(out, fname)
        for c in ast.walk(tree):
            if not isinstance(c, ast.Call):
                continue
            handler = None
            is_decode = False
            if isinstance(c.func, ast.Name) and c.func.id == "str" and len(c.args) >= 2:
                is_decode = True
                if len(c.args) >= 3:
                    handler = c.args[2]
            elif isinstance(c.func, ast.Attribute) and c.func.attr == "decode":
                is_decode = True
                if len(c.args) >= 2:
                    handler = c.args[1]
            elif isinstance(c.func, ast.Name) and c.func.id == "open":
                is_decode = any(k.arg == "encoding" for k in c.keywords)
            if not is_decode:
                continue
            for k in c.keywords:
                if k.arg == "errors":
                    handler = k.value
            n += 1
            strict = handler is None or (isinstance(handler, ast.Constant) and handler.value in ("strict", None))
            out.check(strict, rid, "%s/%s#%d" % (fname, ast.unparse(c.func), n), pyr.pos(rel, c), "strict decoding: bytes that are not valid text raise",
                      "`%s` names the error handler %s: undecodable bytes are dropped or replaced, so different byte sequences give the same text — a header whose schema "
                      "contains garbage compares equal to the expected schema, and a corrupted string is delivered as a value instead of an error" % (ast.unparse(c)[:90], ast.unparse(handler) if handler is not None else ""))
    if n == 0:
        out.undecided(rid, "anchor/decodes", "_binary.py", "no bytes-to-str conversion found")


def rule_py_ndjson_writer_header(out, pyr):
    rid = "PH3"
    out.rule(rid, "_ndjson.py NDJsonProtocolWriter.__init__: on every path that completes, the header document (the one that carries the schema) is written to the stream — "
                  "not deferred to the first value", 1)
    tree, rel = pyr.parse_py(out, "_ndjson.py")
    cl = pyr.classes(tree)
    w = pyr.methods(cl["NDJsonProtocolWriter"]).get("__init__") if "NDJsonProtocolWriter" in cl else None
    if w is None:
        out.undecided(rid, "NDJsonProtocolWriter.__init__", rel, "not found")
        return
    writers = {"_write_json_line"}
    # methods of the class that put something on the stream on every path (json.dump(..., self._stream) / self._stream.write)
    for mname, fn in pyr.methods(cl["NDJsonProtocolWriter"]).items():
        for c in ast.walk(fn):
            if isinstance(c, ast.Call) and ("_stream" in " ".join(ast.unparse(a) for a in c.args) or ast.unparse(c.func).endswith("_stream.write")):
                if mname != "__init__":
                    writers.add(mname)
    pe = pyr.PathEnum(tree)
    paths = [p for p in pe.paths(w.body) if p.outcome != "raise"]
    if pe.overflow or not paths:
        out.undecided(rid, "NDJsonProtocolWriter.__init__/paths", pyr.pos(rel, w), "cannot enumerate the paths of the constructor")
        return
    bad = 0
    for p in paths:
        found = False
        for call, _n in p.events:
            fn_t = ast.unparse(call.func)
            args_t = " ".join(p._expand(a) for a in call.args)
            direct = fn_t in ("json.dump", "json.dumps") or fn_t.endswith("_stream.write")
            if (fn_t.split(".")[-1] in writers or direct) and "schema" in args_t:
                found = True
        if not found:
            bad += 1
    out.check(bad == 0, rid, "NDJsonProtocolWriter.__init__/header written", pyr.pos(rel, w), "%d completing paths, each writes the header document" % len(paths),
              "%d of %d completing paths of the constructor do not write the header document: it is written later, if at all — a protocol whose steps are all empty streams "
              "produces an empty file, which the reader rejects" % (bad, len(paths)))


def rule_py_available_bytes_come_from_the_stream(out, pyr):
    rid = "PB3"
    out.rule(rid, "_binary.py CodedInputStream: the count of available bytes (`self._last_read_count`) is only ever 0 or computed from a `readinto(...)` result, and the buffer is the "
                  "stream object's own `bytearray(...)` — the reader never takes somebody else's memory (a BytesIO's getbuffer(), the caller's bytes) for bytes it has read, "
                  "because then the underlying stream's position no longer says what was consumed and a refill delivers the same bytes again instead of an end of file", 2)
    tree, rel = pyr.parse_py(out, "_binary.py")
    cl = pyr.classes(tree)
    if "CodedInputStream" not in cl:
        out.undecided(rid, "anchor/CodedInputStream", rel, "class not found")
        return
    n = 0
    for mname, fn in pyr.methods(cl["CodedInputStream"]).items():
        # explaining locals: names bound (transitively) to an expression that contains a readinto() call
        from_read = set()
        changed = True
        while changed:
            changed = False
            for st0 in ast.walk(fn):
                if isinstance(st0, ast.Assign) and len(st0.targets) == 1 and isinstance(st0.targets[0], ast.Name) and st0.targets[0].id not in from_read:
                    v = st0.value
                    if any((isinstance(c, ast.Call) and isinstance(c.func, ast.Attribute) and c.func.attr in ("readinto", "readinto1")) or (isinstance(c, ast.Name) and c.id in from_read) for c in ast.walk(v)):
                        from_read.add(st0.targets[0].id)
                        changed = True
        for st in ast.walk(fn):
            targets, value = [], None
            if isinstance(st, ast.Assign):
                targets, value = st.targets, st.value
            elif isinstance(st, ast.AugAssign):
                targets, value = [st.target], st.value
            for t in targets:
                if not (isinstance(t, ast.Attribute) and isinstance(t.value, ast.Name) and t.value.id == "self"):
                    continue
                if t.attr == "_last_read_count":
                    n += 1
                    has_readinto = any((isinstance(c, ast.Call) and isinstance(c.func, ast.Attribute) and c.func.attr in ("readinto", "readinto1")) or (isinstance(c, ast.Name) and c.id in from_read) for c in ast.walk(value))
                    zero = isinstance(value, ast.Constant) and value.value == 0
                    out.check(zero or has_readinto, rid, "CodedInputStream.%s/_last_read_count#%d" % (mname, n), pyr.pos(rel, st), "0 or a readinto() result",
                              "`%s`: the number of available bytes is not what a readinto() delivered — bytes are declared read that the stream object has not handed out, so its position "
                              "is behind the decoder's; at a truncation point the refill re-delivers old bytes (the header) as payload instead of raising EOFError" % ast.unparse(st)[:100])
                elif t.attr == "_buffer":
                    n += 1
                    own = isinstance(value, ast.Call) and isinstance(value.func, ast.Name) and value.func.id == "bytearray"
                    out.check(own, rid, "CodedInputStream.%s/_buffer#%d" % (mname, n), pyr.pos(rel, st), "the reader's own bytearray",
                              "`%s`: the read buffer is not the reader's own bytearray; decoding in place out of another object's memory leaves the stream position untouched, "
                              "and every refill starts from the beginning of the data again" % ast.unparse(st)[:100])
    if n == 0:
        out.undecided(rid, "anchor/assignments", rel, "no assignment to _last_read_count / _buffer found")


def rule_py_serializers_keep_no_per_value_state(out, pyr):
    rid = "PM3"
    out.rule(rid, "_binary.py, _ndjson.py: a *Serializer / *Converter object serves many values; outside __init__ no method stores on `self` anything computed from one of its arguments "
                  "(a decision cached from the first value — e.g. `value.flags.c_contiguous` — is applied to the following ones)", 20)
    for fname in ("_binary.py", "_ndjson.py"):
        tree, rel = pyr.parse_py(out, fname)
        for cname, cls in pyr.classes(tree).items():
            if "Serializer" not in cname and "Converter" not in cname:
                continue
            bad = None
            for mname, fn in pyr.methods(cls).items():
                if mname == "__init__":
                    continue
                params = {a.arg for a in fn.args.args + fn.args.kwonlyargs if a.arg != "self"}
                # locals derived from parameters
                derived = set(params)
                changed = True
                while changed:
                    changed = False
                    for st in ast.walk(fn):
                        if isinstance(st, ast.Assign) and any(isinstance(n, ast.Name) and n.id in derived for n in ast.walk(st.value)):
                            for t in st.targets:
                                for n in ast.walk(t):
                                    if isinstance(n, ast.Name) and n.id not in derived:
                                        derived.add(n.id)
                                        changed = True
                for st in ast.walk(fn):
                    targets, value = [], None
                    if isinstance(st, ast.Assign):
                        targets, value = st.targets, st.value
                    elif isinstance(st, (ast.AugAssign, ast.AnnAssign)) and st.value is not None:
                        targets, value = [st.target], st.value
                    for t in targets:
                        if isinstance(t, ast.Attribute) and isinstance(t.value, ast.Name) and t.value.id == "self":
                            if any(isinstance(n, ast.Name) and n.id in derived for n in ast.walk(value)):
                                bad = (mname, st)
            out.check(bad is None, rid, "%s/%s" % (fname, cname), pyr.pos(rel, bad[1] if bad else cls), "no per-value state outside __init__",
                      "%s.%s stores `%s` on the serializer: it is computed from the value at hand and then applied to every later value this object handles (the items of one write call / one batch), "
                      "so what happens to a value depends on the value that came before it" % (cname, bad[0] if bad else "", ast.unparse(bad[1])[:110] if bad else ""))
