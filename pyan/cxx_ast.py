"""Rules over the clang JSON AST of the C++ runtime headers embedded in the generator
(tooling/internal/cpp/include/detail/binary/*.h). clang only parses; nothing is compiled
to code or run. Third-party headers that are not installed (xtensor, date) are replaced by
declarations in /verif/cxxstubs; only bodies of functions defined in /repo are inspected.
"""
import json
import re
import os
import subprocess

HERE = os.path.dirname(os.path.abspath(__file__))
VERIF = os.path.dirname(HERE)
INC = "tooling/internal/cpp/include"
BIN = INC + "/detail/binary"

_cache = {}
_SRC = [None]  # text of the header being analysed (for tokens clang does not name)


def dump(repo, header):
    key = (repo, header)
    if key in _cache:
        return _cache[key]
    os.makedirs(os.path.join(VERIF, "cxxstubs", "a", "b"), exist_ok=True)  # git does not keep an empty directory
    path = os.path.join(repo, BIN, header)
    cmd = ["clang++", "-std=c++17", "-fsyntax-only", "-x", "c++-header", "-Wno-everything",
           "-I", os.path.join(VERIF, "cxxstubs", "a", "b"),  # so that "../../yardl.h" resolves to cxxstubs/yardl.h
           "-I", os.path.join(VERIF, "cxxstubs"),
           "-Xclang", "-ast-dump=json", "-Xclang", "-ast-dump-filter=yardl::binary", path]
    r = subprocess.run(cmd, capture_output=True, text=True)
    txt = r.stdout
    roots = []
    dec = json.JSONDecoder()
    i = 0
    while True:
        i = txt.find("{", i)
        if i < 0:
            break
        try:
            o, j = dec.raw_decode(txt, i)
        except json.JSONDecodeError:
            break
        roots.append(o)
        i = j
    res = (roots, r.returncode, r.stderr[-2000:])
    _cache[key] = res
    return res


def walk(n):
    if isinstance(n, dict):
        yield n
        for c in n.get("inner", []) or []:
            yield from walk(c)


def line_of(n, default=0):
    for k in ("loc", "range"):
        v = n.get(k)
        if isinstance(v, dict):
            if "line" in v:
                return v["line"]
            b = v.get("begin", {})
            if "line" in b:
                return b["line"]
            e = b.get("expansionLoc", {})
            if "line" in e:
                return e["line"]
    return default


def annotate_lines(root):
    """clang prints `line` only when it changes; propagate the last seen line in document order."""
    last = [0]

    def visit(n):
        for k in ("loc", "range"):
            v = n.get(k)
            if isinstance(v, dict):
                for part in (v, v.get("begin", {}), v.get("begin", {}).get("expansionLoc", {}), v.get("begin", {}).get("spellingLoc", {})):
                    if isinstance(part, dict) and "line" in part:
                        last[0] = part["line"]
                        break
        n["_line"] = last[0]
        for c in n.get("inner", []) or []:
            if isinstance(c, dict):
                visit(c)
        v = n.get("range")
        if isinstance(v, dict):
            e = v.get("end", {})
            for part in (e, e.get("expansionLoc", {})):
                if isinstance(part, dict) and "line" in part:
                    last[0] = part["line"]
                    break
    visit(root)


class Lines:
    def of(self, n):
        return n.get("_line", 0)


def find_class(roots, name):
    for r in roots:
        for n in walk(r):
            if n.get("kind") == "CXXRecordDecl" and n.get("name") == name and n.get("inner"):
                return n
    return None


def functions_in(node):
    """yield (name, decl) for every function/method definition with a body under node"""
    for n in walk(node):
        if n.get("kind") in ("CXXMethodDecl", "FunctionDecl", "CXXConstructorDecl") and any(c.get("kind") == "CompoundStmt" for c in n.get("inner", []) or []):
            if n.get("isImplicit"):
                continue
            yield n.get("name"), n


def body_of(fn):
    for c in fn.get("inner", []) or []:
        if c.get("kind") == "CompoundStmt":
            return c
    return None


_FULL = [False]  # when set, member accesses are rendered with their base object (`value.resize`), not only the member name


def txt(n):
    """approximate source text of an expression"""
    if n is None:
        return ""
    k = n.get("kind")
    inner = n.get("inner", []) or []
    if _FULL[0] and k in ("MemberExpr", "CXXDependentScopeMemberExpr", "UnresolvedMemberExpr") and inner and isinstance(inner[0], dict) \
            and inner[0].get("kind") != "CXXThisExpr":
        _FULL[0] = False
        try:
            member = txt(n)
        finally:
            _FULL[0] = True
        return "%s.%s" % (txt(inner[0]), member)
    if k in ("ImplicitCastExpr", "ParenExpr", "ExprWithCleanups", "MaterializeTemporaryExpr", "CXXBindTemporaryExpr", "ConstantExpr", "CXXFunctionalCastExpr") and inner:
        return txt(inner[-1])
    if k in ("CXXStaticCastExpr", "CStyleCastExpr", "CXXReinterpretCastExpr", "CXXConstCastExpr") and inner:
        return txt(inner[-1])
    if k == "MemberExpr":
        return n.get("name", "?")
    if k == "DeclRefExpr":
        return (n.get("referencedDecl") or {}).get("name", "?")
    if k == "IntegerLiteral":
        return str(n.get("value"))
    if k == "CXXBoolLiteralExpr":
        return "true" if n.get("value") else "false"
    if k == "UnaryExprOrTypeTraitExpr":
        arg = txt(inner[0]) if inner else (n.get("argType") or {}).get("qualType", "?")
        return "%s(%s)" % (n.get("name", "sizeof"), arg)
    if k == "UnaryOperator":
        op = n.get("opcode")
        return (txt(inner[0]) + op) if n.get("isPostfix") else (op + txt(inner[0]))
    if k in ("BinaryOperator", "CompoundAssignOperator"):
        return "%s %s %s" % (txt(inner[0]), n.get("opcode"), txt(inner[1]))
    if k in ("CallExpr", "CXXMemberCallExpr", "CXXOperatorCallExpr"):
        if not inner:
            return "call()"
        if k == "CXXOperatorCallExpr" and len(inner) == 3:
            opn = txt(inner[0])
            if opn.startswith("operator") and opn[len("operator"):] in ("==", "!=", "<", "<=", ">", ">="):
                return "%s %s %s" % (txt(inner[1]), opn[len("operator"):], txt(inner[2]))
        return "%s(%s)" % (txt(inner[0]), ", ".join(txt(a) for a in inner[1:]))
    if k == "UnresolvedLookupExpr" or k == "UnresolvedMemberExpr" or k == "CXXDependentScopeMemberExpr":
        nm = n.get("name") or n.get("member")
        if nm:
            return nm
        # clang 14 does not print the member name of an UnresolvedMemberExpr: read the token from the source
        b = (n.get("range") or {}).get("end", {})  # the member name is the last token of the expression
        off, ln = b.get("offset"), b.get("tokLen")
        if _SRC[0] is not None and off is not None and ln:
            return _SRC[0][off:off + ln]
        return "?"
    if k == "CXXThisExpr":
        return "this"
    if k == "ArraySubscriptExpr":
        return "%s[%s]" % (txt(inner[0]), txt(inner[1]))
    if k == "CXXThrowExpr":
        return "throw"
    if inner:
        return txt(inner[-1])
    return k or "?"


def callee_name(call):
    inner = call.get("inner", []) or []
    if not inner:
        return ""
    return txt(inner[0])


# -------------------------------------------------------------------------------------
# Buffer-bounds abstract interpretation for CodedInputStream / CodedOutputStream
# -------------------------------------------------------------------------------------

BIG = 1 << 20
CONSTS = {"MAX_VARINT32_BYTES": 5, "MAX_VARINT64_BYTES": 10}


class State:
    def __init__(self, lo=0, facts=None, alias=None):
        self.lo = lo                 # bytes known available (reader) / free (writer), lower bound
        self.facts = set(facts or [])  # symbolic lower bounds, e.g. "sizeof(value)"
        self.alias = set(alias or [])  # local variables equal to / not larger than the available count

    def copy(self):
        return State(self.lo, self.facts, self.alias)

    def join(self, o):
        # a freshly flushed buffer (lo >= BIG) satisfies every symbolic bound
        if self.lo >= BIG:
            facts, alias = set(o.facts), set(o.alias)
        elif o.lo >= BIG:
            facts, alias = set(self.facts), set(self.alias)
        else:
            facts, alias = self.facts & o.facts, self.alias & o.alias
        return State(min(self.lo, o.lo), facts, alias)

    def eq(self, o):
        return self.lo == o.lo and self.facts == o.facts and self.alias == o.alias


class BufferAnalysis:
    def __init__(self, out, rid, rel, cls, is_reader, fill_post, lines):
        self.out, self.rid, self.rel, self.cls = out, rid, rel, cls
        self.reader = is_reader
        self.fill_post = fill_post  # bytes guaranteed after FillBuffer (reader) / FlushBuffer (writer)
        self.lines = lines
        self.fn = None
        self.reported = set()
        self.members = {}      # name -> [decl]: member functions of the class with a body
        self.inline = set()    # private helpers whose buffer accesses are judged where they are called
        self.quiet = 0         # >0: inside a helper that is also judged on its own — requirements are not reported twice
        self.subst = [{}]      # parameter -> argument text of the helper calls being expanded
        self.bools = {}        # boolean locals of the function under analysis -> initialiser node
        self.depth = 0

    def T(self, n):
        """text of a node with the parameters of expanded helpers replaced by the arguments"""
        t = txt(n)
        for name, val in self.subst[-1].items():
            t = re.sub(r"(?<![\w.:])%s(?![\w(])" % re.escape(name), val, t)
        return t

    def kill(self, st, name):
        """a variable was overwritten: what was known in terms of it is gone"""
        pat = re.compile(r"(?<![\w.:])%s(?![\w(])" % re.escape(name))
        st.facts = {f for f in st.facts if not pat.search(f)}
        st.alias = {a for a in st.alias if a != name}
        return st

    # ---- conditions ----
    def is_remaining(self, t):
        return t.replace(" ", "") in ("RemainingBufferSpace()", "static_cast<size_t>(buffer_end_ptr_-buffer_ptr_)", "buffer_end_ptr_-buffer_ptr_")

    def cond(self, c, st):
        """returns (state_if_true, state_if_false)"""
        t, f = st.copy(), st.copy()
        k = c.get("kind")
        inner = c.get("inner", []) or []
        if k in ("ImplicitCastExpr", "ParenExpr", "ExprWithCleanups") and inner:
            return self.cond(inner[-1], st)
        if k == "UnaryOperator" and c.get("opcode") == "!" and inner:
            a, b = self.cond(inner[0], st)
            return b, a
        if k == "DeclRefExpr" and (c.get("referencedDecl") or {}).get("name") in self.bools:
            # an explaining local: `bool const ok = <test>; if (ok)`
            return self.cond(self.bools[(c.get("referencedDecl") or {}).get("name")], st)
        if k == "CXXMemberCallExpr" and len(inner) >= 1:
            # a predicate member whose body is `return <test>;` — its parameters stand for the arguments of this call
            for fn in self.members.get(callee_name(c).split("::")[-1], []):
                b = body_of(fn)
                stmts = [x for x in (b.get("inner") or []) if isinstance(x, dict)] if b else []
                prms = params_of(fn)
                if len(stmts) == 1 and stmts[0].get("kind") == "ReturnStmt" and stmts[0].get("inner") and len(prms) == len(inner) - 1 and self.depth < 4:
                    env = dict(self.subst[-1])
                    for prm, a in zip(prms, inner[1:]):
                        if prm.get("name"):
                            env[prm["name"]] = self.T(a)
                    self.subst.append(env)
                    self.depth += 1
                    try:
                        return self.cond(stmts[0]["inner"][0], st)
                    finally:
                        self.depth -= 1
                        self.subst.pop()
        if k == "BinaryOperator":
            op = c.get("opcode")
            l, r = self.T(inner[0]), self.T(inner[1])
            ptrs = {"buffer_ptr_", "buffer_end_ptr_"}
            if op in ("==", "!=") and {l, r} == ptrs:
                eq, ne = (t, f) if op == "==" else (f, t)
                eq.lo, eq.facts = 0, set()
                ne.lo = max(ne.lo, 1)
                return t, f
            lhs_rem = self.is_remaining(l) or l in st.alias
            rhs_rem = self.is_remaining(r) or r in st.alias
            if rhs_rem and not lhs_rem and op in ("<", ">=", "==", ">", "<=", "!="):
                # `N > remaining` is `remaining < N`: mirror the comparison
                l, r = r, l
                op = {"<": ">", ">": "<", "<=": ">=", ">=": "<=", "==": "==", "!=": "!="}[op]
                lhs_rem = True
            if lhs_rem and op in ("<", ">=", "==", ">", "<=", "!="):
                val = CONSTS.get(r)
                if val is None and r.isdigit():
                    val = int(r)
                ge, lt = (f, t) if op == "<" else (t, f) if op == ">=" else (None, None)
                if op in ("<", ">="):
                    if val is not None:
                        ge.lo = max(ge.lo, val)
                    ge.facts.add(r)
                    return t, f
                if op == "==" and val == 0:
                    t.lo, t.facts = 0, set()
                    f.lo = max(f.lo, 1)
                    return t, f
                if op == "!=" and val == 0:
                    f.lo, f.facts = 0, set()
                    t.lo = max(t.lo, 1)
                    return t, f
                if op == ">" and val is not None:
                    t.lo = max(t.lo, val + 1)
                    return t, f
                if op == "<=" and val is not None:  # remaining <= N: the false branch has more than N
                    f.lo = max(f.lo, val + 1)
                    return t, f
            if op == "&&":
                t1, f1 = self.cond(inner[0], st)
                t2, f2 = self.cond(inner[1], t1)
                return t2, f1.join(f2)
            if op == "||":
                t1, f1 = self.cond(inner[0], st)
                t2, f2 = self.cond(inner[1], f1)
                return t1.join(t2), f2
        return t, f

    # ---- requirements ----
    def need(self, node, what, nbytes_txt, st):
        if self.quiet:
            return
        line = self.lines.of(node)
        key = "%s.%s/%s" % (self.cls, self.fn, what)
        site = (self.fn, what, line)
        val = CONSTS.get(nbytes_txt)
        if val is None and nbytes_txt.isdigit():
            val = int(nbytes_txt)
        ok = False
        if val is not None and st.lo >= val:
            ok = True
        if nbytes_txt in st.facts or nbytes_txt in st.alias:
            ok = True
        if site in self.reported:
            if not ok:
                # a later fixpoint pass found a path on which it does not hold
                for o in self.out.obs:
                    if o["key"].startswith(self.rid + "/" + key) and o["pos"].endswith(":%d" % line) and o["status"] == "ok":
                        o["status"] = "violated"
                        o["fact"] = self._badfact(what, nbytes_txt, st)
            return
        self.reported.add(site)
        pos = "%s:%d" % (self.rel, line)
        if ok:
            self.out.ok(self.rid, key, pos, "%s bytes are %s on every path (lower bound %s%s)" % (
                nbytes_txt, "available" if self.reader else "free", st.lo if st.lo < BIG else "buffer size", (", " + ", ".join(sorted(st.facts))) if st.facts else ""))
        else:
            self.out.bad(self.rid, key, pos, self._badfact(what, nbytes_txt, st))

    def _badfact(self, what, nbytes_txt, st):
        if self.reader:
            return ("%s needs %s byte(s) between buffer_ptr_ and buffer_end_ptr_, but on some path only %d %s guaranteed after the last FillBuffer()/test: "
                    "at a truncated stream stale buffer bytes are decoded and buffer_ptr_ can pass buffer_end_ptr_ instead of EndOfStreamException"
                    % (what, nbytes_txt, st.lo, "is" if st.lo == 1 else "are"))
        return ("%s stores %s byte(s) at buffer_ptr_, but on some path only %d free byte(s) are guaranteed: write past the end of the staging buffer"
                % (what, nbytes_txt, st.lo))

    # ---- expression effects ----
    def expr(self, n, st):
        k = n.get("kind")
        inner = n.get("inner", []) or []
        if k == "LambdaExpr":
            return st
        # evaluate children first (roughly left to right)
        if k in ("CallExpr", "CXXMemberCallExpr"):
            name = callee_name(n)
            args = inner[1:]
            for a in args:
                st = self.expr(a, st)
            fill = "FillBuffer" if self.reader else "FlushBuffer"
            if name == fill or name.endswith(fill + "OrThrow") or name in ("RequireData", "FillBufferOrThrow"):
                post = self.fill_post.get(name, self.fill_post.get(fill, 0))
                return State(post, set(), set())
            if name == "memcpy" and len(args) == 3:
                ptr_arg = 1 if self.reader else 0
                if self.T(args[ptr_arg]) == "buffer_ptr_":
                    self.need(n, "memcpy(%s)" % self.T(args[2]), self.T(args[2]), st)
                return st
            if "buffer_ptr_" in [txt(a) for a in args]:
                if "FixedIntegerFastFromArray" in name:
                    self.need(n, name, "sizeof(value)", st)
                elif "VarIntegerFastFromArray" in name:
                    req = "MAX_VARINT32_BYTES" if self.fn == "ReadVarInt32" else "MAX_VARINT64_BYTES"
                    self.need(n, name, req, st)
                else:
                    self.need(n, name + "(buffer_ptr_)", "MAX_VARINT64_BYTES", st)
                return State(0, set(), set())
            if name == "WriteVarInt" and not self.reader:
                req = "MAX_VARINT32_BYTES" if self.fn == "WriteVarInt32" else "MAX_VARINT64_BYTES"
                self.need(n, "WriteVarInt", req, st)
                return State(0, set(), set())
            if name in ("RemainingBufferSpace", "std::min", "min", "assert", "ZigZagEncode32", "ZigZagEncode64", "ZigZagDecode32", "ZigZagDecode64", "static_cast"):
                return st
            if name.startswith("stream_") or name in ("eof", "gcount", "read", "write", "flush", "bad", "data", "size"):
                return st
            # a private helper of the class: its statements, with the arguments for the parameters. Its buffer accesses
            # are judged here when they cannot be judged on its own (name in self.inline); otherwise only its effect on
            # what is known counts.
            short = name.split("::")[-1]
            cands = self.members.get(short, [])
            if len(cands) == 1 and short in self.private and self.depth < 3 and k == "CXXMemberCallExpr":
                fn = cands[0]
                params = [q.get("name") for q in params_of(fn)]
                env = dict(self.subst[-1])
                for prm, a in zip(params, args):
                    if prm:
                        env[prm] = self.T(a)
                self.subst.append(env)
                self.depth += 1
                if short not in self.inline:
                    self.quiet += 1
                saved_bools = self.bools
                self.bools = {}
                try:
                    rets = []
                    after = self.stmt(body_of(fn), st.copy(), [], rets)
                finally:
                    self.bools = saved_bools
                    if short not in self.inline:
                        self.quiet -= 1
                    self.depth -= 1
                    self.subst.pop()
                outs = rets + ([after] if after is not None else [])
                if not outs:
                    return State(0, set(), set())
                res = outs[0]
                for o in outs[1:]:
                    res = res.join(o)
                # what the helper knew in terms of its own locals does not survive the call
                res.alias = {a for a in res.alias if a in st.alias}
                return res
            # any other member function manages the buffer itself: nothing is known afterwards
            return State(0, set(), set())
        if k == "UnaryOperator" and n.get("opcode") == "*":
            t = txt(inner[0]).replace(" ", "")
            if t in ("buffer_ptr_++", "buffer_ptr_"):
                self.need(n, "*buffer_ptr_++", "1", st)
                if t == "buffer_ptr_":
                    return st  # looked at, not consumed: the increment is a statement of its own
                st = st.copy()
                st.lo = max(0, st.lo - 1) if st.lo < BIG else BIG
                st.facts, st.alias = set(), set()
                return st
        if k == "UnaryOperator" and n.get("opcode") in ("++", "--") and inner and txt(inner[0]).replace(" ", "") == "buffer_ptr_":
            st = st.copy()
            st.lo = max(0, st.lo - 1) if st.lo < BIG else BIG
            st.facts, st.alias = set(), set()
            return st
        if k in ("BinaryOperator", "CompoundAssignOperator"):
            # assignment through *buffer_ptr_++ = x (writer) is a UnaryOperator child: handled by recursion
            for c in inner:
                st = self.expr(c, st)
            if n.get("opcode") in ("+=",) and txt(inner[0]) == "buffer_ptr_":
                st = st.copy()
                st.facts, st.alias = set(), set()
                st.lo = 0 if st.lo < BIG else BIG
            elif (k == "CompoundAssignOperator" or n.get("opcode") == "=") and inner and inner[0].get("kind") == "DeclRefExpr":
                # a local or parameter is overwritten
                name = (inner[0].get("referencedDecl") or {}).get("name")
                if name and name not in ("buffer_ptr_", "buffer_end_ptr_"):
                    st = self.kill(st.copy(), self.subst[-1].get(name, name))
                    if n.get("opcode") == "=" and len(inner) > 1 and self.is_remaining(self.T(inner[1])):
                        st.alias.add(name)
            return st
        for c in inner:
            if isinstance(c, dict):
                st = self.expr(c, st)
        return st

    # ---- statements ----
    def stmt(self, n, st, brk, ret):
        """returns state after, or None if control never falls through"""
        k = n.get("kind")
        inner = n.get("inner", []) or []
        if k == "CompoundStmt":
            for c in inner:
                st = self.stmt(c, st, brk, ret)
                if st is None:
                    return None
            return st
        if k == "IfStmt":
            parts = [c for c in inner]
            cond, then = parts[0], parts[1]
            els = parts[2] if len(parts) > 2 else None
            st = self.expr(cond, st)
            t, f = self.cond(cond, st)
            a = self.stmt(then, t, brk, ret)
            b = self.stmt(els, f, brk, ret) if els else f
            if a is None:
                return b
            if b is None:
                return a
            return a.join(b)
        if k == "WhileStmt":
            cond, body = inner[0], inner[-1]
            infinite = txt(cond) == "true"
            head = st.copy()
            exits = []
            for _ in range(6):
                breaks = []
                hs = self.expr(cond, head.copy())
                t, f = self.cond(cond, hs)
                after = self.stmt(body, t, breaks, ret)
                new_head = head if after is None else head.join(after)
                exits = list(breaks) + ([] if infinite else [f])
                if new_head.eq(head):
                    break
                head = new_head
            if not exits:
                return None
            res = exits[0]
            for e in exits[1:]:
                res = res.join(e)
            return res
        if k == "ForStmt":
            # clang: [init, condition variable, condition, increment, body]; absent parts are empty
            parts = list(inner) + [{}] * (5 - len(inner))
            init, cond, inc, body = parts[0], parts[2], parts[3], parts[4]
            if init.get("kind"):
                st = self.stmt(init, st, brk, ret)
                if st is None:
                    return None
            infinite = not cond.get("kind")
            head = st.copy()
            exits = []
            for _ in range(6):
                breaks = []
                if infinite:
                    t, f = head.copy(), None
                else:
                    hs = self.expr(cond, head.copy())
                    t, f = self.cond(cond, hs)
                after = self.stmt(body, t, breaks, ret) if body.get("kind") else t
                if after is not None and inc.get("kind"):
                    after = self.expr(inc, after)
                new_head = head if after is None else head.join(after)
                exits = list(breaks) + ([] if infinite else [f])
                if new_head.eq(head):
                    break
                head = new_head
            if not exits:
                return None
            res = exits[0]
            for e in exits[1:]:
                res = res.join(e)
            return res
        if k == "ReturnStmt":
            for c in inner:
                st = self.expr(c, st)
            ret.append(st)
            return None
        if k == "BreakStmt":
            brk.append(st)
            return None
        if k == "DeclStmt":
            for d in inner:
                init = (d.get("inner") or [None])[-1] if d.get("inner") else None
                if init is not None and isinstance(init, dict):
                    st = self.expr(init, st)
                    it = self.T(init).replace(" ", "")
                    if ((d.get("type") or {}).get("qualType", "")).replace("const", "").strip() == "bool":
                        self.bools[d.get("name")] = init
                    if self.is_remaining(self.T(init)) or it.startswith("std::min(") and "buffer_end_ptr_-buffer_ptr_" in it or it.startswith("min(") or self.min_with_alias(init, st):
                        st = st.copy()
                        st.alias.add(d.get("name"))
            return st
        if k in ("CXXThrowExpr",):
            return None
        if k == "ExprWithCleanups" and inner and inner[0].get("kind") == "CXXThrowExpr":
            return None
        if k in ("NullStmt",):
            return st
        # expression statement
        st = self.expr(n, st)
        if any(c.get("kind") == "CXXThrowExpr" for c in walk(n)) and k in ("CXXThrowExpr", "ExprWithCleanups"):
            return None
        return st

    def min_with_alias(self, init, st):
        """`a < b ? a : b` (any of the four spellings) or std::min(a, b) where a or b is the available count"""
        x = init
        while x.get("kind") in ("ImplicitCastExpr", "ParenExpr", "ExprWithCleanups") and x.get("inner"):
            x = x["inner"][-1]
        known = lambda t: self.is_remaining(t) or t in st.alias
        if x.get("kind") == "ConditionalOperator" and len(x.get("inner") or []) == 3:
            c, a, b = x["inner"]
            while c.get("kind") in ("ImplicitCastExpr", "ParenExpr") and c.get("inner"):
                c = c["inner"][-1]
            if c.get("kind") == "BinaryOperator" and c.get("opcode") in ("<", "<=", ">", ">="):
                l, r = self.T(c["inner"][0]), self.T(c["inner"][1])
                ta, tb = self.T(a), self.T(b)
                smaller_first = c.get("opcode") in ("<", "<=")
                picks_min = (smaller_first and ta == l and tb == r) or (not smaller_first and ta == r and tb == l)
                return picks_min and (known(ta) or known(tb))
        if x.get("kind") == "CallExpr" and callee_name(x).split("::")[-1] == "min":
            return any(known(self.T(a)) for a in (x.get("inner") or [])[1:])
        return False

    def run_function(self, name, fn):
        self.fn = name
        self.bools = {}
        self.subst = [{}]
        self.quiet = 0
        self.depth = 0
        body = body_of(fn)
        if body is None:
            return
        self.stmt(body, State(0), [], [])


def fill_postcondition(cls, fill_name):
    """bytes guaranteed between buffer_ptr_ and buffer_end_ptr_ when the fill routine returns normally:
    1 if every path that does not throw knows that at least one byte was obtained, else 0.
    Decided on the routine's paths, so `if (n == 0) throw` and `if (n > 0) return; throw` are the same."""
    for name, fn in functions_in(cls):
        if name != fill_name:
            continue
        cp = CxxPaths({})
        paths = cp.paths(fn)
        ok_paths = [p for p in paths if p.outcome != "throw"]
        if cp.overflow or not paths or not any(p.outcome == "throw" for p in paths):
            return 0
        for p in ok_paths:
            if not p.knows_positive(("bytes_read", "gcount()", "FillBuffer()", "bytes_available", "buffer_end_ptr_ - buffer_ptr_")):
                # or: buffer_ptr_ != buffer_end_ptr_
                if not any(op == "!=" and {a.replace(" ", ""), b.replace(" ", "")} == {"buffer_ptr_", "buffer_end_ptr_"} for a, op, b in p.facts()):
                    return 0
        return 1
    return 0


def rule_coded_stream_bounds(out, tier):
    rid_r, rid_w = "CB1", "CB2"
    out.rule(rid_r, "coded_stream.h CodedInputStream: every read through buffer_ptr_ (*buffer_ptr_++, memcpy from buffer_ptr_, *FastFromArray(.., buffer_ptr_)) is "
                    "covered on every path by a test establishing enough bytes AFTER the last FillBuffer() (which may deliver fewer bytes than needed, or none at EOF)", 4)
    out.rule(rid_w, "coded_stream.h CodedOutputStream: every store through buffer_ptr_ is covered on every path by a `RemainingBufferSpace() < N → FlushBuffer()` "
                    "test with N >= the bytes stored (varint: 5 for 32-bit, 10 for 64-bit)", 5)
    roots, rc, err = dump(out.repo, "coded_stream.h")
    rel = BIN + "/coded_stream.h"
    if rc != 0 or not roots:
        out.undecided(rid_r, "clang/coded_stream.h", rel, "clang could not parse the header: " + err[-300:])
        return
    for r in roots:
        annotate_lines(r)
    with open(os.path.join(out.repo, BIN, "coded_stream.h")) as f:
        _SRC[0] = f.read()
    for cname, reader, rid in (("CodedInputStream", True, rid_r), ("CodedOutputStream", False, rid_w)):
        cls = find_class(roots, cname)
        if cls is None:
            out.undecided(rid, cname, rel, "class not found in the AST")
            continue
        if reader:
            post = {"FillBuffer": fill_postcondition(cls, "FillBuffer")}
            for helper in ("FillBufferOrThrow", "RequireData"):
                post[helper] = fill_postcondition(cls, helper)
                # a helper that calls FillBuffer and throws when the buffer is still empty
            out.stats["CB1_FillBuffer_guarantees_bytes"] = post["FillBuffer"]
        else:
            post = {"FlushBuffer": BIG}
        ba = BufferAnalysis(out, rid, rel, cname, reader, post, Lines())
        skip = ("FillBuffer", "FlushBuffer", "RemainingBufferSpace", cname, "~" + cname, "VerifyFinished", "FillBufferOrThrow", "RequireData", "WriteVarInt")
        # member functions and their access: private helpers are expanded where they are called
        ba.private = set()
        access = "private"
        for ch in cls.get("inner") or []:
            if not isinstance(ch, dict):
                continue
            if ch.get("kind") == "AccessSpecDecl":
                access = ch.get("access", access)
                continue
            for nm, fn in functions_in(ch):
                if nm in skip or fn.get("storageClass") == "static":
                    continue
                ba.members.setdefault(nm, []).append(fn)
                if access == "private":
                    ba.private.add(nm)
        # a private helper that cannot be judged on its own (what it needs is established by its callers) is judged
        # at every call site instead
        class _Trial:
            def __init__(self):
                self.obs, self.n_bad = [], 0
            def ok(self, *a):
                pass
            def bad(self, *a):
                self.n_bad += 1
        for nm in sorted(ba.private):
            if len(ba.members.get(nm, [])) != 1:
                continue
            trial = _Trial()
            tb = BufferAnalysis(trial, rid, rel, cname, reader, post, Lines())
            tb.members, tb.private = ba.members, ba.private
            tb.run_function(nm, ba.members[nm][0])
            if trial.n_bad:
                ba.inline.add(nm)
        out.stats[rid + "_helpers_judged_at_call_sites"] = sorted(ba.inline)
        seen = set()
        for name, fn in functions_in(cls):
            if name in ("FillBuffer", "FlushBuffer", "RemainingBufferSpace", cname, "~" + cname, "VerifyFinished", "FillBufferOrThrow", "RequireData"):
                continue
            if name == "WriteVarInt":
                continue  # private; its space requirement is checked at each call site
            if name in ba.inline:
                # every call site must be inside the class (private) — and is judged there
                continue
            key = (name, fn.get("_line", 0))
            if key in seen:
                continue
            seen.add(key)
            ba.run_function(name, fn)


# -------------------------------------------------------------------------------------
# serializers.h / header.h
# -------------------------------------------------------------------------------------

def free_functions(roots):
    """(name, decl) of every function definition directly in namespace yardl::binary (templates included)"""
    res = []
    seen = set()
    for r in roots:
        for n in r.get("inner", []) or []:
            cands = []
            if n.get("kind") == "FunctionDecl":
                cands = [n]
            elif n.get("kind") == "FunctionTemplateDecl":
                cands = [c for c in n.get("inner", []) if c.get("kind") == "FunctionDecl"][:1]
            for f in cands:
                if body_of(f) is not None and f.get("id") not in seen:
                    seen.add(f.get("id"))
                    res.append((f.get("name"), f))
    return res


def params_of(fn):
    return [c for c in fn.get("inner", []) or [] if c.get("kind") == "ParmVarDecl"]


CALLBACKS = {"WriteElement": "Element", "ReadElement": "Element", "WriteKey": "Key", "ReadKey": "Key", "WriteValue": "Value", "ReadValue": "Value"}


def op_signature(fn):
    """ordered stream-affecting operations of a serializer function, Write/Read prefix removed"""
    ops = []

    def norm(name):
        name = name.split("::")[-1]
        if name in CALLBACKS:
            return CALLBACKS[name]
        for pre in ("Write", "Read"):
            if name.startswith(pre):
                return name[len(pre):]
        return name

    def visit(n):
        k = n.get("kind")
        inner = n.get("inner", []) or []
        if k == "IfStmt":
            c = txt(inner[0])
            tag = "if-trivial" if "IsTriviallySerializable" in json.dumps(inner[0])[:4000] else "if"
            ops.append(tag + "{")
            for ch in inner[1:]:
                visit(ch)
            ops.append("}")
            return
        if k in ("ForStmt", "CXXForRangeStmt", "WhileStmt"):
            ops.append("loop{")
            visit(inner[-1])
            ops.append("}")
            return
        if k in ("CallExpr", "CXXMemberCallExpr"):
            name = callee_name(n)
            args = [txt(a) for a in inner[1:]]
            base = ""
            if inner and inner[0].get("kind") in ("MemberExpr", "CXXDependentScopeMemberExpr", "UnresolvedMemberExpr"):
                base = txt((inner[0].get("inner") or [{}])[0])
                if inner[0].get("kind") == "CXXDependentScopeMemberExpr":
                    name = inner[0].get("member", name)
            if base == "stream":
                ops.append("stream." + norm(name))
            elif args and args[0] == "stream":
                ops.append(norm(name))
            for ch in inner[1:]:
                visit(ch)
            return
        for ch in inner:
            if isinstance(ch, dict):
                visit(ch)

    b = body_of(fn)
    if b is not None:
        visit(b)
    # drop empty structures
    changed = True
    while changed:
        changed = False
        for i in range(len(ops) - 1):
            if ops[i].endswith("{") and ops[i + 1] == "}":
                del ops[i:i + 2]
                changed = True
                break
    return ops


def op_traces(fn, limit=64, expand=None, _depth=0):
    """the set of ordered stream-operation sequences a serializer function can perform, one per path
    (branches fork, an early return ends a path, a loop is one operation carrying the traces of its body),
    Write/Read prefixes removed. Two functions with the same set do the same things to the stream,
    however their branches are written."""
    RET = ("<ret>",)

    def norm(name):
        name = name.split("::")[-1]
        if name in CALLBACKS:
            return CALLBACKS[name]
        for pre in ("Write", "Read"):
            if name.startswith(pre):
                return name[len(pre):]
        return name

    def seq(a, b):
        res = set()
        for x in a:
            if x and x[-1] == RET:
                res.add(x)
                continue
            for y in b:
                res.add(x + y)
                if len(res) > limit:
                    return res
        return res

    def expr_ops(n):
        """operations inside an expression, in evaluation order (a single trace)"""
        ops = []

        def visit(n):
            k = n.get("kind")
            inner = n.get("inner", []) or []
            if k in ("CallExpr", "CXXMemberCallExpr"):
                name = callee_name(n)
                args = [txt(a) for a in inner[1:]]
                base = ""
                if inner and inner[0].get("kind") in ("MemberExpr", "CXXDependentScopeMemberExpr", "UnresolvedMemberExpr"):
                    base = txt((inner[0].get("inner") or [{}])[0])
                    if inner[0].get("kind") == "CXXDependentScopeMemberExpr":
                        name = inner[0].get("member", name)
                for ch in inner[1:]:
                    visit(ch)
                if base == "stream":
                    ops.append(("stream." + norm(name),))
                elif args and args[0] == "stream":
                    ops.append((norm(name),))
                return
            if k == "LambdaExpr":
                return
            for ch in inner:
                if isinstance(ch, dict):
                    visit(ch)

        visit(n)
        return tuple(ops)

    def stmt(n):
        k = n.get("kind")
        inner = [c for c in (n.get("inner", []) or []) if isinstance(c, dict)]
        if k == "CompoundStmt":
            res = {()}
            for ch in inner:
                res = seq(res, stmt(ch))
            return res
        if k == "IfStmt":
            cond = {expr_ops(inner[0])} if inner else {()}
            then = stmt(inner[1]) if len(inner) > 1 else {()}
            els = stmt(inner[2]) if len(inner) > 2 else {()}
            return seq(cond, then | els)
        if k in ("ForStmt", "CXXForRangeStmt", "WhileStmt", "DoStmt"):
            body = stmt(inner[-1]) if inner else {()}
            body = {tuple(o for o in t if o != RET) for t in body}
            body.discard(())
            if not body:
                return {()}
            return {((("loop",) + tuple(sorted(body, key=repr))),)}
        if k == "ReturnStmt":
            pre = expr_ops(n)
            return {pre + (RET,)}
        if k == "DeclStmt":
            # a local closure: its operations happen where it is called
            keep = False
            for d in inner:
                if d.get("kind") == "VarDecl" and d.get("name"):
                    lam = [y for y in walk(d) if y.get("kind") == "LambdaExpr"]
                    if lam:
                        lambdas[d.get("name")] = lam[0]
                        continue
                keep = True
            if not keep:
                return {()}
        # a statement that is just a call of a local closure or of a helper without a twin: its traces, in place
        x = n
        while x.get("kind") in ("ExprWithCleanups", "ImplicitCastExpr", "ParenExpr") and x.get("inner"):
            x = x["inner"][-1]
        if x.get("kind") in ("CallExpr", "CXXOperatorCallExpr") and _depth < 3:
            xin = [c for c in (x.get("inner") or []) if isinstance(c, dict)]
            target = None
            for ch in [y for f in xin[:2 if x.get("kind") == "CXXOperatorCallExpr" else 1] for y in walk(f)]:
                if ch.get("kind") == "DeclRefExpr" and (ch.get("referencedDecl") or {}).get("name") in lambdas:
                    target = lambdas[(ch.get("referencedDecl") or {}).get("name")]
            if target is not None:
                bodies = [c for c in (target.get("inner") or []) if isinstance(c, dict) and c.get("kind") == "CompoundStmt"]
                if bodies:
                    return {tuple(o for o in t if o != RET) for t in stmt(bodies[-1])}
            nm = callee_name(x).split("::")[-1] if x.get("kind") == "CallExpr" else ""
            if expand and nm in expand and body_of(expand[nm]) is not None:
                sub = op_traces(expand[nm], limit, expand, _depth + 1)
                return set(sub) if sub else {()}
        return {expr_ops(n)}

    lambdas = {}
    b = body_of(fn)
    if b is None:
        return frozenset()
    res = stmt(b)
    return frozenset(tuple(o for o in t if o != RET) for t in res)


def fmt_traces(ts):
    def one(t):
        return " ".join(("loop{" + " | ".join(one(x) for x in o[1:]) + "}") if o and o[0] == "loop" else o[0] for o in t) or "(nothing)"
    return " | ".join(sorted(one(t) for t in ts))


TWIN_EXCEPTIONS = {
    "DynamicNDArray": "the writer emits the rank and then each extent in a loop; the reader reads the same bytes with ReadVector<size_t, ReadInteger>",
    "NDArray": "the writer emits each extent in a loop; the reader reads the same bytes with ReadArray<size_t, ReadInteger, N>",
    "Block": "WriteBlock writes a block of one item; ReadBlock consumes blocks of any size using current_block_remaining",
    "Monostate": "nothing is written or read",
}


def rule_serializer_twins(out, tier):
    rid = "SR2"
    out.rule(rid, "serializers.h: every yardl::binary::WriteX has a ReadX performing the same ordered sequence of stream operations (same element/key/value callbacks, "
                  "same trivially-serializable fast path, same length prefix) under the renaming Write<->Read", 14)
    roots, rc, err = dump(out.repo, "reader_writer.h")
    rel = BIN + "/serializers.h"
    if rc != 0 or not roots:
        out.undecided(rid, "clang/serializers.h", rel, "clang could not parse the headers: " + err[-300:])
        return
    for r in roots:
        annotate_lines(r)
    with open(os.path.join(out.repo, BIN, "serializers.h")) as f:
        _SRC[0] = f.read()
    fns = free_functions(roots)
    by = {}
    for name, fn in fns:
        by.setdefault(name, []).append(fn)
    table = {}
    for name in sorted(by):
        if not name.startswith("Write") or name in ("WriteHeader",):
            continue
        suffix = name[len("Write"):]
        rname = "Read" + suffix
        key = "twin/" + suffix
        if rname not in by:
            if suffix == "TriviallySerializable" or rname in by:
                pass
            out.bad(rid, key, "%s:%d" % (rel, by[name][0].get("_line", 0)), "there is a %s but no %s: what the writer emits for this shape cannot be read back" % (name, rname))
            continue
        ws, rs = by[name], by[rname]
        if len(ws) != len(rs):
            # one side merged its overloads into one template with `if constexpr` branches: the sets of operation sequences over all
            # overloads must agree
            tw = {}
            for hn, hl in by.items():
                other = ("Read" + hn[5:]) if hn.startswith("Write") else ("Write" + hn[4:]) if hn.startswith("Read") else None
                if len(hl) == 1 and (other is None or other not in by) and hn not in ("WriteHeader", "ReadHeader"):
                    tw[hn] = hl[0]
            a = frozenset(t for w in ws for t in op_traces(w, expand=tw))
            b = frozenset(t for r_ in rs for t in op_traces(r_, expand=tw))
            out.check(a == b, rid, key + "/overloads", "%s:%d" % (rel, ws[0].get("_line", 0)), "%d overloads of %s and %d of %s perform the same set of operation sequences: %s" % (len(ws), name, len(rs), rname, fmt_traces(a)),
                      "%d overloads of %s but %d of %s, and their operation sequences differ: write = [%s], read = [%s]" % (len(ws), name, len(rs), rname, fmt_traces(a), fmt_traces(b)))
            continue
        # helpers that are not themselves one half of a Write/Read pair are expanded where they are called
        twinless = {}
        for hn, hl in by.items():
            other = ("Read" + hn[5:]) if hn.startswith("Write") else ("Write" + hn[4:]) if hn.startswith("Read") else None
            if len(hl) == 1 and (other is None or other not in by) and hn not in ("WriteHeader", "ReadHeader"):
                twinless[hn] = hl[0]
        for i, (w, r) in enumerate(zip(ws, rs)):
            a, b = op_traces(w, expand=twinless), op_traces(r, expand=twinless)
            table["%s#%d" % (suffix, i)] = {"write": fmt_traces(a), "read": fmt_traces(b)}
            k2 = key if len(ws) == 1 else "%s/overload%d" % (key, i + 1)
            p = "%s:%d" % (rel, r.get("_line", 0))
            if a == b:
                out.ok(rid, k2, p, "same operations on every path: " + fmt_traces(a))
            elif suffix in TWIN_EXCEPTIONS:
                out.ok(rid, k2, p, "table exception: %s — write: %s / read: %s" % (TWIN_EXCEPTIONS[suffix], fmt_traces(a), fmt_traces(b)))
            else:
                out.bad(rid, k2, p, "the reader does not mirror the writer: write = [%s], read = [%s]" % (fmt_traces(a), fmt_traces(b)))
    out.tables["serializer_twins"] = table


ACCUMULATING = {"emplace", "insert", "push_back", "emplace_back", "insert_or_assign", "try_emplace", "append", "operator+=", "operator|="}
OVERWRITING = {"resize", "clear", "assign", "operator=", "reset"}
OVERWRITE_EXCEPTIONS = {
    "ReadBlocksIntoVector": "batch read: fills the destination up to its capacity across block boundaries, grows it only as needed and trims it to the number of items read before returning",
}


def rule_reader_overwrites(out, tier):
    rid = "SR1"
    out.rule(rid, "serializers.h: every ReadX fully overwrites its destination — the first thing that happens to a container destination is an unconditional "
                  "resize/clear/assignment (or it is handed whole to another reader); nothing is accumulated into a reused destination", 8)
    roots, rc, err = dump(out.repo, "reader_writer.h")
    rel = BIN + "/serializers.h"
    if rc != 0 or not roots:
        out.undecided(rid, "clang/serializers.h", rel, "clang could not parse the headers: " + err[-300:])
        return
    for r in roots:
        annotate_lines(r)
    with open(os.path.join(out.repo, BIN, "serializers.h")) as f:
        _SRC[0] = f.read()
    for name, fn in free_functions(roots):
        if not name.startswith("Read") or name in ("ReadHeader",):
            continue
        ps = params_of(fn)
        if not ps:
            continue
        dest = ps[-1]
        dtype = (dest.get("type") or {}).get("qualType", "")
        dname = dest.get("name")
        if not any(t in dtype for t in ("std::vector", "unordered_map", "std::string", "std::optional", "std::array", "NDArray")) or "&" not in dtype:
            continue
        key = "%s/destination %s" % (name, dname)
        line = fn.get("_line", 0)
        if name in OVERWRITE_EXCEPTIONS:
            out.ok(rid, key, "%s:%d" % (rel, line), "table exception: " + OVERWRITE_EXCEPTIONS[name])
            continue
        fixed = "std::array" in dtype or "FixedNDArray" in dtype
        # On every path through the reader, the first operation that touches the destination is classified
        # (the shape of the tests does not matter: if/else, early return, negated condition)
        cp = CxxPaths({})
        _FULL[0] = True
        try:
            paths = [q for q in cp.paths(fn) if q.outcome != "throw"]
        finally:
            _FULL[0] = False
        if cp.overflow or not paths:
            out.undecided(rid, key, "%s:%d" % (rel, line), "cannot enumerate the paths of " + name)
            continue
        word = re.compile(r"(?<![\w.:>])%s(?![\w])" % re.escape(dname))
        neutral = ("data", "size", "has_value", "begin", "end", "empty", "capacity", "cbegin", "cend")

        def classify(kind, t):
            """overwrite | accumulate | element | neutral | None (does not touch the destination)"""
            if not word.search(t):
                return None, ""
            u = t.strip()
            m = re.match(r"^%s\s*(?:\.|->)\s*(\w+)\(" % re.escape(dname), u)
            if m:
                nm = m.group(1)
                if nm in OVERWRITING:
                    return "overwrite", nm
                if nm in ACCUMULATING:
                    return "accumulate", nm
                if nm in neutral:
                    return "neutral", nm
                return "element", nm
            if re.match(r"^%s\s*=[^=]" % re.escape(dname), u) or re.match(r"^operator=\(\s*%s\s*," % re.escape(dname), u):
                return "overwrite", "operator="
            m = re.match(r"^operator(\+=|\|=)\(\s*%s\s*," % re.escape(dname), u) or re.match(r"^%s\s*(\+=|\|=)" % re.escape(dname), u)
            if m:
                return "accumulate", "operator" + m.group(1)
            m = re.match(r"^([\w:.<>&, ]+?)\((.*)\)$", u, re.S)
            if m:
                cname = m.group(1).split("::")[-1].split(".")[-1]
                args = [x.strip() for x in _split_args(m.group(2))]
                if dname in args and (cname.startswith("Read") or cname.endswith("resize") or cname.endswith("Resize")):
                    return "overwrite", "handed-to:" + cname
            return "element", u[:60]

        verdict, why = True, ""
        seen = set()
        for q in paths:
            first = None
            for kind, t, _nl in q.events:
                c, what = classify(kind, t)
                if c in (None, "neutral"):
                    continue
                first = (c, what)
                break
            if any(classify(k2, t2)[0] == "accumulate" for k2, t2, _ in q.events) and (first is None or first[0] != "overwrite"):
                verdict, why = False, "the destination is accumulated into (%s) on a path where it was not cleared, resized or assigned first: entries of a previously read value survive in a reused destination" % ", ".join(
                    classify(k2, t2)[1] for k2, t2, _ in q.events if classify(k2, t2)[0] == "accumulate")
                break
            if first is None:
                if fixed:
                    seen.add("fixed-size destination")
                    continue
                verdict, why = False, "a path through %s (%s) returns without assigning, clearing or resizing the destination: a reused destination keeps the previous value" % (
                    name, " && ".join(("" if v else "!") + "(" + t + ")" for t, v in q.lits) or "unconditional")
                break
            if first[0] == "overwrite":
                seen.add("first operation: " + first[1])
                continue
            if first[0] == "element" and fixed:
                seen.add("fixed-size destination: elements assigned in place")
                continue
            verdict, why = False, "elements of the destination are written (%s) on a path where it was not resized, cleared or assigned first" % first[1]
            break
        if verdict:
            out.ok(rid, key, "%s:%d" % (rel, line), "%d paths; %s" % (len(paths), "; ".join(sorted(seen))))
        else:
            out.bad(rid, key, "%s:%d" % (rel, line), why)


def _split_args(s):
    res, d, cur = [], 0, ""
    for ch in s:
        if ch in "(<[{":
            d += 1
        elif ch in ")>]}":
            d -= 1
        if ch == "," and d == 0:
            res.append(cur)
            cur = ""
        else:
            cur += ch
    if cur.strip():
        res.append(cur)
    return res


# -------------------------------------------------------------------------------------
# Path conditions of (simple) C++ functions: every path as its literals (condition text, value),
# events (calls, increments/decrements, throws) in order and outcome. Free functions of the same
# header called with the tracked arguments are expanded in place; locals initialised once are
# substituted in condition texts. Loops are taken zero times or once.
# -------------------------------------------------------------------------------------

class CxxPath:
    def __init__(self, lits=None, events=None, outcome="fall", env=None, ret=None):
        self.lits = lits or []      # (text, bool)
        self.events = events or []  # (kind, text, number of literals known)
        self.outcome = outcome      # fall | return | throw
        self.env = env or {}
        self.ret = ret

    def ext(self, lits=None, events=None, outcome=None, env=None, ret=None):
        return CxxPath(self.lits + (lits or []), self.events + (events or []), outcome or self.outcome, dict(self.env, **(env or {})), ret if ret is not None else self.ret)

    def expand(self, t):
        for _ in range(3):
            new = t
            for name, val in self.env.items():
                new = re.sub(r"(?<![\w.:])%s(?![\w(])" % re.escape(name), "(" + val + ")", new)
            if new == t:
                break
            t = new
        return t

    def facts(self, upto=None):
        """normalised comparisons known on the path: (left, op, right) with op in == != < <= > >=, value folded in"""
        res = []
        neg = {"==": "!=", "!=": "==", "<": ">=", ">=": "<", ">": "<=", "<=": ">"}
        for t, val in self.lits[:upto]:
            for raw in (t, self.expand(t)):
                u = raw.strip()
                while u.startswith("(") and u.endswith(")") and _balanced(u[1:-1]):
                    u = u[1:-1].strip()
                m = re.match(r"^(.*?) (==|!=|<=|>=|<|>) (.*)$", u)
                if m and _balanced(m.group(1)) and _balanced(m.group(3)):
                    op = m.group(2) if val else neg[m.group(2)]
                    res.append((m.group(1).strip(), op, m.group(3).strip()))
                else:
                    res.append((u, "true" if val else "false", ""))
        return res

    def knows_equal(self, marker, upto=None):
        return any(op == "==" and (marker in a or marker in b) for a, op, b in self.facts(upto))

    def knows_equal_whole(self, marker, upto=None):
        """equality known with `marker` itself (not an element, slice or member of it) as one operand"""
        def norm(t):
            t = t.replace(" ", "")
            while t.startswith("(") and t.endswith(")") and _balanced(t[1:-1]):
                t = t[1:-1]
            return t
        want = norm(marker)
        return any(op == "==" and (norm(a) == want or norm(b) == want) for a, op, b in self.facts(upto))

    def knows_positive(self, markers, upto=None):
        """some quantity named by one of the markers is known to be > 0"""
        zero, one = ("0", "0U", "0u"), ("1", "1U", "1u")
        for a, op, b in self.facts(upto):
            a2, b2 = a.replace(" ", ""), b.replace(" ", "")
            for m in markers:
                mm = m.replace(" ", "")
                if mm in a2 and ((op in (">", "!=") and b2 in zero) or (op == ">=" and b2 in one)):
                    return True
                if mm in b2 and ((op in ("<", "!=") and a2 in zero) or (op == "<=" and a2 in one)):
                    return True
        return False

    def knows_zero(self, var, upto=None):
        for a, op, b in self.facts(upto):
            a2, b2 = a.replace(" ", "").strip("()"), b.replace(" ", "").strip("()")
            if op == "==" and ((a2 == var and b2 in ("0", "0U")) or (b2 == var and a2 in ("0", "0U"))):
                return True
            # unsigned: `x <= 0`, `x < 1`, `0 >= x`, `1 > x` all mean zero
            if (a2 == var and ((op == "<=" and b2 in ("0", "0U")) or (op == "<" and b2 in ("1", "1U")))) or \
               (b2 == var and ((op == ">=" and a2 in ("0", "0U")) or (op == ">" and a2 in ("1", "1U")))):
                return True
            if op == "false" and a2 == var:
                return True
        return False


def _balanced(s):
    d = 0
    for ch in s:
        if ch == "(":
            d += 1
        elif ch == ")":
            d -= 1
            if d < 0:
                return False
    return d == 0


def ret_bool(p):
    """the boolean a path returns, when it is a literal or a condition whose value the path knows"""
    r = (p.ret or "").strip()
    if r in ("true", "false"):
        return r == "true"
    rx = p.expand(r).replace(" ", "")
    for t, val in p.lits:
        if t.replace(" ", "") == r.replace(" ", "") or p.expand(t).replace(" ", "") == rx:
            return val
    return None


class CxxPaths:
    def __init__(self, funcs, limit=256):
        self.funcs = funcs  # name -> decl (free functions that may be expanded)
        self.limit = limit
        self.overflow = False
        self.lambdas = {}  # local name -> LambdaExpr (closures defined in the function under analysis, expanded at their calls)

    def split(self, cond, val):
        k = cond.get("kind")
        inner = [c for c in (cond.get("inner") or []) if isinstance(c, dict)]
        if k in ("ImplicitCastExpr", "ParenExpr", "ExprWithCleanups", "MaterializeTemporaryExpr") and inner:
            return self.split(inner[-1], val)
        if k == "UnaryOperator" and cond.get("opcode") == "!" and inner:
            return self.split(inner[0], not val)
        if k == "BinaryOperator" and cond.get("opcode") == "&&" and val:
            return self.split(inner[0], True) + self.split(inner[1], True)
        if k == "BinaryOperator" and cond.get("opcode") == "||" and not val:
            return self.split(inner[0], False) + self.split(inner[1], False)
        return [(txt(cond), val)]

    def expr_events(self, n, nl, depth, path):
        """events of an expression in evaluation order; calls of expandable helpers return their paths instead"""
        evs = []

        def visit(x):
            k = x.get("kind")
            inner = [c for c in (x.get("inner") or []) if isinstance(c, dict)]
            if k == "LambdaExpr":
                return
            if k == "CXXThrowExpr":
                evs.append(("throw", txt(x), nl))
                return
            if k in ("CallExpr", "CXXMemberCallExpr", "CXXOperatorCallExpr"):
                for ch in inner[1:]:
                    visit(ch)
                evs.append(("call", txt(x), nl))
                return
            if k == "UnaryOperator" and x.get("opcode") in ("--", "++"):
                evs.append(("step", txt(x).replace(" ", ""), nl))
            if k == "CompoundAssignOperator":
                evs.append(("step", txt(x).replace(" ", ""), nl))
            if k == "BinaryOperator" and x.get("opcode") == "=":
                evs.append(("assign", txt(x), nl))
            for ch in inner:
                visit(ch)

        visit(n)
        return evs

    def helper_call(self, st):
        """a statement that is just a call of an expandable free function: (decl, call node)"""
        x = st
        while x.get("kind") in ("ExprWithCleanups", "ImplicitCastExpr", "ParenExpr") and x.get("inner"):
            x = x["inner"][-1]
        if x.get("kind") == "CallExpr":
            name = callee_name(x).split("::")[-1]
            if name in self.funcs:
                return self.funcs[name], x
        if x.get("kind") in ("CXXOperatorCallExpr", "CallExpr") and self.lambdas:
            # `name(args)` on a local closure (a plain CallExpr on the variable inside a template)
            first = [c for c in (x.get("inner") or []) if isinstance(c, dict)][:2 if x.get("kind") == "CXXOperatorCallExpr" else 1]
            for ch in [y for f in first for y in walk(f)]:
                if ch.get("kind") == "DeclRefExpr":
                    nm = (ch.get("referencedDecl") or {}).get("name")
                    if nm in self.lambdas:
                        return self.lambdas[nm], x
        return None, None

    def block(self, stmts, start, depth):
        paths = [start]
        for st in stmts:
            nxt = []
            for p in paths:
                if p.outcome != "fall":
                    nxt.append(p)
                else:
                    nxt += self.stmt(st, p, depth)
            paths = nxt
            if len(paths) > self.limit:
                self.overflow = True
                return paths[: self.limit]
        return paths

    def stmt(self, n, p, depth):
        k = n.get("kind")
        inner = [c for c in (n.get("inner") or []) if isinstance(c, dict)]
        nl = len(p.lits)
        if k == "CompoundStmt":
            return self.block(inner, p, depth)
        if k == "IfStmt":
            # inner: [init?] cond then [else]; clang lists cond first unless there is an init statement / condition variable
            parts = inner
            if n.get("hasInit") or n.get("hasVar"):
                parts = inner[1:] if n.get("hasInit") else inner
            cond = parts[0]
            then = parts[1] if len(parts) > 1 else None
            els = parts[2] if len(parts) > 2 else None
            base = p.ext(events=self.expr_events(cond, nl, depth, p))
            res = []
            for val, body in ((True, then), (False, els)):
                q = base.ext(lits=self.split(cond, val))
                res += self.stmt(body, q, depth) if body is not None else [q]
            return res
        if k in ("ForStmt", "WhileStmt", "CXXForRangeStmt", "DoStmt"):
            body = inner[-1] if inner else None
            once = self.stmt(body, p, depth) if body is not None else [p]
            return once + [p]
        if k == "CXXTryStmt":
            # the protected block, and — from its start — each handler (an exception may leave the block anywhere)
            res = []
            if inner:
                res += self.stmt(inner[0], p, depth)
            for h in inner[1:]:
                if h.get("kind") == "CXXCatchStmt":
                    hb = [c for c in (h.get("inner") or []) if isinstance(c, dict) and c.get("kind") == "CompoundStmt"]
                    if hb:
                        res += self.stmt(hb[-1], p, depth)
            return res
        if k == "ReturnStmt":
            q = p.ext(events=self.expr_events(n, nl, depth, p), outcome="return", ret=txt(inner[0]) if inner else "")
            return [q]
        if k == "DeclStmt":
            q = p
            for d in inner:
                if d.get("kind") == "VarDecl":
                    init = [c for c in (d.get("inner") or []) if isinstance(c, dict) and c.get("kind") not in ("FullComment",)]
                    if init:
                        lam = [y for y in walk(init[-1]) if y.get("kind") == "LambdaExpr"]
                        if lam and d.get("name"):
                            self.lambdas[d.get("name")] = lam[0]
                            continue
                        q = q.ext(events=self.expr_events(init[-1], nl, depth, q), env={d.get("name", "?"): txt(init[-1])})
            return [q]
        # expression statement: expandable helper?
        fn, call = self.helper_call(n)
        if fn is not None and depth < 3:
            if fn.get("kind") == "LambdaExpr":
                # the closure's call operator carries the parameters and the body
                ops = [y for y in walk(fn) if y.get("kind") == "CXXMethodDecl" and y.get("name") == "operator()"]
                lam_params = [c.get("name") for c in params_of(ops[0])] if ops else []
                bodies = [c for c in (fn.get("inner") or []) if isinstance(c, dict) and c.get("kind") == "CompoundStmt"]
                if not bodies:
                    return [p.ext(events=self.expr_events(n, nl, depth, p))]
                args = [txt(a) for a in (call.get("inner") or [])[(2 if call.get("kind") == "CXXOperatorCallExpr" else 1):]]
                env = {prm: a for prm, a in zip(lam_params, args) if prm and prm != a}
                res = []
                for q in self.block([c for c in (bodies[-1].get("inner") or []) if isinstance(c, dict)], p.ext(env=env), depth + 1):
                    res.append(CxxPath(q.lits, q.events, "fall" if q.outcome in ("fall", "return") else q.outcome, q.env, p.ret))
                return res
            params = [c.get("name") for c in params_of(fn)]
            args = [txt(a) for a in (call.get("inner") or [])[1:]]
            env = {}
            for prm, a in zip(params, args):
                if prm and prm != a:
                    env[prm] = a
            res = []
            b = body_of(fn)
            for q in self.block([c for c in (b.get("inner") or []) if isinstance(c, dict)], p.ext(env=env), depth + 1):
                res.append(CxxPath(q.lits, q.events, "fall" if q.outcome in ("fall", "return") else q.outcome, q.env, p.ret))
            return res
        evs = self.expr_events(n, nl, depth, p)
        if any(e[0] == "throw" for e in evs):
            return [p.ext(events=evs, outcome="throw")]
        # a plain assignment of a local keeps the substitution current
        return [p.ext(events=evs)]

    def paths(self, fn):
        b = body_of(fn)
        if b is None:
            return []
        return self.block([c for c in (b.get("inner") or []) if isinstance(c, dict)], CxxPath(), 0)


def rule_cxx_header(out, tier):
    rid = "SR3"
    out.rule(rid, "header.h: WriteHeader writes magic, fixed-width version, schema; ReadHeader compares the magic bytes and the version with `!=` and throws on mismatch "
                  "before reading the schema; BinaryReader constructors store ReadHeader's result in schema_read_", 5)
    roots, rc, err = dump(out.repo, "reader_writer.h")
    rel = BIN + "/header.h"
    if rc != 0 or not roots:
        out.undecided(rid, "clang/header.h", rel, "clang could not parse the headers: " + err[-300:])
        return
    for r in roots:
        annotate_lines(r)
    with open(os.path.join(out.repo, BIN, "header.h")) as f:
        _SRC[0] = f.read()
    fns = dict(free_functions(roots))
    wh, rh = fns.get("WriteHeader"), fns.get("ReadHeader")
    if wh is None or rh is None:
        out.undecided(rid, "WriteHeader/ReadHeader", rel, "functions not found")
        return
    helpers = {k: v for k, v in fns.items() if k not in ("WriteHeader", "ReadHeader") and not k.startswith(("Write", "Read"))}
    wops = []
    for x in walk(body_of(wh)):
        if x.get("kind") in ("CXXMemberCallExpr", "CallExpr"):
            nm = callee_name(x).split("::")[-1]
            if nm in ("WriteBytes", "WriteFixedInteger", "WriteString"):
                blob = json.dumps((x.get("inner") or [])[1:])
                what = "MAGIC_BYTES" if "MAGIC_BYTES" in blob else "kBinaryFormatVersionNumber" if "kBinaryFormatVersionNumber" in blob else "schema" if '"schema"' in blob else "?"
                wops.append(nm + "(" + what + ")")
    okw = wops == ["WriteBytes(MAGIC_BYTES)", "WriteFixedInteger(kBinaryFormatVersionNumber)", "WriteString(schema)"]
    out.check(okw, rid, "WriteHeader/order", "%s:%d" % (rel, wh.get("_line", 0)), "magic, version, schema: " + " ".join(wops), "header is not written as magic, version, schema: " + " ".join(wops))
    # ReadHeader: on every path that does not throw, the schema is read only after the magic bytes and the
    # version were found equal to the expected values (whatever the tests look like, helpers expanded)
    cp = CxxPaths(helpers)
    ok_paths = [p for p in cp.paths(rh) if p.outcome != "throw"]
    pos_rh = "%s:%d" % (rel, rh.get("_line", 0))
    if cp.overflow or not ok_paths:
        out.undecided(rid, "ReadHeader/paths", pos_rh, "cannot enumerate the paths of ReadHeader")
    else:
        order_ok = True
        for which, marker in (("magic", "MAGIC_BYTES"), ("version", "kBinaryFormatVersionNumber")):
            good = True
            for p in ok_paths:
                upto = None
                for kind, t, nl in p.events:
                    if kind == "call" and "ReadString" in t:
                        upto = nl
                        break
                if upto is None:
                    order_ok = False
                    continue
                if not p.knows_equal_whole(marker, upto):
                    if p.knows_equal_whole(marker):
                        order_ok = False
                    else:
                        good = False
            out.check(good, rid, "ReadHeader/%s compared with != and throws" % which, pos_rh, "mismatch throws",
                      "ReadHeader can return without the %s having been found equal to %s: some foreign headers are accepted" % (which, marker))
        out.check(order_ok, rid, "ReadHeader/order", pos_rh, "magic check, version check, then the schema is read",
                  "ReadHeader does not check magic and version before reading the schema")
    # BinaryReader constructors
    cls = find_class(roots, "BinaryReader")
    n_ctor, n_ok = 0, 0
    if cls is not None:
        for name, fn in functions_in(cls):
            if fn.get("kind") != "CXXConstructorDecl":
                continue
            n_ctor += 1
            t = json.dumps(body_of(fn))
            if "ReadHeader" in t and "schema_read_" in t:
                n_ok += 1
    out.check(n_ctor >= 2 and n_ok == n_ctor, rid, "BinaryReader/constructors read the header", BIN + "/reader_writer.h",
              "%d constructors assign schema_read_ = ReadHeader(stream_)" % n_ok, "%d of %d BinaryReader constructors read and keep the header's schema" % (n_ok, n_ctor))


def rule_blocks(out, tier):
    rid = "SR4"
    out.rule(rid, "serializers.h stream blocks: WriteBlock writes the count 1 and then the element; ReadBlock refills current_block_remaining only when it is 0, "
                  "treats a count of 0 as the end of the stream (returns false without touching the destination) and decrements by one per item", 4)
    roots, rc, err = dump(out.repo, "reader_writer.h")
    rel = BIN + "/serializers.h"
    if rc != 0 or not roots:
        out.undecided(rid, "clang/serializers.h", rel, "clang could not parse the headers")
        return
    for r in roots:
        annotate_lines(r)
    with open(os.path.join(out.repo, BIN, "serializers.h")) as f:
        _SRC[0] = f.read()
    fns = dict(free_functions(roots))
    wb, rb = fns.get("WriteBlock"), fns.get("ReadBlock")
    if wb is None or rb is None:
        out.undecided(rid, "WriteBlock/ReadBlock", rel, "not found")
        return
    traces = op_traces(wb)
    first = None
    for x in walk(body_of(wb)):
        if x.get("kind") == "CallExpr" and callee_name(x).endswith("WriteInteger"):
            first = txt((x.get("inner") or [])[2]) if len(x.get("inner") or []) > 2 else None
            # a named constant (`constexpr unsigned elements_in_block = 1U;`): its initialiser
            for v in walk(body_of(wb)):
                if v.get("kind") == "VarDecl" and v.get("name") == first and "const" in ((v.get("type") or {}).get("qualType", "") + (" constexpr" if v.get("constexpr") else "")):
                    init = [c for c in (v.get("inner") or []) if isinstance(c, dict)]
                    if init:
                        first = txt(init[-1])
            break
    out.check(traces == frozenset({(("Integer",), ("Element",))}) and first in ("1", "1U"), rid, "WriteBlock/count then element", "%s:%d" % (rel, wb.get("_line", 0)),
              "writes the block count 1, then the element", "WriteBlock does not write `1` followed by the element: ops=%s count=%s" % (fmt_traces(traces), first))
    # ReadBlock on its paths (helpers that are not serializer routines expanded in place)
    helpers = {k: v for k, v in fns.items() if not re.match(r"^(Write|Read)(Integer|FloatingPoint|String|Date|Time|DateTime|Optional|Vector|Array|DynamicNDArray|NDArray|FixedNDArray|Map|Monostate|Enum|Flags|Block|BlocksIntoVector|TriviallySerializable)$", k)}
    cp = CxxPaths(helpers)
    # the block counter is the `size_t&` parameter of ReadBlock, whatever it is called
    var = "current_block_remaining"
    for q in params_of(rb):
        if ((q.get("type") or {}).get("qualType", "")).replace(" ", "") in ("size_t&", "std::size_t&", "unsignedlong&") and q.get("name"):
            var = q.get("name")
    paths = cp.paths(rb)
    pos_rb = "%s:%d" % (rel, rb.get("_line", 0))
    if cp.overflow or not paths:
        out.undecided(rid, "ReadBlock/paths", pos_rb, "cannot enumerate the paths of ReadBlock")
        return
    ok_refill, ok_end, ok_dec, n_refill = True, True, True, 0
    for p in paths:
        refill_at = None
        for i, (kind, t, nl) in enumerate(p.events):
            tt = p.expand(t).replace(" ", "")
            if kind == "call" and "ReadInteger(stream," + var in tt:
                n_refill += 1
                refill_at = (i, nl)
                if not p.knows_zero(var, nl):
                    ok_refill = False
        reads_elem = any(kind == "call" and t.startswith("ReadElement(") for kind, t, nl in p.events)
        if refill_at is not None:
            # after the refill: a count of zero ends the stream without reading an element
            later = CxxPath(p.lits[refill_at[1]:], [], p.outcome, p.env)
            if later.knows_zero(var):
                if reads_elem or p.outcome != "return" or ret_bool(p) is not False:
                    ok_end = False
        if reads_elem:
            decs = [t for kind, t, nl in p.events if kind == "step" and var in t]
            if decs not in ([var + "--"], ["--" + var], [var + "-=1"]):
                ok_dec = False
            if p.outcome == "return" and ret_bool(p) is not True:
                ok_dec = False
    # some path must exist on which a zero count is recognised
    sees_zero = any(p.outcome == "return" and ret_bool(p) is False for p in paths)
    out.check(ok_refill and n_refill > 0, rid, "ReadBlock/refill only when empty", pos_rb, "a new block count is read only when the count is 0", "ReadBlock does not refill the block count under `%s == 0`" % var)
    out.check(ok_end and sees_zero, rid, "ReadBlock/zero count ends the stream", pos_rb, "a block count of 0 returns false", "a zero block count is not treated as the end of the stream")
    out.check(ok_dec, rid, "ReadBlock/decrement by one", pos_rb, "one item per call", "the block count is not decremented by exactly one per item read")
    # The generated callers treat `current_block_remaining == 0` after a batch read as the end of the stream. So every
    # routine that consumes items of a block must never return with the count at zero unless the zero was READ from the
    # stream: after the last decrement on a path there is either a refill (ReadInteger into the count) or the path knows
    # the count is still positive.
    for fname, fn in sorted(fns.items()):
        ps = params_of(fn)
        if not fname.startswith("Read"):
            continue
        cnt = [q.get("name") for q in ps if ((q.get("type") or {}).get("qualType", "")).replace(" ", "") in ("size_t&", "std::size_t&", "unsignedlong&") and q.get("name")]
        if len(cnt) != 1:
            continue
        var = cnt[0]
        if not ((fn.get("type") or {}).get("qualType", "")).startswith("void"):
            continue  # a routine that reports the end of the stream through its result is judged on that (above)
        cp2 = CxxPaths(helpers)
        pths = [q for q in cp2.paths(fn) if q.outcome != "throw"]
        posf = "%s:%d" % (rel, fn.get("_line", 0))
        if cp2.overflow or not pths:
            out.undecided(rid, "%s/paths" % fname, posf, "cannot enumerate the paths of %s" % fname)
            continue
        bad = None
        for q in pths:
            last_dec = None
            refilled_after = False
            for kind, t, nl in q.events:
                tt = t.replace(" ", "")
                if kind == "step" and re.match(r"^(--)?%s(--|-=)" % var, tt):
                    last_dec, refilled_after = nl, False
                elif kind == "call" and "ReadInteger(stream," + var in q.expand(t).replace(" ", ""):
                    refilled_after = True
            if last_dec is None or refilled_after:
                continue
            later = CxxPath(q.lits[last_dec:], [], q.outcome, q.env)
            if not later.knows_positive((var,)):
                bad = q
                break
        out.check(bad is None, rid, "%s/count zero only when read from the stream" % fname, posf, "after the last decrement every path refills the count or knows it is positive",
                  "%s can return with current_block_remaining decremented to zero without having read the next block header (path: %s): the caller takes the zero for the end-of-stream marker, "
                  "drops the rest of the stream and the next step reads block data as its own" % (fname, " && ".join(("" if v else "!") + "(" + t + ")" for t, v in (bad.lits if bad else [])) or "-"))


def rule_output_order(out, tier):
    rid = "CB3"
    out.rule(rid, "coded_stream.h CodedOutputStream: bytes reach the underlying stream in the order they were written — every stream_.write(...) either writes the staging "
                  "buffer itself (the flush) or is preceded on its path by FlushBuffer() with no store into the buffer in between (a direct write that overtakes "
                  "buffered bytes puts a payload in front of its own length prefix and of everything written before it)", 1)
    roots, rc, err = dump(out.repo, "coded_stream.h")
    rel = BIN + "/coded_stream.h"
    if rc != 0 or not roots:
        out.undecided(rid, "clang/coded_stream.h", rel, "clang could not parse the header: " + err[-300:])
        return
    for r in roots:
        annotate_lines(r)
    with open(os.path.join(out.repo, BIN, "coded_stream.h")) as f:
        _SRC[0] = f.read()
    cls = find_class(roots, "CodedOutputStream")
    if cls is None:
        out.undecided(rid, "CodedOutputStream", rel, "class not found in the AST")
        return
    n = 0
    for name, fn in functions_in(cls):
        if body_of(fn) is None:
            continue
        cp = CxxPaths({})
        _FULL[0] = True
        try:
            paths = cp.paths(fn)
        finally:
            _FULL[0] = False
        sites = {}
        for q in paths:
            last = None  # "flush" | "store" | None since entry
            for kind, t, _nl in q.events:
                u = t.replace(" ", "")
                if kind == "call" and "stream_.write(" in u:
                    direct = "buffer_.data()" not in u and "buffer_" not in u.split("stream_.write(", 1)[1]
                    if direct:
                        ok = last == "flush"
                        sites[t[:80]] = sites.get(t[:80], True) and ok
                    continue
                if kind == "call" and re.search(r"(?<![\w.])FlushBuffer\(", u):
                    last = "flush"
                elif "buffer_ptr_" in u and kind in ("call", "step", "assign") and "RemainingBufferSpace" not in u:
                    last = "store"
                elif kind == "call" and re.match(r"^(this->)?Write\w*\(", u):
                    last = "store"
        for t, ok in sorted(sites.items()):
            n += 1
            out.check(ok, rid, "CodedOutputStream.%s/direct stream write" % name, "%s:%d" % (rel, fn.get("_line", 0)), "preceded by FlushBuffer() on every path",
                      "`%s` hands bytes to the stream while earlier bytes may still sit in the staging buffer: they are overtaken" % t)
        if cp.overflow:
            out.undecided(rid, "CodedOutputStream.%s/paths" % name, "%s:%d" % (rel, fn.get("_line", 0)), "too many paths")
    # the flush itself is the one place that writes the buffer
    fl = dict(functions_in(cls)).get("FlushBuffer")
    out.check(fl is not None and "stream_" in json.dumps(fl)[:200000] and "write" in json.dumps(fl)[:200000], rid, "CodedOutputStream.FlushBuffer/writes the buffer",
              "%s:%d" % (rel, (fl or {}).get("_line", 0)), "FlushBuffer hands the staging buffer to the stream (%d direct writes elsewhere)" % n, "FlushBuffer does not write to the stream")


def rule_fill_loops_end(out, tier):
    rid = "CB4"
    out.rule(rid, "coded_stream.h CodedInputStream: every loop that refills the buffer while it still needs bytes calls a refill routine that throws once the underlying "
                  "stream is exhausted (otherwise a truncated stream makes the loop spin on an empty buffer instead of reporting the end of the stream)", 1)
    roots, rc, err = dump(out.repo, "coded_stream.h")
    rel = BIN + "/coded_stream.h"
    if rc != 0 or not roots:
        out.undecided(rid, "clang/coded_stream.h", rel, "clang could not parse the header: " + err[-300:])
        return
    for r in roots:
        annotate_lines(r)
    with open(os.path.join(out.repo, BIN, "coded_stream.h")) as f:
        _SRC[0] = f.read()
    cls = find_class(roots, "CodedInputStream")
    if cls is None:
        out.undecided(rid, "CodedInputStream", rel, "class not found in the AST")
        return
    fns = dict(functions_in(cls))

    def member_calls(n):
        res = []
        for x in walk(n):
            if x.get("kind") in ("CXXMemberCallExpr", "CallExpr"):
                nm = callee_name(x).split("::")[-1]
                if nm in fns:
                    res.append(nm)
        return res

    memo = {}

    def can_throw(name, depth=0):
        if name in memo:
            return memo[name]
        memo[name] = False
        fn = fns.get(name)
        if fn is None or body_of(fn) is None or depth > 4:
            return False
        res = any(x.get("kind") == "CXXThrowExpr" for x in walk(body_of(fn)))
        if not res:
            res = any(can_throw(c, depth + 1) for c in member_calls(body_of(fn)))
        memo[name] = res
        return res

    def refills(name, depth=0):
        """the member function reads from the underlying stream (directly or through members)"""
        fn = fns.get(name)
        if fn is None or body_of(fn) is None or depth > 4:
            return False
        for x in walk(body_of(fn)):
            if x.get("kind") in ("CXXMemberCallExpr", "CallExpr") and callee_name(x).split("::")[-1] in ("read", "readsome") and "stream_" in json.dumps(x)[:4000]:
                return True
        return any(refills(c, depth + 1) for c in member_calls(body_of(fn)) if c != name)

    n = 0
    for name, fn in functions_in(cls):
        b = body_of(fn)
        if b is None:
            continue
        for x in walk(b):
            if x.get("kind") not in ("WhileStmt", "ForStmt", "DoStmt"):
                continue
            for callee in sorted(set(member_calls(x))):
                if not refills(callee):
                    continue
                n += 1
                out.check(can_throw(callee), rid, "CodedInputStream.%s/loop calling %s" % (name, callee), "%s:%d" % (rel, x.get("_line", fn.get("_line", 0))),
                          "%s can throw when the stream is exhausted" % callee,
                          "%s never throws: at the end of a truncated stream the loop keeps calling it, gets no bytes and never terminates" % callee)
    if n == 0:
        out.undecided(rid, "CodedInputStream/refill loops", rel, "no loop calling a refill routine found")


def rule_stream_reads_counted(out, tier):
    rid = "CB5"
    out.rule(rid, "coded_stream.h CodedInputStream: after every call that consumes input from stream_ (read, ignore, get, getline, readsome, seekg, peek) the number of bytes actually obtained "
                  "(stream_.gcount()) or the failure state (fail(), operator!) is taken on every path before "
                  "the method returns — a read or skip whose outcome is never looked at cannot notice that the stream ended inside the requested range", 1)
    roots, rc, err = dump(out.repo, "coded_stream.h")
    rel = BIN + "/coded_stream.h"
    if rc != 0 or not roots:
        out.undecided(rid, "clang/coded_stream.h", rel, "clang could not parse the header: " + err[-300:])
        return
    for r in roots:
        annotate_lines(r)
    with open(os.path.join(out.repo, BIN, "coded_stream.h")) as f:
        _SRC[0] = f.read()
    cls = find_class(roots, "CodedInputStream")
    if cls is None:
        out.undecided(rid, "CodedInputStream", rel, "class not found in the AST")
        return
    n = 0
    for name, fn in functions_in(cls):
        if body_of(fn) is None:
            continue
        cp = CxxPaths({})
        _FULL[0] = True
        try:
            paths = cp.paths(fn)
        finally:
            _FULL[0] = False
        has_read = False
        bad = False
        for q in paths:
            pending = False
            for kind, t, _nl in q.events:
                u = t.replace(" ", "")
                if kind == "call" and re.search(r"stream_\.(read|ignore|get|getline|readsome|seekg|peek)\(", u):
                    has_read = True
                    pending = True
                elif "gcount()" in u or re.search(r"stream_\.fail\(\)|!stream_\b", u):
                    pending = False  # eof()/good() do not say how much was obtained: a short read sets them and nothing else happens
            if pending and q.outcome != "throw":
                bad = True
        if has_read:
            n += 1
            out.check(not bad and not cp.overflow, rid, "CodedInputStream.%s/stream_.read counted" % name, "%s:%d" % (rel, fn.get("_line", 0)),
                      "gcount() is taken after the read on every path",
                      "a path returns after consuming from stream_ (read / ignore / ...) without ever taking stream_.gcount() or testing the stream state: when the stream ends inside the requested bytes the destination keeps whatever it held (or the skipped field counts as read) and no error is raised")
    if n == 0:
        out.undecided(rid, "CodedInputStream/stream reads", rel, "no stream_.read call found")


def rule_trivial_trait_set(out, tier):
    rid = "TS2"
    out.rule(rid, "serializers.h: the specialisations of IsTriviallySerializable — the types whose vectors/arrays are copied to the wire as their memory image — are exactly those "
                  "whose documented element encoding IS their memory image (refs/wire.json: 1-byte integers, IEEE floats and complex on little-endian hosts, std::array / "
                  "FixedNDArray of such); anything else (enums, wider integers: varints on the wire) would be encoded differently by the batch and the per-item routines", 4)
    roots, rc, err = dump(out.repo, "reader_writer.h")
    rel = BIN + "/serializers.h"
    if rc != 0 or not roots:
        out.undecided(rid, "clang/serializers.h", rel, "clang could not parse the headers: " + err[-300:])
        return
    path = os.path.join(out.repo, BIN, "serializers.h")
    with open(path) as f:
        src = f.read()
    try:
        with open(os.path.join(os.path.dirname(os.path.dirname(os.path.abspath(__file__))), "refs", "wire.json")) as f:
            want = json.load(f).get("trivially_serializable_specialisations")
    except Exception as e:  # noqa
        want = None
    found = []
    for r in roots:
        for x in walk(r):
            if x.get("kind") == "ClassTemplatePartialSpecializationDecl" and x.get("name") == "IsTriviallySerializable":
                rg = x.get("range") or {}
                b, e = (rg.get("begin") or {}), (rg.get("end") or {})
                bo, eo = b.get("offset"), e.get("offset")
                f_ = (b.get("file") or (x.get("loc") or {}).get("file") or "")
                if bo is None or eo is None:
                    continue
                text = src[bo:eo + 1]
                m = re.search(r"struct\s+IsTriviallySerializable\s*<(.*)>\s*:\s*std::(true|false)_type", text, re.S)
                if m:
                    # compared as the set of names and numbers the condition mentions (independent of operand order and layout)
                    toks = set(re.findall(r"[A-Za-z_][A-Za-z0-9_]*|\d+", m.group(1))) - {"T", "N", "Dims", "typename", "std", "enable_if_t", "value", "size_t"}
                    found.append((" ".join(sorted(toks)), m.group(2)))
    found = sorted(set(found))
    if want is None:
        out.undecided(rid, "refs/wire.json", rel, "reference list trivially_serializable_specialisations missing")
        out.tables["trivially_serializable_specialisations"] = [list(x) for x in found]
        return
    want = sorted((a, b) for a, b in want)
    for spec, val in found:
        out.check((spec, val) in want, rid, "IsTriviallySerializable<%s>" % spec[:70], rel, "in the reference list",
                  "a specialisation of IsTriviallySerializable outside the reference list: values of these types are written as raw memory by the vector/array/batch routines "
                  "while the per-item routines (WriteEnum, WriteInteger, ...) use the documented encoding — the two halves of a stream disagree")
    for spec, val in want:
        if (spec, val) not in found:
            out.bad(rid, "IsTriviallySerializable<%s>" % spec[:70], rel, "the reference specialisation is gone or changed: types that are raw on the wire lose (or others gain) the memcpy path")


_SIGNED_BITS = {"int8_t": 8, "int16_t": 16, "int32_t": 32, "int": 32, "int64_t": 64, "long": 64, "long long": 64, "std::int32_t": 32, "std::int64_t": 64}


def rule_zigzag_width(out, tier):
    rid = "ZZ1"
    out.rule(rid, "coded_stream.h: every zig-zag encoder folds the sign with an arithmetic shift by (bit width of its argument type - 1): 31 for int32_t, 63 for int64_t; "
                  "in a template the shift amount is computed from the type, not a literal", 1)
    roots, rc, err = dump(out.repo, "coded_stream.h")
    rel = BIN + "/coded_stream.h"
    if rc != 0 or not roots:
        out.undecided(rid, "clang/coded_stream.h", rel, "clang could not parse the header: " + err[-300:])
        return
    for r in roots:
        annotate_lines(r)
    n = 0
    seen = set()
    for r in roots:
        for fn in walk(r):
            if fn.get("kind") not in ("FunctionDecl", "CXXMethodDecl") or "ZigZagEncode" not in (fn.get("name") or "") or body_of(fn) is None:
                continue
            if (fn.get("name"), fn.get("_line", 0)) in seen:
                continue
            seen.add((fn.get("name"), fn.get("_line", 0)))
            ps = params_of(fn)
            if len(ps) != 1:
                continue
            pname = ps[0].get("name")
            ptype = ((ps[0].get("type") or {}).get("qualType", "")).replace("const", "").replace("&", "").strip()
            for x in walk(body_of(fn)):
                if x.get("kind") != "BinaryOperator" or x.get("opcode") != ">>":
                    continue
                inner = [c for c in (x.get("inner") or []) if isinstance(c, dict)]
                if len(inner) != 2 or txt(inner[0]).strip("() ") != pname:
                    continue
                n += 1
                amount = txt(inner[1]).strip("() ")
                key = "%s(%s)/sign shift" % (fn.get("name"), ptype)
                posn = "%s:%d" % (rel, x.get("_line", fn.get("_line", 0)))
                if ptype in _SIGNED_BITS:
                    want = str(_SIGNED_BITS[ptype] - 1)
                    out.check(amount == want, rid, key, posn, "shifts by %s" % want,
                              "the sign of a %s is folded with `>> %s` instead of `>> %s`: values whose magnitude does not fit in %s bits are encoded as a different number" % (ptype, amount, want, amount))
                else:
                    out.check(not amount.isdigit(), rid, key, posn, "the shift amount depends on the argument type",
                              "the encoder is a template over the integer type but folds the sign with the literal `>> %s`: right for one width only — for the other instantiations "
                              "(int64_t when the literal is 31) every value of larger magnitude is mis-encoded" % amount)
    if n == 0:
        out.undecided(rid, "anchor/ZigZagEncode", rel, "no zig-zag encoder with a sign shift found")


_INT_TYPES = {"int32_t": (32, True), "uint32_t": (32, False), "int64_t": (64, True), "uint64_t": (64, False), "int": (32, True), "unsigned int": (32, False),
              "long": (64, True), "unsigned long": (64, False), "long long": (64, True), "unsigned long long": (64, False), "size_t": (64, False),
              "int16_t": (16, True), "uint16_t": (16, False), "short": (16, True), "unsigned short": (16, False)}


def _src(n, text):
    """source text of a node that lies in the header itself (no macro expansion)"""
    r = n.get("range") or {}
    b, e = r.get("begin", {}), r.get("end", {})
    if "offset" not in b or "offset" not in e:
        return ""
    return text[b["offset"]:e["offset"] + e.get("tokLen", 0)]


def _bare(t):
    return " ".join((t or "").replace("const", " ").replace("&", " ").replace("volatile", " ").split())


def rule_integer_dispatch(out, tier):
    rid = "CW1"
    out.rule(rid, "serializers.h WriteInteger/ReadInteger<T>: the varint routine receives a value of T's own signedness and of the routine's width — T itself only where "
                  "sizeof(T) is known to be width/8 (template constraint or `if constexpr (sizeof(T) == N)`; overload resolution then picks T's overload), otherwise a fixed-width "
                  "type chosen by T's signedness (`if constexpr (std::is_signed_v<T>)`, or an alias std::conditional_t<is_(un)signed_v<T>, …>) "
                  "(an unsigned 16-bit value passed as is promotes to int and is zig-zag encoded)", 6)
    roots, rc, err = dump(out.repo, "serializers.h")
    rel = BIN + "/serializers.h"
    if rc != 0 or not roots:
        out.undecided(rid, "clang/serializers.h", rel, "clang could not parse the header: " + err[-300:])
        return
    try:
        text = open(os.path.join(out.repo, rel), encoding="utf-8", errors="replace").read()
    except OSError:
        text = ""
    for r in roots:
        annotate_lines(r)
    # alias templates that choose a fixed-width type by the signedness of T
    sign_following = {}
    for m in re.finditer(r"using\s+(\w+)\s*=\s*(?:typename\s+)?std::conditional_t<\s*std::is_(un)?signed_v<\s*T\s*>\s*,\s*([\w:]+)\s*,\s*([\w:]+)\s*>", text):
        a, b = m.group(3).replace("std::", ""), m.group(4).replace("std::", "")
        if a in _INT_TYPES and b in _INT_TYPES and _INT_TYPES[a][0] == _INT_TYPES[b][0]:
            when_unsigned, when_signed = (a, b) if m.group(2) else (b, a)
            if not _INT_TYPES[when_unsigned][1] and _INT_TYPES[when_signed][1]:
                sign_following[m.group(1)] = _INT_TYPES[a][0]
    seen = set()
    n = 0
    counts = {}
    for r in roots:
        for td in walk(r):
            if td.get("kind") != "FunctionTemplateDecl" or td.get("name") not in ("WriteInteger", "ReadInteger"):
                continue
            if td.get("id") in seen:
                continue
            seen.add(td.get("id"))
            sizes = set()
            for c in td.get("inner") or []:
                if c.get("kind") == "NonTypeTemplateParmDecl":
                    sizes |= {int(x) for x in re.findall(r"sizeof\(T\) == (\d+)", (c.get("type") or {}).get("qualType", ""))}
            fd = next((c for c in td.get("inner") or [] if c.get("kind") == "FunctionDecl" and body_of(c) is not None), None)
            if fd is None or not sizes:
                continue

            def visit(node, sign, sizes):
                nonlocal n
                if not isinstance(node, dict):
                    return
                k = node.get("kind")
                inner = [c for c in (node.get("inner") or []) if isinstance(c, dict)]
                if k == "IfStmt" and node.get("isConstexpr") and inner:
                    ctext = _src(inner[0], text) or txt(inner[0]) or ""
                    if "is_signed_v" in ctext or "is_unsigned_v" in ctext:
                        pos_sign = ("is_signed_v" in ctext) != ctext.lstrip().startswith("!")
                        if len(inner) > 1:
                            visit(inner[1], pos_sign, sizes)
                        if len(inner) > 2:
                            visit(inner[2], not pos_sign, sizes)
                        return
                    ms = re.fullmatch(r"\s*\(?\s*sizeof\(T\)\s*(==|!=)\s*(\d+)\s*\)?\s*", ctext)
                    if ms:
                        nsz = int(ms.group(2))
                        eq, ne = sizes & {nsz}, sizes - {nsz}
                        if ms.group(1) == "!=":
                            eq, ne = ne, eq
                        if len(inner) > 1:
                            visit(inner[1], sign, eq)
                        if len(inner) > 2:
                            visit(inner[2], sign, ne)
                        return
                if k in ("CXXMemberCallExpr", "CallExpr") and len(inner) >= 2:
                    callee = inner[0].get("name") or ""
                    if not callee:
                        callee = _src(inner[0], text).split(".")[-1].split("->")[-1]
                    m = re.match(r"(Write|Read)VarInt(32|64)$", callee)
                    if m and sizes:
                        n += 1
                        width = int(m.group(2))
                        at = _bare((inner[1].get("type") or {}).get("qualType", ""))
                        if at in ("<dependent type>",):
                            # the written type of a dependent argument: a cast to an alias (`static_cast<Alias<T>>(value)`)
                            cast = next((y for y in walk(inner[1]) if y.get("kind") in ("CXXStaticCastExpr", "CXXFunctionalCastExpr", "CStyleCastExpr")), None)
                            if cast is not None:
                                at = _bare((cast.get("type") or {}).get("qualType", ""))
                        szs = ",".join(str(x) for x in sorted(sizes))
                        k0 = "%s<sizeof %s>/%s/%s" % (td.get("name"), szs, callee, {True: "signed", False: "unsigned", None: "any"}[sign])
                        counts[k0] = counts.get(k0, 0) + 1
                        key = k0 if counts[k0] == 1 else "%s#%d" % (k0, counts[k0])
                        posn = "%s:%d" % (rel, node.get("_line", 0))
                        alias = re.match(r"(\w+)<T>$", at)
                        if at in _INT_TYPES:
                            w, sg = _INT_TYPES[at]
                            if sign is None:
                                out.bad(rid, key, posn, "%s is called with a %s for every T of %s bytes: the %s half of those types is written with the other half's encoding "
                                        "(zig-zag for signed, plain for unsigned)" % (callee, at, szs, "unsigned" if sg else "signed"))
                            elif w != width or sg != sign:
                                out.bad(rid, key, posn, "under is_signed_v<T> == %s the routine %s receives a %s" % (sign, callee, at))
                            else:
                                out.ok(rid, key, posn, "%s receives %s where T is %s" % (callee, at, "signed" if sign else "unsigned"))
                        elif alias and alias.group(1) in sign_following:
                            out.check(sign_following[alias.group(1)] == width, rid, key, posn, "%s receives %s, a %d-bit type with T's signedness" % (callee, at, width),
                                      "%s receives %s, which is %d bits wide" % (callee, at, sign_following[alias.group(1)]))
                        elif at in ("T", "<dependent type>"):
                            if all(sz * 8 == width for sz in sizes):
                                out.ok(rid, key, posn, "T itself, and sizeof(T) is the width of the routine: T's own overload is selected")
                            else:
                                out.bad(rid, key, posn, "a T of %s bytes is handed to %s as it is: integral promotion turns a narrower T into int, the signed overload is selected and an "
                                        "unsigned value is zig-zag encoded (twice the value on the wire)" % (szs, callee))
                        else:
                            out.undecided(rid, key, posn, "argument of type `%s` not understood" % at)
                for c in inner:
                    visit(c, sign, sizes)
            visit(body_of(fd), None, sizes)
    if n == 0:
        out.undecided(rid, "anchor/WriteInteger", rel, "no varint call found in WriteInteger/ReadInteger")


def rule_shift_in_destination_type(out, tier):
    rid = "CV1"
    out.rule(rid, "coded_stream.h: where a varint is assembled (`value |= payload << shift` with a variable shift), the shift is computed in the type of the destination "
                  "(`static_cast<T>(...) << shift`), never in a narrower fixed type whose result is widened afterwards", 2)
    roots, rc, err = dump(out.repo, "coded_stream.h")
    rel = BIN + "/coded_stream.h"
    if rc != 0 or not roots:
        out.undecided(rid, "clang/coded_stream.h", rel, "clang could not parse the header: " + err[-300:])
        return
    for r in roots:
        annotate_lines(r)
    seen = set()
    n = 0
    for r in roots:
        for fn in walk(r):
            if fn.get("kind") not in ("FunctionDecl", "CXXMethodDecl") or body_of(fn) is None or fn.get("id") in seen:
                continue
            seen.add(fn.get("id"))
            for x in walk(body_of(fn)):
                if not (x.get("kind") == "CompoundAssignOperator" and x.get("opcode") in ("|=", "+=", "^=")) and not (x.get("kind") == "BinaryOperator" and x.get("opcode") == "="):
                    continue
                inner = [c for c in (x.get("inner") or []) if isinstance(c, dict)]
                if len(inner) != 2:
                    continue
                lt = _bare((inner[0].get("type") or {}).get("qualType", ""))
                wide = lt in ("T", "<dependent type>") or (lt in _INT_TYPES and _INT_TYPES[lt][0] == 64)
                if not wide:
                    continue
                for sh in walk(inner[1]):
                    if sh.get("kind") != "BinaryOperator" or sh.get("opcode") != "<<":
                        continue
                    ops = [c for c in (sh.get("inner") or []) if isinstance(c, dict)]
                    if len(ops) != 2:
                        continue
                    amount = ops[1]
                    while amount.get("kind") in ("ImplicitCastExpr", "ParenExpr") and amount.get("inner"):
                        amount = amount["inner"][0]
                    if amount.get("kind") == "IntegerLiteral":
                        continue
                    n += 1
                    st = _bare((sh.get("type") or {}).get("qualType", ""))
                    key = "%s/%s %s ... << %s" % (fn.get("name"), txt(inner[0]), x.get("opcode"), txt(ops[1]))
                    posn = "%s:%d" % (rel, sh.get("_line", 0))
                    ok = st in ("T", "<dependent type>") or (st in _INT_TYPES and _INT_TYPES[st][0] == 64) or (lt in _INT_TYPES and st == lt)
                    out.check(ok, rid, key, posn, "the shift is computed in `%s`" % st,
                              "the destination is `%s` but the shift is computed in `%s`: bits shifted beyond 32 are lost before the result is widened — every 64-bit varint above 2^32 decodes wrongly" % (lt, st))
    if n == 0:
        out.undecided(rid, "anchor/varint assembly", rel, "no `value |= x << shift` found")


def rule_varint_decoders_agree(out, tier):
    rid = "VL1"
    out.rule(rid, "coded_stream.h: the varint decoders of CodedInputStream (the fast path over a local pointer and the path that refills the buffer) leave their loops under the same tests — "
                  "the same break / return / throw guards, the refill test apart: what one accepts the other accepts, wherever in the buffer the value happens to start (a single shared decoding loop satisfies this trivially)", 1)
    roots, rc, err = dump(out.repo, "coded_stream.h")
    rel = BIN + "/coded_stream.h"
    if rc != 0 or not roots:
        out.undecided(rid, "clang/coded_stream.h", rel, "clang could not parse the header: " + err[-300:])
        return
    for r in roots:
        annotate_lines(r)
    cls = find_class(roots, "CodedInputStream")
    if cls is None:
        out.undecided(rid, "CodedInputStream", rel, "class not found in the AST")
        return

    def norm(t):
        t = re.sub(r"\s+", "", t)
        while t.startswith("(") and t.endswith(")") and _balanced(t[1:-1]):
            t = t[1:-1]
        t = re.sub(r"\b(local_)?buffer_ptr_?\b", "P", t)
        return t

    def exits(fn):
        res = []
        # explaining locals: `bool is_last_group = (byte & 0x80) == 0;`
        inits = {}
        local_names = {v.get("name") for v in walk(body_of(fn)) if v.get("kind") == "VarDecl" and v.get("name")}
        for v in walk(body_of(fn)):
            if v.get("kind") == "VarDecl" and v.get("name") and v.get("inner"):
                init = [c for c in v["inner"] if isinstance(c, dict)]
                if init:
                    inits[v["name"]] = txt(init[-1])
        for loop in walk(body_of(fn)):
            if loop.get("kind") not in ("WhileStmt", "ForStmt", "DoStmt"):
                continue
            for st in walk(loop):
                if st.get("kind") != "IfStmt":
                    continue
                parts = [c for c in (st.get("inner") or []) if isinstance(c, dict)]
                if len(parts) < 2:
                    continue
                cond, then = parts[0], parts[1]
                ct = txt(cond)
                if "buffer_end_ptr_" in ct or "Remaining" in ct or "Fill" in "".join(txt(c) for c in walk(then) if c.get("kind") in ("CallExpr", "CXXMemberCallExpr")):
                    continue  # the refill test
                bare = re.sub(r"^[!(\s]+|[)\s]+$", "", ct)
                if bare in inits:
                    ct = ct.replace(bare, "(" + inits[bare] + ")")
                # the names of locals do not matter: number them in order of appearance
                order = []
                for m in re.finditer(r"[A-Za-z_]\w*", ct):
                    if m.group(0) in local_names and m.group(0) not in order:
                        order.append(m.group(0))
                for i, nm in enumerate(order):
                    ct = re.sub(r"\b%s\b" % re.escape(nm), "v%d" % (i + 1), ct)
                kinds = set()
                for x in walk(then):
                    if x.get("kind") in ("BreakStmt", "ReturnStmt"):
                        kinds.add("leave")  # the decoders end with the loop: break and return are the same exit
                    elif x.get("kind") == "CXXThrowExpr":
                        kinds.add("throw")
                for k in sorted(kinds):
                    res.append((k, norm(ct), st.get("_line", 0)))
        return res

    fam = []
    seen = set()
    for name, fn in functions_in(cls):
        if name and re.search(r"VarInt", name) and not re.search(r"Write|Encode|Append", name) and fn.get("id") not in seen:
            seen.add(fn.get("id"))
            ex = exits(fn)
            if ex:
                fam.append((name, fn, ex))
    if not fam:
        out.undecided(rid, "anchor/varint decoders", rel, "no varint decoder with a loop found in CodedInputStream")
        return
    if len({name for name, _, _ in fam}) == 1:
        name, fn, ex = fam[0]
        out.ok(rid, "%s/single decoder" % name, "%s:%d" % (rel, fn.get("_line", 0)), "one decoding loop serves the fast path and the refill path: " + "; ".join("%s if %s" % (k, c) for k, c, _ in ex))
        return
    ref_name, ref_fn, ref = fam[0]
    ref_set = sorted((k, c) for k, c, _ in ref)
    for name, fn, ex in fam[1:]:
        cur = sorted((k, c) for k, c, _ in ex)
        extra = [e for e in ex if (e[0], e[1]) not in ref_set]
        missing = [e for e in ref if (e[0], e[1]) not in cur]
        line = (extra or missing or [(0, 0, fn.get("_line", 0))])[0][2]
        out.check(cur == ref_set, rid, "%s = %s/loop exits" % (name, ref_name), "%s:%d" % (rel, line),
                  "both leave the loop under %s" % ", ".join("%s if %s" % e for e in ref_set),
                  "%s leaves its loop under %s, %s under %s: a value that %s decodes (a maximum-length varint, say) is rejected or decoded differently when it happens to straddle a refill of the buffer" % (
                      name, "; ".join("%s if %s" % (k, c) for k, c in cur) or "no test", ref_name, "; ".join("%s if %s" % e for e in ref_set), ref_name))
    out.ok(rid, "%s/reference" % ref_name, "%s:%d" % (rel, ref_fn.get("_line", 0)), "loop exits: " + "; ".join("%s if %s" % e for e in ref_set))


def rule_pointer_offset_units(out, tier):
    rid = "CP1"
    out.rule(rid, "serializers.h: in the address handed to ReadBytes/WriteBytes, a pointer and the offset added to it count in the same unit — an element pointer plus an element "
                  "count, or a byte pointer (reinterpret_cast to char/uint8_t) plus a count multiplied by sizeof: a byte pointer plus an element count lands inside the previous block", 1)
    roots, rc, err = dump(out.repo, "serializers.h")
    rel = BIN + "/serializers.h"
    if rc != 0 or not roots:
        out.undecided(rid, "clang/serializers.h", rel, "clang could not parse the header: " + err[-300:])
        return
    for r in roots:
        annotate_lines(r)
    byte_ptr = re.compile(r"^(const )?(unsigned char|uint8_t|char|std::byte|signed char|int8_t) \*")
    n = 0
    seen = set()
    for r in roots:
        for fn in walk(r):
            if fn.get("kind") not in ("FunctionDecl", "CXXMethodDecl") or body_of(fn) is None or fn.get("id") in seen:
                continue
            seen.add(fn.get("id"))
            inits = {}
            for v in walk(body_of(fn)):
                if v.get("kind") == "VarDecl" and v.get("inner"):
                    inits[v.get("id")] = [c for c in v["inner"] if isinstance(c, dict)][-1]

            def expand(node, depth=0):
                """the expression with locals replaced by their initialisers"""
                yield node
                if node.get("kind") == "DeclRefExpr" and depth < 3:
                    tgt = (node.get("referencedDecl") or {}).get("id")
                    if tgt in inits:
                        yield from expand(inits[tgt], depth + 1)
                for c in node.get("inner") or []:
                    if isinstance(c, dict):
                        yield from expand(c, depth)

            for call in walk(body_of(fn)):
                if call.get("kind") not in ("CXXMemberCallExpr", "CallExpr"):
                    continue
                inner = [c for c in call.get("inner") or [] if isinstance(c, dict)]
                if len(inner) < 2 or inner[0].get("kind") != "MemberExpr" or inner[0].get("name") not in ("ReadBytes", "WriteBytes"):
                    continue
                for plus in expand(inner[1]):
                    if plus.get("kind") != "BinaryOperator" or plus.get("opcode") != "+":
                        continue
                    ops = [c for c in plus.get("inner") or [] if isinstance(c, dict)]
                    if len(ops) != 2:
                        continue
                    # which side is the pointer?
                    def is_ptr(o):
                        t = (o.get("type") or {}).get("qualType", "")
                        return t.endswith("*") or t == "<dependent type>" and any(x.get("kind") in ("CXXDependentScopeMemberExpr",) or x.get("name") == "data" for x in walk(o))
                    a, b = (ops[0], ops[1]) if is_ptr(ops[0]) or not is_ptr(ops[1]) else (ops[1], ops[0])
                    ptr_bytes = any(x.get("kind") in ("CXXReinterpretCastExpr", "CXXStaticCastExpr", "CStyleCastExpr") and byte_ptr.match(_bare_keep_ptr((x.get("type") or {}).get("qualType", "")))
                                    for x in expand(a))
                    off_bytes = any(x.get("kind") == "UnaryExprOrTypeTraitExpr" and x.get("name") == "sizeof" for x in expand(b))
                    n += 1
                    key = "%s/%s(%s + %s)" % (fn.get("name"), inner[0].get("name"), txt(a), txt(b))
                    posn = "%s:%d" % (rel, plus.get("_line", call.get("_line", 0)))
                    out.check(ptr_bytes == off_bytes, rid, key, posn, "pointer and offset both count %s" % ("bytes" if ptr_bytes else "elements"),
                              "the pointer counts %s but the offset added to it counts %s: the bytes of this block are stored at the wrong place of the destination — a batch that spans two "
                              "blocks is corrupted" % ("bytes" if ptr_bytes else "elements", "bytes" if off_bytes else "elements"))
    if n == 0:
        out.undecided(rid, "anchor/offset", rel, "no ReadBytes/WriteBytes with an offset address found")


def _bare_keep_ptr(t):
    return " ".join((t or "").replace("volatile", " ").split())


_VARINT_ALLOWED = {
    ">": {0x7F}, ">=": {0x80}, "<": {0x80}, "<=": {0x7F}, "==": {0}, "!=": {0},
    "|": {0x80}, "|=": {0x80}, "&": {0x7F, 0x80, 1}, "&=": {0x7F},
    ">>": {7, 1}, ">>=": {7}, "<<": {1, 7}, "<<=": {7}, "+=": {7}, "+": {1, 7}, "-": {1},
}


def rule_varint_constants(out, tier):
    rid = "VC1"
    out.rule(rid, "coded_stream.h: every integer literal the varint / zig-zag routines combine with a value is the one the encoding defines — groups of 7 bits (mask 0x7F, "
                  "shift 7), continuation bit 0x80, zig-zag by one bit (sign shifts 31/63 in the ZigZag routines only)", 12)
    roots, rc, err = dump(out.repo, "coded_stream.h")
    rel = BIN + "/coded_stream.h"
    if rc != 0 or not roots:
        out.undecided(rid, "clang/coded_stream.h", rel, "clang could not parse the header: " + err[-300:])
        return
    for r in roots:
        annotate_lines(r)
    seen = set()
    n = 0
    counts = {}
    for r in roots:
        for fn in walk(r):
            name = fn.get("name") or ""
            if fn.get("kind") not in ("FunctionDecl", "CXXMethodDecl") or body_of(fn) is None or not re.search(r"VarInt|ZigZag", name) or (name, fn.get("_line")) in seen:
                continue
            seen.add((name, fn.get("_line")))
            for x in walk(body_of(fn)):
                if x.get("kind") not in ("BinaryOperator", "CompoundAssignOperator"):
                    continue
                op = x.get("opcode")
                if op not in _VARINT_ALLOWED:
                    continue
                ops = [c for c in (x.get("inner") or []) if isinstance(c, dict)]
                if len(ops) != 2:
                    continue

                def lit(o):
                    while o.get("kind") in ("ImplicitCastExpr", "ParenExpr", "CXXStaticCastExpr", "ConstantExpr") and o.get("inner"):
                        o = [c for c in o["inner"] if isinstance(c, dict)][-1]
                    if o.get("kind") == "IntegerLiteral":
                        try:
                            return int(o.get("value"))
                        except (TypeError, ValueError):
                            return None
                    return None
                lv, rv = lit(ops[0]), lit(ops[1])
                if lv is None and rv is None:
                    # a NAMED constant compared / combined with a parameter of the routine (`value <= MAX_SINGLE_BYTE`)
                    prm = {c.get("name") for c in params_of(fn) if c.get("name")}

                    def named(o):
                        while o.get("kind") in ("ImplicitCastExpr", "ParenExpr", "CXXStaticCastExpr", "ConstantExpr") and o.get("inner"):
                            o = [c for c in o["inner"] if isinstance(c, dict)][-1]
                        if o.get("kind") != "DeclRefExpr":
                            return None
                        nm = (o.get("referencedDecl") or {}).get("name")
                        for rr in roots:
                            for vd in walk(rr):
                                if vd.get("kind") == "VarDecl" and vd.get("name") == nm:
                                    # only a constant that IS a literal (`static const unsigned K = 0x80;`), not one computed from others
                                    ini = [c for c in (vd.get("inner") or []) if isinstance(c, dict)]
                                    ini = ini[-1] if ini else None
                                    while ini is not None and ini.get("kind") in ("ImplicitCastExpr", "ParenExpr", "CXXStaticCastExpr", "ConstantExpr") and ini.get("inner"):
                                        ini = [c for c in ini["inner"] if isinstance(c, dict)][-1]
                                    if ini is not None and ini.get("kind") == "IntegerLiteral":
                                        try:
                                            return int(ini.get("value"))
                                        except (TypeError, ValueError):
                                            return None
                                    return None
                        return None

                    def about_param(o):
                        return any(y.get("kind") == "DeclRefExpr" and (y.get("referencedDecl") or {}).get("name") in prm for y in walk(o))
                    if about_param(ops[0]) and not about_param(ops[1]):
                        rv = named(ops[1])
                    elif about_param(ops[1]) and not about_param(ops[0]):
                        lv = named(ops[0])
                if (lv is None) == (rv is None):
                    continue  # no literal, or a constant expression
                v = rv if rv is not None else lv
                allowed = set(_VARINT_ALLOWED[op])
                if "ZigZag" in name and op in (">>", ">>="):
                    allowed |= {31, 63}
                n += 1
                k = "%s/%s %s" % (name, op, hex(v) if v > 9 else v)
                counts[k] = counts.get(k, 0) + 1
                key = k if counts[k] == 1 else "%s#%d" % (k, counts[k])
                out.check(v in allowed, rid, key, "%s:%d" % (rel, x.get("_line", 0)), "a constant of the encoding",
                          "`%s %s` in %s: the varint encoding works in groups of 7 bits with 0x80 as the continuation bit (zig-zag: one bit) — with this constant every value "
                          "that needs more than one byte is written or read as a different number" % (op, hex(v) if v > 9 else v, name))
    if n == 0:
        out.undecided(rid, "anchor/varint routines", rel, "no literal found in the varint routines")


def rule_no_static_locals_from_arguments(out, tier):
    rid = "CS1"
    out.rule(rid, "runtime headers (detail/binary, detail/ndjson): no function-local `static` variable is initialised from a parameter of its function — such a value is computed by "
                  "the first call and answers every later call (the expected schema of the first reader opened in the process would validate all others)", 1)
    n_fn = 0
    sources = [("binary/" + h, dump(out.repo, h)) for h in ("coded_stream.h", "serializers.h", "header.h", "reader_writer.h")]
    if _nlohmann_include() is not None:
        sources += [("ndjson/" + h, dump_ndjson(out.repo, h)) for h in ("header.h", "serializers.h")]
    seen = set()
    k = 0
    for label, (roots, rc, err) in sources:
        if not roots:
            continue
        for r in roots:
            annotate_lines(r)
            for fn in walk(r):
                if fn.get("kind") not in ("FunctionDecl", "CXXMethodDecl", "CXXConstructorDecl") or body_of(fn) is None or fn.get("id") in seen:
                    continue
                seen.add(fn.get("id"))
                n_fn += 1
                pids = {p.get("id") for p in params_of(fn)}
                for v in walk(body_of(fn)):
                    if v.get("kind") != "VarDecl" or v.get("storageClass") != "static":
                        continue
                    k += 1
                    uses_param = any(y.get("kind") == "DeclRefExpr" and (y.get("referencedDecl") or {}).get("id") in pids for y in walk(v))
                    out.check(not uses_param, rid, "%s/%s/static %s" % (label, fn.get("name"), v.get("name")), "%s:%d" % (INC + "/detail/" + label, v.get("_line", 0)),
                              "initialised without reference to the arguments", "`static %s` in %s is initialised from an argument: the first call's value is kept for the life of the process and "
                              "used for every later call with other arguments" % (v.get("name"), fn.get("name")))
    if n_fn >= 40:
        out.ok(rid, "anchor/functions scanned", INC + "/detail", "%d function bodies of the runtime headers scanned" % n_fn)
    else:
        out.undecided(rid, "anchor/functions scanned", INC + "/detail", "only %d function bodies found" % n_fn)


def _nlohmann_include():
    for d in ("/usr/include", "/usr/local/include", "/root/miniconda/include", "/opt/conda/include"):
        if os.path.exists(os.path.join(d, "nlohmann", "json.hpp")):
            return d
    return None


def dump_ndjson(repo, header):
    """clang AST of a header of detail/ndjson (needs nlohmann/json.hpp, which is not part of the repository)"""
    key = (repo, "ndjson/" + header)
    if key in _cache:
        return _cache[key]
    inc = _nlohmann_include()
    if inc is None:
        _cache[key] = (None, 0, "nlohmann/json.hpp not installed")
        return _cache[key]
    path = os.path.join(repo, INC, "detail", "ndjson", header)
    os.makedirs(os.path.join(VERIF, "cxxstubs", "a", "b"), exist_ok=True)
    cmd = ["clang++", "-std=c++17", "-fsyntax-only", "-x", "c++-header", "-Wno-everything",
           "-I", os.path.join(VERIF, "cxxstubs", "a", "b"), "-I", os.path.join(VERIF, "cxxstubs"), "-I", inc,
           "-Xclang", "-ast-dump=json", "-Xclang", "-ast-dump-filter=yardl::ndjson", path]
    r = subprocess.run(cmd, capture_output=True, text=True)
    roots, dec, i, t = [], json.JSONDecoder(), 0, r.stdout
    while True:
        i = t.find("{", i)
        if i < 0:
            break
        try:
            o, j = dec.raw_decode(t, i)
        except json.JSONDecodeError:
            break
        roots.append(o)
        i = j
    _cache[key] = (roots, r.returncode, r.stderr[-2000:])
    return _cache[key]


def rule_ndjson_header(out, tier):
    rid = "NH1"
    out.rule(rid, "detail/ndjson/header.h (analysed when nlohmann/json.hpp is installed): ReadHeader completes only when the header's \"version\" entry — read with "
                  "operator[] / at(), not with value(key, default) — equals kNDJsonFormatVersionNumber; ReadAndValidateHeader completes only when the whole parsed "
                  "expected schema equals the whole schema read", 0)
    roots, rc, err = dump_ndjson(out.repo, "header.h")
    rel = INC + "/detail/ndjson/header.h"
    if roots is None:
        out.stats["NH1_not_analysed"] = err
        return
    if rc != 0 or not roots:
        out.undecided(rid, "clang/ndjson/header.h", rel, "clang could not parse the header: " + err[-300:])
        return
    for r in roots:
        annotate_lines(r)
    with open(os.path.join(out.repo, INC, "detail", "ndjson", "header.h")) as f:
        _SRC[0] = f.read()
    fns = dict(free_functions(roots))
    rh, rv = fns.get("ReadHeader"), fns.get("ReadAndValidateHeader")
    if rh is None or rv is None:
        out.undecided(rid, "ReadHeader/ReadAndValidateHeader", rel, "not found")
        return

    def norm(t):
        return t.replace(" ", "").replace("\n", "")
    # ReadHeader may hand the line it read to a helper of the header and return what that returns: the helper is judged
    for _ in range(2):
        target = None
        for x in walk(body_of(rh)):
            if x.get("kind") == "ReturnStmt":
                for y in walk(x):
                    if y.get("kind") == "CallExpr":
                        nm = callee_name(y).split("::")[-1]
                        if nm in fns and fns[nm] is not rh and nm != "ReadAndValidateHeader":
                            target = fns[nm]
        if target is None:
            break
        rh = target
    # ReadHeader: try-block paths are paths too (CxxPaths walks CXXTryStmt bodies as compound statements when they are CompoundStmt children)
    cp = CxxPaths({})
    ok_paths = [p for p in cp.paths(rh) if p.outcome != "throw"]
    posn = "%s:%d" % (rel, rh.get("_line", 0))
    if cp.overflow or not ok_paths:
        out.undecided(rid, "ReadHeader/paths", posn, "cannot enumerate the paths of ReadHeader")
    else:
        # the comparisons with the format version constant, read off the AST: what is compared, and how it was looked up
        cmps = []
        for x in walk(body_of(rh)):
            if x.get("kind") not in ("BinaryOperator", "CXXOperatorCallExpr"):
                continue
            inner = [c for c in (x.get("inner") or []) if isinstance(c, dict)]
            op = x.get("opcode")
            operands = inner
            if x.get("kind") == "CXXOperatorCallExpr":
                names = [(y.get("referencedDecl") or {}).get("name") for y in walk(inner[0])] if inner else []
                op = "!=" if "operator!=" in names else "==" if "operator==" in names else None
                operands = inner[1:]
            if op not in ("!=", "==") or len(operands) != 2:
                continue
            refs = [[(y.get("referencedDecl") or {}).get("name") for y in walk(o) if y.get("kind") == "DeclRefExpr"] for o in operands]
            for ci, oi in ((0, 1), (1, 0)):
                if "kNDJsonFormatVersionNumber" in refs[ci] and "kNDJsonFormatVersionNumber" not in refs[oi]:
                    other = operands[oi]
                    # an explaining local (`auto& v = header["version"]; if (v != k)`): what it was initialised with
                    for _ in range(3):
                        core_ = other
                        while core_.get("kind") in ("ImplicitCastExpr", "ParenExpr", "ExprWithCleanups", "MaterializeTemporaryExpr", "CXXBindTemporaryExpr") and core_.get("inner"):
                            core_ = [c for c in core_["inner"] if isinstance(c, dict)][-1]
                        if core_.get("kind") != "DeclRefExpr":
                            break
                        nm = (core_.get("referencedDecl") or {}).get("name")
                        decls = [y for y in walk(body_of(rh)) if y.get("kind") == "VarDecl" and y.get("name") == nm]
                        inits = [c for c in (decls[0].get("inner") or []) if isinstance(c, dict)] if len(decls) == 1 else []
                        if not inits:
                            break
                        other = inits[-1]
                    strs = [y.get("value", "") for y in walk(other) if y.get("kind") == "StringLiteral"]
                    calls = [(y.get("name") or (y.get("referencedDecl") or {}).get("name") or "") for y in walk(other)
                             if y.get("kind") in ("MemberExpr", "DeclRefExpr")]
                    by_index = any(c in ("operator[]", "at") for c in calls)
                    with_default = "value" in calls
                    cmps.append((txt(x), op, '"\\"version\\""' in json.dumps(strs) or any("version" in t for t in strs), by_index and not with_default))
        good_cmp = [c for c in cmps if c[2] and c[3]]

        def squeeze(t):
            t = t.replace(" ", "").replace("\n", "")
            while t.startswith("(") and t.endswith(")") and _balanced(t[1:-1]):
                t = t[1:-1]
            return t

        def verdict(p, text, val, upto, depth=0):
            """does `text` having the value `val` (known after `upto` literals of path p) say that the version compared equal?
            A boolean local is followed to what it was last assigned / initialised with: `ok = !mismatch`, `bool mismatch = a != b`."""
            u = squeeze(text)
            for t, op, _isver, _idx in good_cmp:
                if squeeze(t) == u:
                    return (op == "!=" and not val) or (op == "==" and val)
            if depth > 4:
                return False
            if u.startswith("!"):
                return verdict(p, u[1:], not val, upto, depth + 1)
            if re.fullmatch(r"[A-Za-z_]\w*", u):
                src = None
                for kind, etxt, nl in p.events:
                    if kind == "assign" and nl <= upto:
                        m = re.match(r"^\s*%s\s*=(?!=)\s*(.*)$" % re.escape(u), etxt, re.S)
                        if m:
                            src = m.group(1)
                if src is None and u in p.env:
                    src = p.env[u]
                if src is not None:
                    return verdict(p, src, val, upto, depth + 1)
            return False
        bad = None
        for p in ok_paths:
            good = False
            for i, (lt, val) in enumerate(p.lits):
                if verdict(p, lt, val, i):
                    good = True
            if not good:
                bad = p
        out.check(bad is None and bool(good_cmp), rid, "ReadHeader/version compared", posn, "every completing path found header[\"version\"] equal to the format version",
                  "ReadHeader can complete without the header's own \"version\" entry having been found equal to kNDJsonFormatVersionNumber (a lookup with a default — "
                  "value(\"version\", k) — accepts a header without the entry, or with one of another type): streams of another format version or foreign JSON lines are read as data")
    cp2 = CxxPaths({})
    ok2 = [p for p in cp2.paths(rv) if p.outcome != "throw"]
    posn2 = "%s:%d" % (rel, rv.get("_line", 0))
    if cp2.overflow or not ok2:
        out.undecided(rid, "ReadAndValidateHeader/paths", posn2, "cannot enumerate the paths")
    else:
        bad = None
        for p in ok2:
            good = False
            for a, op, b in p.facts():
                if op != "==":
                    continue
                ea, eb = norm(p.expand(a)), norm(p.expand(b))
                for x, y in ((ea, eb), (eb, ea)):
                    if "parse(expected_schema" in x and "ReadHeader(stream)" in y and "[" not in x and "[" not in y and ".at(" not in y:
                        good = True
            if not good:
                bad = p
        out.check(bad is None, rid, "ReadAndValidateHeader/schema compared", posn2, "every completing path found the whole schemas equal",
                  "ReadAndValidateHeader can complete without the whole parsed expected schema having been found equal to the whole schema of the stream")


def rule_ndjson_lookahead(out, tier):
    rid = "NL1"
    out.rule(rid, "detail/ndjson/serializers.h ReadProtocolValue (analysed when nlohmann/json.hpp is installed), on every path: `true` is returned only after the entry of the "
                  "line under the step's own name was converted into `value`, and with the look-ahead line consumed (reset) if that is where it came from; `false` is returned "
                  "only for a step that is not required, keeps a look-ahead line that was not used, and stores a freshly parsed line that belongs to a later step", 0)
    roots, rc, err = dump_ndjson(out.repo, "serializers.h")
    rel = INC + "/detail/ndjson/serializers.h"
    if roots is None:
        out.stats["NL1_not_analysed"] = err
        return
    if rc != 0 or not roots:
        out.undecided(rid, "clang/ndjson/serializers.h", rel, "clang could not parse the header: " + err[-300:])
        return
    for r in roots:
        annotate_lines(r)
    fn = dict(free_functions(roots)).get("ReadProtocolValue")
    if fn is None:
        out.undecided(rid, "ReadProtocolValue", rel, "not found")
        return
    ps = params_of(fn)
    names = [p.get("name") for p in ps]
    # parameters by type: the look-ahead is the std::optional<json>&, the name the std::string const&, the flag the bool
    look = next((p.get("name") for p in ps if "optional" in (p.get("type") or {}).get("qualType", "")), None)
    step = next((p.get("name") for p in ps if "const std::string" in (p.get("type") or {}).get("qualType", "") or "std::string const" in (p.get("type") or {}).get("qualType", "")), None)
    req = next((p.get("name") for p in ps if (p.get("type") or {}).get("qualType", "") == "bool"), None)
    val = names[-1] if names else None
    posn = "%s:%d" % (rel, fn.get("_line", 0))
    if not (look and step and req and val):
        out.undecided(rid, "ReadProtocolValue/parameters", posn, "parameters not recognised: %s" % names)
        return
    cp = CxxPaths({})
    paths = cp.paths(fn)
    if cp.overflow or not paths:
        out.undecided(rid, "ReadProtocolValue/paths", posn, "cannot enumerate the paths")
        return
    bad = {"delivered": None, "consumed": None, "required": None, "kept": None, "stored": None}
    for p in paths:
        calls = [e[1] for e in p.events if e[0] == "call"]
        # a path that reads no new line works on the look-ahead line
        had_look = not any(c.startswith("getline(") or c.startswith("parse(") for c in calls)
        # the entry is selected by the step's name: a lookup member, or a helper that receives the name (string building for messages is not a lookup)
        looked_up = any(re.search(r"[(, ]%s[,)]" % re.escape(step), c) and not re.match(r"(operator\+|runtime_error|basic_string|to_string|append)", c) for c in calls)
        converted = any(re.search(r"\(%s\)$" % re.escape(val), c) and not c.startswith(("at(", "parse(")) for c in calls)
        parsed = any(c.startswith("parse(") for c in calls)
        reset = any(c == "reset()" for c in calls)
        stored = any(c.startswith("emplace(") or c.startswith("operator=(") for c in calls) or any(e[0] == "assign" and e[1].startswith(look) for e in p.events)
        if p.outcome == "return" and p.ret == "true":
            if not (looked_up and converted):
                bad["delivered"] = p
            if had_look and not reset:
                bad["consumed"] = p
        if p.outcome == "return" and p.ret == "false":
            if any(l == req and v for l, v in p.lits) or not any(l == req for l, v in p.lits):
                bad["required"] = p
            if had_look and reset:
                bad["kept"] = p
            if parsed and not stored:
                bad["stored"] = p
    msgs = {
        "delivered": ("true only after the step's own entry was converted into value", "a path returns true without having looked the step's name up in the line and converted that entry into `value`"),
        "consumed": ("a used look-ahead line is reset", "a path delivers the value from the look-ahead line and leaves the line in place: the next call delivers the same line again"),
        "required": ("false only for a step that is not required", "a path returns false although the step is required (or without consulting `required`): a missing or misplaced step reads as an absent optional step / the end of a stream"),
        "kept": ("an unused look-ahead line is kept", "a path returns false — the line belongs to a later step — but has reset the look-ahead: that line is lost"),
        "stored": ("a parsed line of a later step is stored", "a path parses a new line, finds it belongs to a later step and returns false without storing it as look-ahead: the line is lost"),
    }
    for k, (okm, badm) in msgs.items():
        out.check(bad[k] is None, rid, "ReadProtocolValue/" + k, posn, okm, badm)
    # a handler that can catch more than "the key is not there" (a parse error, any json exception, catch-all) ends in a throw:
    # a line cut off in the middle must not read as a missing optional step
    for header in ("serializers.h", "header.h"):
        hroots, hrc, _ = dump_ndjson(out.repo, header)
        if not hroots or hrc != 0:
            continue
        k = 0
        for r in hroots:
            annotate_lines(r)
            for h in walk(r):
                if h.get("kind") != "CXXCatchStmt":
                    continue
                inner = [c for c in h.get("inner") or [] if isinstance(c, dict)]
                etype = next(((c.get("type") or {}).get("qualType", "") for c in inner if c.get("kind") == "VarDecl"), "...")
                body = next((c for c in inner if c.get("kind") == "CompoundStmt"), None)
                if "out_of_range" in etype:
                    continue
                k += 1
                stmts = [c for c in (body.get("inner") or []) if isinstance(c, dict)] if body else []
                last = stmts[-1] if stmts else {}
                while last.get("kind") in ("ExprWithCleanups",) and last.get("inner"):
                    last = [c for c in last["inner"] if isinstance(c, dict)][-1]
                out.check(last.get("kind") == "CXXThrowExpr", rid, "%s/catch %s#%d" % (header, etype[:40], k), "%s/detail/ndjson/%s:%d" % (INC, header, h.get("_line", 0)),
                          "the handler ends in a throw", "a handler for `%s` completes normally: malformed or truncated JSON is turned into a normal result" % etype)


def rule_ndjson_presence_by_key(out, tier):
    rid = "NL2"
    out.rule(rid, "detail/ndjson/serializers.h ReadProtocolValue (when nlohmann/json.hpp is installed): whether the line belongs to the step is decided by a key lookup (at / find / contains / count), "
                  "never by `is_null()` of a looked-up value or through `operator[]`: a stream item that IS null (an empty optional, the null case of a union) is a value, not the absence of the step", 0)
    roots, rc, err = dump_ndjson(out.repo, "serializers.h")
    rel = INC + "/detail/ndjson/serializers.h"
    if roots is None:
        out.stats["NL2_not_analysed"] = err
        return
    if rc != 0 or not roots:
        out.undecided(rid, "clang/ndjson/serializers.h", rel, "clang could not parse the header: " + err[-300:])
        return
    for r in roots:
        annotate_lines(r)
    fn = dict(free_functions(roots)).get("ReadProtocolValue")
    if fn is None:
        out.undecided(rid, "ReadProtocolValue", rel, "not found")
        return
    bad = None
    lookups = 0
    for n in walk(body_of(fn)):
        k = n.get("kind")
        t = txt(n).replace(" ", "") if k in ("CXXMemberCallExpr", "CXXOperatorCallExpr", "CallExpr", "CXXDependentScopeMemberExpr", "MemberExpr") else ""
        if k in ("CXXMemberCallExpr", "CallExpr") and re.search(r"\.is_null\(|->is_null\(", t):
            bad = (n, "is_null()")
        if k in ("MemberExpr", "CXXDependentScopeMemberExpr") and n.get("name") == "is_null" or (k in ("MemberExpr", "CXXDependentScopeMemberExpr") and (n.get("member") == "is_null")):
            bad = (n, "is_null()")
        if k == "CXXOperatorCallExpr" and "[" in t and "]" in t and re.search(r"(unused_step|parsed_step|\*unused_step|step)\)?\[", t):
            bad = bad or (n, "operator[]")
        if k in ("CXXMemberCallExpr", "CallExpr", "MemberExpr", "CXXDependentScopeMemberExpr") and re.search(r"(\.|->)(at|find|contains|count)\(", t):
            lookups += 1
    posn = "%s:%d" % (rel, (bad[0] if bad else fn).get("_line", 0))
    out.check(bad is None, rid, "ReadProtocolValue/presence test", posn, "presence is decided by key lookup (%d lookups), no is_null() / operator[] on the parsed line" % lookups,
              "ReadProtocolValue uses %s on the parsed line: a stream item that is JSON null (an absent `T?` item, the null case of a union) is taken for a line of a later step — the stream ends early and the next required step throws" % (bad[1] if bad else ""))


def rule_ndjson_field_omission(out, tier):
    rid = "NS1"
    out.rule(rid, "detail/ndjson/serializers.h ShouldSerializeFieldValue (analysed when nlohmann/json.hpp is installed): a record field is left out of the JSON only for an empty "
                  "optional, and for a union only when its first alternative is std::monostate and active — the overload for std::variant answers `index() != 0` only under the "
                  "`is_same_v<std::monostate, variant_alternative_t<0, …>>` test and `true` otherwise", 0)
    roots, rc, err = dump_ndjson(out.repo, "serializers.h")
    rel = INC + "/detail/ndjson/serializers.h"
    if roots is None:
        out.stats["NS1_not_analysed"] = err
        return
    if rc != 0 or not roots:
        out.undecided(rid, "clang/ndjson/serializers.h", rel, "clang could not parse the header: " + err[-300:])
        return
    try:
        text = open(os.path.join(out.repo, rel), encoding="utf-8", errors="replace").read()
    except OSError:
        text = ""
    seen = set()
    n = 0
    for r in roots:
        annotate_lines(r)
        for fn in walk(r):
            if fn.get("kind") != "FunctionDecl" or fn.get("name") != "ShouldSerializeFieldValue" or body_of(fn) is None or fn.get("id") in seen:
                continue
            seen.add(fn.get("id"))
            ps = params_of(fn)
            ptype = (ps[0].get("type") or {}).get("qualType", "") if ps else ""
            if "variant" not in ptype:
                continue
            cp = CxxPaths({})
            paths = cp.paths(fn)
            posn = "%s:%d" % (rel, fn.get("_line", 0))
            if cp.overflow or not paths:
                out.undecided(rid, "ShouldSerializeFieldValue(variant)/paths", posn, "cannot enumerate the paths")
                continue
            n += 1
            src = _src(body_of(fn), text)
            guarded_by_monostate = "monostate" in src and "variant_alternative" in src
            # the test may be named: `template <...> constexpr bool kName = std::is_same_v<std::monostate, std::variant_alternative_t<0, ...>>;`
            named_tests = [m.group(1) for m in re.finditer(r"constexpr\s+bool\s+(\w+)\s*=\s*([^;]*);", text)
                           if "is_same" in m.group(2) and "monostate" in m.group(2) and re.search(r"variant_alternative_t\s*<\s*0\s*,", m.group(2))
                           and not m.group(2).lstrip().startswith("!")]
            def is_test(l):
                return "is_same" in l or any(re.search(r"\b%s\b" % re.escape(nm), l) for nm in named_tests)
            if any(re.search(r"\b%s\b" % re.escape(nm), src) for nm in named_tests):
                guarded_by_monostate = True
            bad = None
            for p in paths:
                if p.outcome != "return":
                    continue
                if p.ret.replace(" ", "") == "true":
                    continue
                # anything else than `true` (omit the field for some values) needs the monostate test to have succeeded
                if not (guarded_by_monostate and any(v for l, v in p.lits if is_test(l))):
                    bad = p
            out.check(bad is None, rid, "ShouldSerializeFieldValue(variant)", posn, "`index() != 0` only where alternative 0 is std::monostate",
                      "the overload for std::variant can answer `%s` without the first alternative being known to be std::monostate: a field holding the first case of a union without a "
                      "null case is left out of the JSON and read back default-constructed" % (bad.ret if bad else ""))
    if n == 0:
        out.undecided(rid, "anchor/ShouldSerializeFieldValue(variant)", rel, "overload for std::variant not found")



def _always_throws(n):
    """every path through the statement (a catch handler, a block, an if) ends in a throw expression"""
    k = n.get("kind")
    inner = [c for c in (n.get("inner") or []) if isinstance(c, dict)]
    if k == "CXXThrowExpr":
        return True
    if k in ("ExprWithCleanups", "ImplicitCastExpr", "ParenExpr") and inner:
        return _always_throws(inner[-1])
    if k == "CXXCatchStmt":
        body = [c for c in inner if c.get("kind") == "CompoundStmt"]
        return bool(body) and _always_throws(body[-1])
    if k == "CompoundStmt":
        for st in inner:
            if _always_throws(st):
                return True
            if st.get("kind") == "ReturnStmt":
                return False
        return False
    if k == "IfStmt":
        parts = inner
        if n.get("hasInit") or n.get("hasVar"):
            parts = inner[1:] if n.get("hasInit") else inner
        if len(parts) >= 3:
            return _always_throws(parts[1]) and _always_throws(parts[2])
        return False
    if k == "CallExpr":
        name = callee_name(n)
        return name.endswith("rethrow_exception") or name.endswith("terminate") or name.endswith("abort")
    return False


def rule_no_swallowed_eof(out, tier):
    rid = "CB6"
    out.rule(rid, "binary runtime headers: the end-of-stream exception propagates — no routine of coded_stream.h, serializers.h, header.h or reader_writer.h catches "
                  "it (or catches everything) without rethrowing ON EVERY PATH of the handler: a truncated stream must not look like a complete one", 1)
    roots, rc, err = dump(out.repo, "reader_writer.h")
    rel = BIN
    if rc != 0 or not roots:
        out.undecided(rid, "clang/reader_writer.h", rel, "clang could not parse the headers: " + err[-300:])
        return
    for r in roots:
        annotate_lines(r)
    nfn, ntry = 0, 0
    seen = set()
    for r in roots:
        for n in walk(r):
            if n.get("kind") not in ("FunctionDecl", "CXXMethodDecl", "CXXConstructorDecl", "CXXDestructorDecl"):
                continue
            b = body_of(n)
            if b is None:
                continue
            fkey = (n.get("name"), n.get("_line", 0))
            if fkey in seen:
                continue
            seen.add(fkey)
            nfn += 1
            for x in walk(b):
                if x.get("kind") != "CXXCatchStmt":
                    continue
                ntry += 1
                inner = [c for c in (x.get("inner") or []) if isinstance(c, dict)]
                caught = ""
                for c in inner:
                    if c.get("kind") == "VarDecl":
                        caught = (c.get("type") or {}).get("qualType", "")
                rethrows = _always_throws(x)
                swallow_eof = (caught == "" or "EndOfStream" in caught or "std::exception" in caught or "runtime_error" in caught) and not rethrows
                out.check(not swallow_eof, rid, "%s/catch %s" % (n.get("name"), caught or "..."), "%s:%d" % (rel, x.get("_line", n.get("_line", 0))),
                          "the handler rethrows or cannot catch the end-of-stream exception",
                          "%s catches %s without rethrowing: reaching the end of the input inside this routine is reported to the caller as a normal result "
                          "(end of the stream step / a complete value) instead of EndOfStreamException" % (n.get("name"), caught or "every exception"))
    out.ok(rid, "anchor/functions scanned", rel, "%d function bodies of the binary runtime headers scanned, %d catch handlers" % (nfn, ntry)) if nfn >= 20 else \
        out.undecided(rid, "anchor/functions scanned", rel, "only %d function bodies found: the headers were not seen" % nfn)



def rule_ndjson_line_read_outcome(out, tier):
    rid = "NL3"
    out.rule(rid, "detail/ndjson/serializers.h ReadProtocolValue (analysed when nlohmann/json.hpp is installed): the end of the input is decided by the outcome of the line read itself — "
                  "every `getline` call has its result tested (it is not a discarded statement), and `eof()` is not consulted: eofbit is also set by a SUCCESSFUL read of a last line "
                  "that has no newline, i.e. of a line that was cut off", 0)
    roots, rc, err = dump_ndjson(out.repo, "serializers.h")
    rel = INC + "/detail/ndjson/serializers.h"
    if roots is None:
        out.stats["NL3_not_analysed"] = err
        return
    if rc != 0 or not roots:
        out.undecided(rid, "clang/ndjson/serializers.h", rel, "clang could not parse the header: " + err[-300:])
        return
    for r in roots:
        annotate_lines(r)
    fn = dict(free_functions(roots)).get("ReadProtocolValue")
    if fn is None:
        out.undecided(rid, "ReadProtocolValue", rel, "not found")
        return

    def name_of(x):
        if isinstance(x, dict):
            if x.get("kind") == "DeclRefExpr" and (x.get("referencedDecl") or {}).get("name"):
                return x["referencedDecl"]["name"]
            if x.get("kind") == "MemberExpr":
                return x.get("name")
            for c in x.get("inner", []) or []:
                r = name_of(c)
                if r:
                    return r
        return None

    found = []

    def visit(n, parent):
        if not isinstance(n, dict):
            return
        if n.get("kind") in ("CallExpr", "CXXMemberCallExpr") and n.get("inner"):
            nm = name_of(n["inner"][0])
            if nm in ("getline", "eof"):
                found.append((nm, n, parent))
        for c in n.get("inner", []) or []:
            visit(c, n)

    visit(fn, None)
    k = 0
    for nm, n, parent in found:
        k += 1
        where = "%s:%d" % (rel, n.get("_line", fn.get("_line", 0)))
        if nm == "getline":
            discarded = parent is not None and parent.get("kind") in ("CompoundStmt", "DoStmt", "WhileStmt", "ForStmt")
            # a call that is a direct child of a statement list (or the body of a loop) is a discarded expression statement;
            # as a condition clang wraps it in an ImplicitCastExpr / UnaryOperator / CXXOperatorCallExpr
            out.check(not discarded, rid, "ReadProtocolValue/getline#%d outcome tested" % k, where, "the result of the read is tested",
                      "the result of `getline` is discarded: whether a line was read is then judged by something else (eof(), an empty string) — a last line without a newline, i.e. a line "
                      "that was cut off, sets eofbit although it was extracted, and is taken for the end of the input instead of being handed to the JSON parser (which rejects it)")
        else:
            out.bad(rid, "ReadProtocolValue/eof()#%d" % k, where,
                    "`eof()` is consulted to decide whether there is more input: eofbit is also set by the successful extraction of a final line that lacks its newline; a truncated stream "
                    "then ends 'normally' for a stream step (ReadProtocolValue returns false, Close() passes)")
    if not any(nm == "getline" for nm, _, _ in found):
        out.undecided(rid, "ReadProtocolValue/getline", "%s:%d" % (rel, fn.get("_line", 0)), "no getline call found: how lines are read is not understood")

RULES = {
    "C16": [rule_ndjson_line_read_outcome, rule_coded_stream_bounds, rule_blocks, rule_fill_loops_end, rule_stream_reads_counted, rule_no_swallowed_eof, rule_ndjson_lookahead, rule_ndjson_presence_by_key, rule_varint_decoders_agree],
    "C01": [rule_varint_decoders_agree, rule_coded_stream_bounds, rule_serializer_twins, rule_output_order, rule_reader_overwrites, rule_trivial_trait_set, rule_blocks, rule_zigzag_width, rule_integer_dispatch, rule_shift_in_destination_type, rule_varint_constants],
    "C15": [rule_cxx_header, rule_ndjson_header, rule_no_static_locals_from_arguments],
    "C02": [rule_ndjson_line_read_outcome, rule_ndjson_lookahead, rule_ndjson_presence_by_key, rule_ndjson_field_omission, rule_ndjson_header, rule_no_static_locals_from_arguments],
    "C14": [rule_integer_dispatch],
    "C04": [rule_cxx_header, rule_output_order, rule_ndjson_header, rule_no_static_locals_from_arguments],
    "C03": [rule_blocks, rule_ndjson_lookahead, rule_ndjson_presence_by_key, rule_varint_decoders_agree, rule_output_order, rule_reader_overwrites, rule_integer_dispatch, rule_shift_in_destination_type, rule_zigzag_width, rule_varint_constants],
    "C17": [rule_ndjson_presence_by_key, rule_ndjson_lookahead, rule_reader_overwrites, rule_blocks, rule_trivial_trait_set, rule_output_order, rule_pointer_offset_units, rule_coded_stream_bounds],
}
