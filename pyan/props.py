"""Per-property metadata used by the driver for evidence files (what is decided, what is not)."""

PROPS = {}


def prop(pid, explanation, not_decided, assumptions=None):
    PROPS[pid] = {"explanation": explanation, "not_decided": not_decided,
                  "assumptions": assumptions or []}


COMMON_ASSUME = [
    "go/types resolves every callee and type as the compiler does (x/tools v0.29.0 on the repo's own go.mod)",
    "the accepted-idiom and exception tables in the rules were confirmed by reading the code they name",
    "third-party libraries (yaml.v3, participle, koanf, cobra, fsnotify) behave as documented",
]

prop("C11",
     "Structural clauses of all-or-nothing generation: (1) in internal/cmd every call edge through which a file-system write "
     "primitive is reachable is dominated, on the CFG, by the success edge of the `err != nil` test of validatePackage's result "
     "(so validatePackage itself, package loading and config overrides reach no write primitive, and no generator runs on a "
     "failed validation); (2) error discipline on the whole validate/generate path: no error result dropped (E1), no error "
     "tested and then replaced by success (E2); (3) who-may-write: back ends write files only through the audited helpers.",
     "Partial output when an I/O error strikes in the middle of generation (not a validation error); behaviour of the git "
     "package cache under ~/.yardl (table exception: not an output directory).",
     COMMON_ASSUME)
