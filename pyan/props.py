"""Per-property metadata used by the driver for evidence files (what is decided, what is not)."""

PROPS = {}


def prop(pid, explanation, not_decided, assumptions=None):
    PROPS[pid] = {"explanation": explanation, "not_decided": not_decided,
                  "assumptions": assumptions or []}


COMMON_ASSUME = [
    "go/types resolves every callee and type as the compiler does (x/tools v0.29.0 on the repo's own go.mod)",
    "the accepted-idiom and exception tables in the rules were confirmed by reading the code they name",
    "third-party libraries (yaml.v3, participle, koanf, cobra, fsnotify) behave as documented",
]

prop("C11",
     "Structural clauses of all-or-nothing generation: (1) in internal/cmd every call edge through which a file-system write "
     "primitive is reachable is dominated, on the CFG, by the success edge of the `err != nil` test of validatePackage's result "
     "(so validatePackage itself, package loading and config overrides reach no write primitive, and no generator runs on a "
     "failed validation); (2) error discipline on the whole validate/generate path: no error result dropped (E1), no error "
     "tested and then replaced by success (E2); (3) who-may-write: back ends write files only through the audited helpers.",
     "Partial output when an I/O error strikes in the middle of generation (not a validation error); behaviour of the git "
     "package cache under ~/.yardl (table exception: not an output directory).",
     COMMON_ASSUME)

prop("C09",
     "Structural clauses of 'rules are enforced wherever a violation occurs': (P0) pass-order def-before-use — every validation "
     "pass that reads a field produced by another pass (SimpleType.ResolvedDefinition, DefinitionMeta.Namespace, Environment.SymbolTable) "
     "runs after its producer, every ValidationPass function is registered and passes run in slice order; (V1-V4) the visitor and "
     "the rewriter have a case for every Node implementer and pass every Node-typed field on (child coverage), so a rule written "
     "as a visitor reaches generic arguments, nested containers, union cases, steps and computed-field expressions; (X1) "
     "validatePackage validates the package, every listed previous version and (through parse/flatten) every import; "
     "(E1/E2/E5) on the loading and validation path no error is dropped, swallowed after being tested, or stored in a dead/shadowed variable.",
     "That each rule's predicate is the right one (whether a given model violates a given language rule is behavioural).",
     COMMON_ASSUME)

prop("C12",
     "Structural clauses of determinism/idempotence: (M1) every range over a Go map in the module has an order-independent effect "
     "(commutative body, collect-then-sort, or constant return); (M2) both diagnostic sinks sort by file, line, column and message "
     "before rendering; (M3) sink callbacks only add to sinks; (N1) no clock/RNG/environment primitive is reachable from validation "
     "or generation (static call graph, codec methods included as roots); (W3) WriteFileIfNeeded skips the write only when the whole "
     "existing content equals the new content; (W2) it is the only content writer of the generators.",
     "Nondeterminism inside third-party libraries; byte identity of outputs (needs execution).",
     COMMON_ASSUME)

prop("C18",
     "Structural clauses of import resolution in packaging.collectPackages / cmd.parsePackageNamespaces / cmd.flattenNamespaces: "
     "(I1) the import-cycle test lies on every path to the already-collected shortcut; the chain flag is provably true (must-dataflow "
     "over the CFG, loop back-edges included) at every recursive call and is cleared afterwards; the recursive call passes a strictly "
     "smaller depth and a depth-limit test with error return dominates it; cycle, conflict and depth branches return non-nil errors; "
     "(I2) a namespace is parsed once (memo lookup dominates the parse, memo store precedes recursion) and flattening is post-order "
     "(dependencies first) with a visited test first; (E2/E5) no error on this path is swallowed or dead-stored.",
     "Independence of the result from the order of the import list; git-fetched imports; the name lookup itself.",
     COMMON_ASSUME)

prop("C20",
     "Structural clauses of watch-mode convergence: (T1) every function value scheduled with time.AfterFunc or started with `go` in "
     "internal/cmd that reaches generateImpl runs under one sync.Mutex (Lock first, deferred Unlock) — generateImpl provably reaches "
     "process-global mutators (os.Chdir via fetchAndCachePackages; the package-level koanf instance; the output files), so overlapping "
     "regenerations could interleave and the older finish last; (T2) generateInWatchMode defers a literal that calls recover() directly "
     "before generateImpl, so a panic in an intermediate state does not kill the watcher; (T3) every os.Chdir away is paired with a "
     "deferred restore before any return, so an error does not leave the watcher in another directory. (T4) in the watcher loop every received fsnotify event reaches, on every path back to the select (go/cfg), a call that re-arms the debounce timer, and that timer's function reaches generateImpl — an event swallowed by a filter leaves stale files; (T6) between the scheduled closure and generateImpl no function terminates the process or forwards generateImpl's error to a channel, so an invalid intermediate model is reported and the watcher lives on.",
     "Convergence itself (which regeneration runs last relative to the last edit), fsnotify behaviour, adequacy of the 5 ms debounce: schedules cannot be enumerated statically.",
     COMMON_ASSUME)

prop("C10",
     "Totality obligations of the front end (pkg/dsl, pkg/dsl/parser, pkg/packaging, internal/validation, internal/cmd), each decided on "
     "every path of the CFG: (P1) pair access S[i+1] over YAML node content only after the node's Kind is MappingNode (a Tag test does not "
     "establish even length); (P2) every constant slice index is covered by a length fact (forward interval dataflow over go/cfg with "
     "facts from comparisons, helper predicates summarised from their bodies, short-circuits); (P3) make() sized by a decoded integer is "
     "bounded below and above; (P4) every explicit panic is the default of a switch exhaustive over a sealed dsl interface/enumeration or an "
     "audited invariant; (P6) no break-inside-switch that spins a condition-less parser loop; (P7/P7b) every parser-built node carries "
     "line and column taken from its position argument; (P8) big.Int values narrowed into slice indexes are bounded first; (E3) no no-op "
     "zerolog chains; (E4) only participle errors reach ParseExpression (which panics otherwise) and every error leaving the YAML "
     "unmarshallers carries a position; (I1) in collectPackages the import-cycle test dominates the already-collected shortcut and every "
     "recursive call, so no import graph makes loading or logImports recurse without bound.",
     "Termination and memory use in general (only the specific loop/allocation shapes above are decided); panics inside third-party "
     "libraries; nil dereferences other than those implied by the length facts.",
     COMMON_ASSUME)

prop("C14",
     "Sibling cross-check of the four independent type→serializer generators (cpp/binary typeRwFunction+typeDefinitionRwFunction, "
     "python/binary and matlab/binary typeSerializer+typeDefinitionSerializer, python/ndjson typeConverter+typeDefinitionConverter). "
     "A guarded-emission extractor recovers each function's decision table from the type-checked AST (guards = model-shape predicates on "
     "the path incl. early exits; emission = template + argument expressions with local variables, closures and loops resolved); the "
     "tables are mapped to canonical tokens/roles and must equal one shared plan: routine per type shape, element/key/value/length/"
     "shape arguments in the right roles, union cases and array dimensions in declaration order, null case → NONE, enum base default int32. "
     "Deviations are allowed only as per-back-end table entries with a reason (C++ frames streams at step level; MATLAB reverses the shape list).",
     "What the runtime routine named by a token does; byte-level layout (needs execution). Record field order is decided by rule G3.",
     COMMON_ASSUME + ["the template→token tables in plan.go name the runtime routines correctly (cross-checked against the runtime files by the C03 link rule)"])

prop("C02",
     "Structural clauses of NDJSON round trip: (J1) the JSON-kind table GetJsonDataType, extracted from source, covers all 18 primitives, enum, "
     "flags, record and every container and contains at least the kinds the documented mapping writes (refs/jsonkinds.json from "
     "docs/reference/ndjson.md) — an under-approximation makes an ambiguous union go untagged; (JK) the kinds the Python runtime converters "
     "can return (abstract evaluation of every to_json/numpy_to_json return over the python AST) are within the documented kinds; (J2) both "
     "NDJSON generators decide tagged/untagged with the same overlap procedure over GetJsonDataType; (J3) the emitted reader-side type "
     "tests pair each kind with the right test; (O1) python record converters omit a null field on write and tolerate its absence on read "
     "under one and the same guard, which looks through aliases; (PN1) the Python line reader distinguishes a null value from an absent step.",
     "Numeric fidelity, key order, the C++ NDJSON runtime headers (nlohmann/json is not installed, so they cannot be parsed), value equality after a round trip.",
     COMMON_ASSUME + ["refs/jsonkinds.json transcribes docs/reference/ndjson.md correctly"])

prop("C07",
     "The protocol state machines exist only as emitted text. Every emission of cpp/python/matlab protocols.go that mentions the state variable "
     "(guards, assignments, error calls, Close checks, the Python _wrap_iterable epilogue, any try/finally) is extracted with its model-shape guards "
     "(stream / non-stream / previous step is a stream / batch overload), helper-function parameters are substituted from their call sites, and each %d "
     "argument is reduced to an affine form a*i + b*n + c over the step index and step count. The table must equal the reviewed reference state machine "
     "(refs/statemachine.json): an off-by-one in any of the ~90 state numbers, a changed emission guard, a new emission or a missing one is reported with its position.",
     "Behaviour of the emitted text beyond these numbers (target-language syntax, the Impl methods themselves); that the reference state machine accepts exactly the legal call sequences was established by review, not mechanically.",
     COMMON_ASSUME)

prop("C19",
     "Structural clauses of 'one meaning per computed field': (X1) the promotion table commonTypeMap is inserted under both operand orders, has no "
     "conflicting rows and never narrows; (X5) in resolveComputedFields every successful typing of an arithmetic expression passes the small-integer "
     "promotion switch (or is the ** branch / an error exit), decided on the CFG of the rewriter closure; (X2) the C++, Python and MATLAB expression "
     "emitters handle every Expression kind, every BinaryOperator and the same built-in functions; (X3) in each emitter the parenthesisation test in "
     "front of an operand inspects that operand, the right operand is parenthesised at equal precedence (left associativity) and the left operand of "
     "** keeps its parentheses; (X4) the operator token of every (back end, operator, integer/other result type) equals refs/operators.json; (X6) the "
     "rounding of the tokens emitted for an integer-typed division agrees across the three targets (language-definition table in refs/operators.json).",
     "Numeric results and overflow behaviour; the meaning of ** for integer operands and of mixed-type arithmetic in each target language.",
     COMMON_ASSUME + ["refs/operators.json names, per target language, the operator with the mathematical meaning for in-range operands"])

prop("C03",
     "Structural clauses of cross-language portability: (L1/L2) link check — every runtime symbol that occurs in a generator template (computed names "
     "expanded over the 18 primitives) is defined in the runtime that ships with it: python module-level names (ast), MATLAB +binary/<Name>.m, C++ "
     "declarations (clang AST); (G1) all back ends follow one serialization plan (same rule as C14); (PB1) every unchecked byte write of the Python "
     "output stream has capacity established on every path since the last buffer-consuming call; (PA1) no view into the Python reader's reusable "
     "buffer escapes without a copy; (J1) the JSON-kind table that decides tagged/untagged unions contains every kind the runtimes write, "
     "so a value copied binary -> NDJSON -> binary keeps its union case.",
     "Byte identity of streams produced by different languages; behaviour of the MATLAB runtime (no parser for .m files here: only file existence is checked).",
     COMMON_ASSUME)

prop("C01",
     "Structural clauses of the binary round trip and wire-format conformance: (G1/G3) the C++ generator follows the shared serialization plan and "
     "record field order; (G2) one plan for both directions — every row of the C++ rw-function generators that depends on `write` has a Write/Read twin "
     "with identical guards and arguments, all others take the direction through verb(write); (G4, PW1) the primitive wire tables of the C++ generator "
     "and of the Python runtime equal refs/wire.json (docs/reference/binary.md); (SR2, clang AST) every yardl::binary::WriteX in serializers.h has a "
     "ReadX with the same ordered stream operations; (CB1/CB2, clang AST + interval domain) every access through buffer_ptr_ in coded_stream.h is covered "
     "by a capacity/availability test on every path; (B1/B2/B3, PS1) stream framing: Write/ReadBlock pairing, no zero-length block except the terminator, "
     "terminator behind the per-version switch.",
     "Value equality, NaN/UTF-8 payloads, the memcpy fast path of generated records (depends on C++ object layout), HDF5.",
     COMMON_ASSUME + ["cxxstubs/yardl.h declares the third-party array/date types only so that clang can parse yardl's own headers",
                      "the staging buffers are at least 10 bytes long (default 65536)"])

prop("C15",
     "Structural clauses of 'readers refuse foreign streams': (PH1, python AST) BinaryProtocolReader/NDJsonProtocolReader compare magic/first line, "
     "version and schema with `!=` and raise, in stream order, before anything else is read; (SR3, clang AST) header.h ReadHeader compares magic and "
     "version with `!=` and throws before reading the schema, BinaryReader constructors keep the schema read; (H1, GEE) generated C++ reader constructors "
     "pass schema_read_ to VersionFromSchema, whose emitted text compares with the current and every previous schema and ends in an unconditional throw; "
     "generated Python readers pass <Reader>.schema to the runtime reader.",
     "The C++ NDJSON header check (nlohmann/json not installed → not parseable), MATLAB readers, and that two different encodings never share a schema (see C04).",
     COMMON_ASSUME)

prop("C16",
     "Structural clauses of 'truncation is reported': (CB1, clang AST + forward availability analysis) every read through buffer_ptr_ in CodedInputStream "
     "has enough bytes established AFTER the last FillBuffer on every path, where FillBuffer's post-condition is derived from its body; (PE1, python AST) "
     "CodedInputStream refills with the matching byte count before every buffer access, _fill_buffer raises below min_count and every method that calls "
     "readinto examines the count and can raise EOFError; (SR4/B3) a stream ends only at an explicit zero block count which the writer emits through the "
     "per-version switch, ReadBlock refills only at zero and returns false on a zero count.",
     "Which values were delivered before the error; C++ NDJSON reader; the underlying std::istream / Python file object semantics.",
     COMMON_ASSUME + ["the staging buffers are at least 10 bytes long (default 65536)"])

prop("C17",
     "Structural clauses of batching independence: (SR1, clang AST) every ReadX of serializers.h fully overwrites a reused destination — the first operation on "
     "a container destination is an unconditional resize/clear/assignment or it is handed whole to another reader, nothing is accumulated; (SR4) ReadBlock "
     "decrements current_block_remaining by one per item and refills only at zero; (B1, PS1) neither the C++ generated batch write nor the Python "
     "StreamSerializer emits a zero-length block for an empty batch; (B2) single and batch read/write use paired framing routines with the same element routine.",
     "Block arithmetic of ReadBlocksIntoVector for all capacities (table exception with its invariant stated), generated NDJSON from_json for records, Python iterables.",
     COMMON_ASSUME)

prop("C04",
     "Structural clauses of 'the schema pins down the encoding': (A1) every back end embeds the unmodified result of dsl.GetProtocolSchemaString and readers "
     "alias the writer's literal; (A2) marshal coverage — every wire-relevant field of the model (frozen list per node type) is marshalled by tag or read "
     "inside the type's custom MarshalJSON, every `json:\"-\"` field is in the audited neutral list, and the compact rank-only array form is chosen only "
     "when no dimension has a name or a length; (A3) the type list is sorted by qualified name, computed fields are cleared, removeComments covers every "
     "node type with a marshalled Comment; (V5) the transitive-closure visitor of GetProtocolSchema prunes only at audited places (so types used only as "
     "generic arguments are included); (PH1/SR3/PB2) header order in the Python and C++ runtimes, and the Python output stream never lets a direct write "
     "overtake buffered bytes; (H1) generated readers submit the schema they read to the check.",
     "That EVERY wire-affecting edit changes the JSON text (needs the semantics of encoding), MATLAB runtime header code, the C++ NDJSON header.",
     COMMON_ASSUME)

prop("C05",
     "Structural clauses about the change model that drives generated conversions (values across versions are out of reach): (EV1) TypeChange.Inverse is a "
     "well-formed involution — type pair swapped, wrapped InnerChange inverted, index fields carried, match vectors exchanged, Inverse∘Inverse returns to "
     "the same kind; (EV2) requiresExplicitConversion and the classifiers recurse through wrapper changes; (EV3) every TypeChange / DefinitionChange kind "
     "the analyser constructs has a consumer case in the C++ conversion/compatibility emitters; (B3) the stream terminator is written through the "
     "per-version switch, so a writer targeting an older version without that stream step writes nothing for it.",
     "Correctness of any emitted conversion, defaulting of added parts, chains of versions, Python/MATLAB (they do not implement evolution).",
     COMMON_ASSUME)

prop("C06",
     "Structural clauses of evolution verdicts: (EV3) classification completeness — every change kind the analyser can construct is exactly one of error, "
     "warning, silent-by-design (table with reasons) and has a case in the validators; (EV2) wrapper changes are classified by recursion on their inner "
     "change; (EV4) every field of the *Change structs that comparers fill is read by a validator or generator; (E2/E3/E5) no swallowed, unterminated or "
     "dead-stored error in pkg/dsl; (M1) the map ranges of the evolution analyser are order-independent (deterministic verdicts).",
     "Reflexivity and the verdict for a particular pair of models (behavioural); totality beyond the panic/error obligations listed.",
     COMMON_ASSUME)

prop("C08",
     "Structural clauses of 'every accepted package yields well-formed code', decided on the generators, never by compiling their output: "
     "(L1/L2) every runtime symbol a template mentions is defined in the shipped runtime; (P4) every `default: panic` of a switch in the back ends "
     "is unreachable — the switch covers every implementer of the sealed model interface / every primitive / every operator or built-in function "
     "constant, or the missing shapes are excluded by a named flow fact (FF1-FF3) — so a model shape that validation admits cannot abort generation; "
     "(N1) the reserved-word table of each back end is a superset of its language's keywords (refs/keywords.json); (N2) each <X>IdentifierName helper "
     "looks up the spelling it emits and escapes it when reserved; (N3) Namespace.GetAllChildReferences is a post-order, which the Python dtype "
     "registration relies on at import time; (N4) every mention of an hdf5/ndjson artefact in the production generators is under the option that "
     "enables the format, and helpers receive that option itself; (N5) names validation keeps apart stay apart after the back ends' case conversion.",
     "That generated C++ compiles as C++17 and generated Python imports for every model (needs the compilers and quantifies over all models); "
     "collisions between different name categories (a type and a union class, a field and a method of the runtime base class); the scaffold of "
     "`yardl init`; the internal* options (mocks/translator assume both formats on); plain precondition panics of helper functions (only switch "
     "defaults are decided).",
     COMMON_ASSUME + ["refs/keywords.json lists the keywords of Python 3.8-3.12, ISO C++17 and MATLAB R2023b",
                      "flow facts FF1-FF3 (what can reach a back-end switch) were confirmed by reading yaml.go, validation_type_resolution.go and evolution.go"])

prop("C13",
     "Structural clauses of 'alternative spellings are the same model': (Q1) the primitive name table, evaluated from the constant arguments of the "
     "primitiveTypes initialiser, maps the 18 primitives to themselves and exactly the documented aliases to their documented primitives; (Q2) "
     "resolveType overwrites SimpleType.Name with the resolved definition's qualified name before any successful return, so neither an alias nor an "
     "unqualified spelling survives resolution; (Q3) shorthand and expanded syntax are constructor twins: convertType/applyTypeTail read every field the "
     "type parser fills, write the same fields of Vector/Map/Array/ArrayDimension/GeneralizedType/TypeCase/SimpleType as the Unmarshal*YAML "
     "constructors (audited expanded-only fields aside), and `T?` builds [null, T]; (Q4) normalizeComment keeps only the trailing run of '#' lines and "
     "every yaml comment that becomes documentation passes through it; (Q5) the tag dispatch has a case for every documented tag; (A3) the schema is "
     "sorted by qualified name and stripped of comments and computed fields; (V5) the dependency sort descends into every node (audited prunes aside).",
     "Byte-identical generated code for two spellings and accept/reject agreement on all models (relational over all inputs); the grammar of the "
     "type-string parser itself; that validation normalises nested optional/vector trees the same way for both spellings (observed, not decided).",
     COMMON_ASSUME + ["refs/aliases.json transcribes the alias rows and tags of docs/*/language.md"])


# Clauses added after the second round of independently seeded changes (one sentence per rule).
_ADDED = {
    "C01": " (TS1) the emitted IsTriviallySerializable<Record> trait — which switches C++ to a raw memcpy of the object — requires standard layout, every field "
           "trivially serializable and sizeof(T) equal to the sum of all field sizes, unconditionally; (CB3) CodedOutputStream never hands bytes to the stream "
           "while earlier bytes sit in its staging buffer (every direct stream write is preceded by FlushBuffer on its path).",
    "C02": " (PN2) the Python UnionConverter selects the case of an untagged union by the exact JSON type, never by isinstance (bool is a subclass of int); "
           "(O3) every quoted name position of an NDJSON generator template receives the model spelling (.Name/.Symbol/.Tag), numpy field positions the identifier.",
    "C03": " (TS1) see C01: padding bytes of a C++ record never reach the wire; (O3) JSON names are the model's names in both NDJSON generators.",
    "C04": " (PH2) the Python NDJSON writer serialises the header with insertion order (no sort_keys / hooks), so the schema text equals the literal the C++ reader "
           "compares with; (CB3) the C++ output stream keeps the order header → payload.",
    "C05": " (EV7) the emitted previous_schemas_ table has exactly one entry per listed version under every outcome of its tests and is indexed by the version loop's "
           "index; (EV9) every piece of change data a definition comparer computes influences its decision between returning the change and returning nil.",
    "C06": " (EV9) see C05: no 'unchanged' verdict while recorded differences exist; (NP1) optional pointer fields are dereferenced in the evolution analyser only "
           "where a nil test, an equal-nil-ness test or a model predicate establishes them.",
    "C07": " (S2) inside every emitted method that compares the state variable, no `return` is emitted in front of the first emission mentioning the state: no fast "
           "path around the guard.",
    "C08": " (NP1) the back ends dereference optional model fields (Length, Name, Dimensions) only where they are established non-nil; (N6) python WriteDocstring pads a "
           "leading/trailing quote under that test alone and escapes backslashes and embedded delimiters before writing the literal.",
    "C09": " (V7) every ValidationPass starts its traversal at the Environment itself (or loops over all namespaces), so imported packages are checked by every rule; "
           "(R1) resolveType stores the resolved definition only behind the arity comparison of type arguments and type parameters; (X1) no error-free return of "
           "validatePackage precedes the loop over previous versions, and every import becomes a reference of the importing namespace on every loop path.",
    "C10": " (P6b) a `for {}` loop around Decoder.Decode leaves the loop on every path with a non-nil error (yaml.v3 keeps returning the same error); (NP1) optional "
           "pointer fields are dereferenced in the front end only where established non-nil.",
    "C11": " (X1, V7) the previous versions and the imported packages are really validated: no success return before the version loop, passes walk the whole environment.",
    "C13": " (Q6) ParseYamlInDir accumulates every slice field the YAML unmarshaller fills (TypeDefinitions, Protocols) over the files with append.",
    "C14": " (TS1) see C01; (G1) the MATLAB reversal of fixed-array extents is mandatory, not merely permitted; (G5) the extent order agrees between the MATLAB "
           "serializer argument and the default value.",
    "C15": " (PH1) the header comparisons are whole-operand comparisons (the entire parsed schema, not a projection of it); (PH2) key order of the written header.",
    "C16": " (CB4) every loop of CodedInputStream that refills the buffer calls a refill routine that can throw at the end of the stream; (SR4) a void batch reader "
           "never returns with the block count decremented to zero unless the zero was read from the stream.",
    "C17": " (B4) the emitted fallback batch reader truncates `values` to the items read before reporting the end; (SR4) count-zero contract of ReadBlocksIntoVector.",
    "C18": " (I1) the already-collected shortcut returns the entry of the collected map; (X1) every import is appended to References on every path of the import loop.",
    "C19": " (X3, re-implemented) the parenthesisation decision of each emitter is evaluated over the finite domain parent operator x left/right operand shape (180 shapes, "
           "helpers and closures followed) against the target language's precedence/associativity (refs/operators.json); (X7) `e as T` is printed as an explicit "
           "conversion on every path of the TypeConversionExpression case; (X8) the MATLAB conversion wrapper names the class of the target primitive.",
    "C20": " (T7) the map arguments generateImpl receives from the watcher are never mutated by it or by the module functions they are handed to.",
}
_ADDED3 = {
    "C01": " (TE1) a C++ enum is declared with the underlying type its model declares, which is what WriteEnum/ReadEnum put on the wire.",
    "C03": " (TE1) see C01.",
    "C05": " (EV5) in the compatibility serializers an I/O routine that can run while a type change is known is chosen for the change's OLD type; (X11) for every ordered "
           "pair of integer primitives the range test emitted in front of the static_cast has an upper bound iff max(old) > max(new) and a lower bound iff the old type is "
           "signed and the new type cannot hold its minimum (the clause is evaluated over that finite domain and compared with arithmetic).",
    "C08": " (U1) dsl.ToGeneralizedType is applied to an underlying type everywhere the shape of a type is read (no `.Dimensionality.(*dsl.Array)` on an unresolved alias); "
           "(NP1, extended) dereferences through pointer parameters and through locals that stand for an optional field are covered too.",
    "C09": " (P0, extended) a pass that follows alias chains runs after the cycle report of topologicalSortTypes and returns at once when errors were recorded; "
           "(D1) every map a pass looks names up in is filled by an earlier statement on every path; (E6) no comparison of a value with itself.",
    "C10": " (P10) yaml Decode receives a pointer to a struct, never a pointer to a pointer that a null document leaves nil; (P11) a YAML null is a type only inside a union; "
           "(L3) derived context literals copy every field of the context they derive from.",
    "C13": " (Q5b) the spellings accepted for a dimension item agree between the shorthand and the expanded form.",
    "C15": " (V8) a rewriter callback that keeps a node also keeps rewriting below it (removeComments reaches every comment).",
    "C19": " (X2, X4, X7: second engine) the binary-expression and conversion cases of each emitter are evaluated over a finite domain — operator x integer/other result type, "
           "with literal lookup tables, helper functions, loops over literal tables and closures handed along with an operand followed — so the token printed for each operator "
           "and the conversion wrapper are decided however the case is organised; (X9) first token printed for size(); (X10) every test in the typing of a binary expression is "
           "invariant under exchanging the operands; (U1) see C08.",
    "C20": " (T4) the debounce timer is reset only through a drained channel; (T6) the watcher adds every directory it generates from.",
}
# Clauses added after the fourth round of independently seeded changes.
_ADDED4 = {
    "C01": " (ZZ1) every zig-zag encoder of coded_stream.h folds the sign with an arithmetic shift by (bit width of its argument - 1); (UI1) the case number a generator "
           "emits for a union case is its position among the non-null cases (a loop that skips the null case numbers with its own counter, not the range position).",
    "C02": " (GR1) every emitted from_json that accumulates into `value` resets it first in the same emitted function (stream readers reuse one object); (PN3) the Python "
           "serializers and converters test an Optional parameter with `is None`, never by truthiness.",
    "C03": " (UI1) see C01; (PN3) see C02; (PS1) extended to the optional serializers.",
    "C04": " (GC1) no package-level variable of the compiler is written at run time outside init() except the audited ones (no memo of schema strings or manifests across "
           "validations); (NH1) C++ NDJSON ReadHeader/ReadAndValidateHeader complete only behind a whole-operand comparison (analysed when nlohmann/json.hpp is installed).",
    "C05": " (X11, extended) floating point -> integer conversions round before the cast; (L2) version labels and version models appended in lockstep are never reordered or "
           "filtered separately.",
    "C06": " (X1c) the namespace cache handed to parsePackageNamespaces is created per package, never shared between a model and its previous versions; (L2) see C05.",
    "C07": " (PM1) the Python runtime mixins that precede the generated abstract base in the bases of generated classes define no public method that would shadow the state "
           "machine's close()/__exit__/step methods.",
    "C08": " (AR1) some validation pass reports an error for an array whose `dimensions` is present and empty (the *Array handler is evaluated for that abstract array, "
           "helpers followed); (Z1) no shape predicate of TypeCases is tested where an excluding predicate of the same value is known to hold; (CN1) a generator function or closure that "
           "holds the context namespace passes its own, unchanged, to every same-package callee parameter that carries it (slots inferred by flow from the parameters named contextNamespace).",
    "C09": " (E7) an ErrorSink/WarningSink is never re-assigned and its slice only appended to; (X1c) see C06; (X12) the *BinaryExpression case of resolveComputedFields, "
           "evaluated over operand kinds x common-type existence, reports an error whenever an operand is not a number.",
    "C10": " (E7) see C09.",
    "C11": " (E7, X1c) errors of previous versions are neither dropped nor computed from the current model.",
    "C12": " (GC1) see C04; (N1c) every zerolog.ConsoleWriter excludes the timestamp part.",
    "C13": " (Q3b) the shorthand `T[]` stores Array.Dimensions only under a test that the parsed dimension list is not empty; (P6b) see C10.",
    "C14": " (UI1) see C01; (Z1) see C08.",
    "C15": " (NH1) see C04.",
    "C16": " (CB6, PE3) no routine of the binary runtimes (C++ headers, _binary.py) catches the end-of-stream exception without rethrowing; (B5) the emitted batch reader "
           "reports the block counter.",
    "C17": " (B5) the emitted Read...Impl(std::vector<T>&) returns `current_block_remaining_ != 0`, not a capacity-based answer; (GR1) see C02; (PA1) registered here too.",
    "C19": " (X10) every test in the typing of a binary expression is invariant under exchanging Left and Right; (X12) see C09; (F1) a fold over union cases keeps its "
           "accumulated result (`r, err := F(acc, x)` puts r back into acc).",
    "C20": " (GC1) see C04: nothing computed by one generation of `--watch` answers the next.",
}
# Clauses added after the fifth round of independently seeded changes.
_ADDED5 = {
    "C01": " (CW1) serializers.h WriteInteger/ReadInteger hand the varint routine a value of T's signedness and of the routine's width (T itself only where sizeof(T) is that width); "
           "(CV1) a varint is assembled with the shift computed in the destination type; (SW1) no emitted C++ `case` of the binary/NDJSON/protocol generators falls through; "
           "(PA1) registered here too; (VC1) every literal the varint / zig-zag routines of coded_stream.h and _binary.py combine with a value is a constant of the encoding (7-bit groups, 0x80, one bit).",
    "C02": " (PT1) a sub-second remainder rendered into text by yardl_types.py is zero-padded to its full width; (NL1, when nlohmann/json.hpp is installed) C++ ReadProtocolValue, on "
           "every path: true only after the entry under the step's own name was converted into value and a used look-ahead line was reset; false only for a step that is not required, "
           "with an unused look-ahead kept and a parsed line of a later step stored; handlers for more than out_of_range end in a throw.",
    "C03": " (CW1, CV1, ZZ1) see C01; (PT1) see C02; (PN1) registered here too: a JSON null written by the C++ writer is a value, not a missing step; (DB1) an enum/flags without "
           "`base:` is int32 in every back end.",
    "C04": " (A2, converse) source positions, annotations and version bookkeeping stay out of the schema JSON; (VS1) a function that follows SimpleType.ResolvedDefinition keys no map by "
           "the unqualified name of a definition; (ZF1) no `if` reads a field of a local struct that the literal creating it left unset and nothing has stored into since.",
    "C05": " (SW1) see C01: the `case Version::x` of an added or changed step ends in break on every generator path; (B6) a plural read into a temporary vector is preceded by "
           "`tmp.reserve(values.capacity())`.",
    "C06": " (DF1) `if x == nil { y = default }` defaults the variable it tested.",
    "C07": " (S3) the emitted Python `__exit__` calls a method whose emitted body compares the protocol state.",
    "C08": " (LC1) an emitted C++ lambda with an empty capture list prints no model expression in its body; (CN1) see above.",
    "C09": " (ST1) a store into a dsl.SymbolTable goes into a table created in the same function or uses a qualified key; (X13) the bounds an enum value is range-checked against, "
           "evaluated per integer primitive, equal the arithmetic range of the primitive.",
    "C10": " (KF1) every YAML decode into a struct rejects unknown keys; (NP1) extended to the evolution analyser.",
    "C11": " (KF1) see C10; (EV2) registered here too: an incompatible change nested in a wrapper is still an error.",
    "C12": " (W4) a file writer whose type removes files not listed in a field records the file on every path that returns success.",
    "C13": " (Q7) ParseYamlInDir obtains its file list from a recursive traversal.",
    "C14": " (DB1) see C03.",
    "C15": " (VS1, ZF1) see C04.",
    "C16": " (PE3, extended) also in _ndjson.py, and on every path through the handler; (NL1) see C02.",
    "C17": " (CP1) the address handed to ReadBytes/WriteBytes adds pointer and offset in the same unit; (CB3) registered here too; (B6) see C05.",
    "C18": " (MK1) a memo map is written under the key expression it is looked up with.",
    "C20": " (T8) the package directory is put under watch without waiting for a generation to complete; (T9) the function the debounce timer runs reaches generateImpl through "
           "a top-level statement that no return precedes.",
}
# Clauses added after the sixth round of independently seeded changes.
_ADDED6 = {
    "C01": " (PL1) a length prefix `len(X)` in _binary.py is followed by the bytes of X itself; (TS3) the Python serializers that answer is_trivially_serializable with anything but False "
           "are the fixed-width primitives, enums, fixed vectors/arrays and records, as in C++.",
    "C02": " (PF1) arrays are flattened and rebuilt in C order in both Python runtimes; (PF2) FlagsConverter.to_json returns the list of names only under `remaining == 0`; (GF1) the emitted "
           "C++ flags to_json assigns the list of names only inside an emitted `if (… == 0) {`.",
    "C03": " (PL1, PF1, PF2, TS3) see C01/C02.",
    "C04": " (H2) the emitted definition of `schema_` precedes the emitted initialiser of `previous_schemas_`; (A5) GetProtocolSchema appends every TypeDefinition it handles in a statement of "
           "the clause itself; (A6) the JSON keys of the dimensionalities are pairwise different; (CS1) no function-local static of the runtime headers is initialised from a parameter.",
    "C05": " (UI1) registered here too; (SN1) the std::sto* function chosen for a set of primitives covers each of them.",
    "C06": " (PC1) no ==/!= between two non-nil pointers to basic types.",
    "C09": " (PC1) see C06; (SH1) a := that shadows a variable of the enclosing block is read in its scope; (E7b) no validation sink is received or passed by value; (VS1) also under this "
           "property, with keys built by helpers from bare definition names.",
    "C11": " (E7b) see C09; (E8) a function that is handed an error and answers with a bool is not called as a statement.",
    "C14": " (O3, TS3) registered here too.",
    "C15": " (A5, A6, CS1) see C04.",
    "C18": " (N3) registered here too.",
    "C19": " (SH1) see C09.",
    "C20": " (T10) every Watcher.Add/Remove with a computed argument next to the result of generateInWatchMode is guarded by a non-nil test of that result.",
}
# Clauses added after the seventh round of independently seeded changes.
_ADDED7 = {
    "C01": " (UI2) the union index handed to WriteInteger/ReadInteger in the emitted C++ is unsigned; (PS2) Python fixed-size containers neither write nor read a length.",
    "C02": " (PM2) the Python MapConverter chooses object vs. array-of-pairs by the key converter, in both directions; (NS1, when nlohmann/json.hpp is installed) the C++ overload "
           "ShouldSerializeFieldValue(std::variant) answers `index() != 0` only where alternative 0 is std::monostate.",
    "C03": " (J2) registered here too.",
    "C04": " (A7) the schema text is produced by json.Marshal alone; (A8) no wire-relevant field is cleared before a definition is listed; (RD1) no call statement drops the result of a "
           "module function that only computes.",
    "C05": " (H1) registered here too.",
    "C06": " (LP1) no range loop of pkg/dsl with a conditional body leaves on every path of its first iteration.",
    "C08": " (UN1) in the Python and MATLAB back ends a union met while walking a definition takes the definition's name only under `definition.Type == node` (fixes 06a4a33, ba1f7d6); "
           "(DT1) the generated dtype_map registers the unions a definition uses before the definition's own, eagerly evaluated, entry (fix 107495d).",
    "C09": " (RD1) see C04; (V5) one audit of round 0 — validateUnionCases not descending into the type arguments of a reference — was wrong and is removed (fix df90284).",
    "C10": " (TA1) no unchecked single-value type assertion in the parsers; (P4n) a type switch with an aborting default over a variable last assigned from a nil-returning module function "
           "handles nil; (P4f) likewise for a nil-able definition field; (RC1) a cycle of calls that hand one *yaml.Node on unchanged carries contradictory Kind/Tag conditions "
           "on that node (fix 3a2e09a: a scalar tagged `!!seq` recursed until the stack overflowed).",
    "C11": " (V6) registered here too.",
    "C12": " (PC1) registered here too (ordering of diagnostics compares values, not addresses).",
    "C13": " (Q8) UnmarshalExpression parses the four plain scalar tags alike.",
    "C14": " (UI2, PS2) see C01.",
    "C15": " (A7, A8) see C04.",
    "C16": " (NR1) the `required` argument emitted for ReadProtocolValue is `!step.IsStream()` of the step being printed; (S4) no emitted Python `__exit__` returns a true value.",
    "C17": " (CB1, PB1) registered here too; PB1 now judges an unchecked byte write over every pass of a loop, not only the first.",
    "C20": " (W2, W3) registered here too; (T11) between the result of generateInWatchMode and the Watcher.Add of its elements stand only nil/emptiness tests of the result and tests of "
           "the single directory (fix 5d27e53: with one import the directory was never watched).",
}
# Clauses added after the bug hunt on the unchanged tree and the eighth round of seeded changes.
_ADDED8 = {
    "C01": " (PD1) a Python serializer built on a datetime64/timedelta64 dtype constant refers to no dtype constant of the other kind (fix aea79ca); (TS3) a Python record is copied as raw memory "
           "only when its aligned dtype has no padding (fix 8d7b713).",
    "C02": " (RS1) a printed C++ `if (...) {` whose body assigns a field of the out-parameter is closed by `} else {` on every path of the generator (fix 426e174: an absent NDJSON field kept "
           "the previous stream item's value); (P4j) the aborts of ndjsoncommon are defaults of exhaustive switches or audited; (TG1) the tag printed for a union case is the case's Tag "
           "field; (EN2) the integer fallback of an enum is cast to its underlying_type.",
    "C03": " (PD1) see C01; (TG1, EN2) see C02.",
    "C05": " (RS1) see C02 (fix 138ca61: version conversions of optionals/unions left the previous item in the reused target).",
    "C07": " (SW2) every printed declaration of the C++ protocol state uses a type of at least 32 bits (fix 17b7ecb).",
    "C08": " (AL1, AL2) back-end type switches that treat records or primitives specially resolve aliases first (fixes cf2d86e, 3bae236); (P4j) see C02 — one known finding: an alias of a "
           "union used as a union case makes GetJsonDataType abort.",
    "C09": " (VS2) TypeDefinitionsEqual compares namespaces with names.",
    "C10": " (P4j) see C02/C08.",
    "C11": " (P4j) see C02/C08 (the abort strikes after part of the output was written).",
    "C14": " (TG1, EN2) see C02.",
    "C17": " (RS1) see C02.",
    "C18": " (I3) in collectPackages the depth test stands in front of the memo lookup that returns early (fix bc47dce); (VS2) see C09.",
    "C19": " (SX1) every branch of a back end's dispatch over switch patterns refers to the case's Expression (fix 21f459b); (AL2) see C08.",
}
# Clauses added after the ninth round of independently seeded changes.
_ADDED9 = {
    "C01": " (PX1) in the Python coded streams the bytes stored/read at the offset, the bytes the method made sure of and the bytes the offset advances by are one quantity on every path; "
           "(PD2) the integer count of a numpy date/time value is taken only in the serializer's own unit; (PW2) every struct format is a literal starting with `<`; (VL1) the C++ varint "
           "decoders (fast path, refill path) leave their loops under the same tests.",
    "C02": " (PF3) the Python FlagsConverter appends a symbol's name only under conditions that imply `symbol != 0 and symbol & remaining == symbol` (evaluated for all 3-bit pairs).",
    "C03": " (PX1, PD2, PW2, VL1) see C01; (PF3) see C02; (MU1) see C04.",
    "C04": " (OE1) no numeric value field of a pkg/dsl JSON view carries `omitempty`; (MU1) no back end sorts or reverses a slice that is a field of a definition/type/protocol node of the "
           "model (or a local aliasing one); (RJ1) raw JSON is emitted only from text that is JSON by construction; (W3) registered here too: a generated file is kept only when its whole "
           "content equals the new content.",
    "C05": " (EC1) the name-keyed memo of the evolution analyser is allocated once per predecessor; (AF1) a boolean a loop accumulates is set or or-ed, never overwritten per element; "
           "(BN1) a both-set guard over an optional field of two values handles the mixed case; (V7b) a collector of definitions ranges over every namespace.",
    "C06": " (EC1, AF1, BN1, V7b) see C05.",
    "C08": " (V5) registered here too for the topological sort (dependencies-first order of generated code) and the computed-field passes; (RJ1) see C04; (EB1) every body the Python "
           "back end prints under a block header prints a statement for every model (fix cfbc950: an enum without values got a class without a body).",
    "C09": " (AF1) see C05; (SH2) every `<<` has a constant count or a count bounded by the width in the same function; (Q7b) the walk that collects the model files never returns SkipDir/SkipAll and adds "
           "a file under tests of its name and IsDir only; (E7c) ErrorSink.Add / WarningSink.Add keep their argument on every path.",
    "C10": " (RJ1) see C04; (SH2) see C09; (V5) registered here too for the topological sort (a pruned visit lets a reference cycle reach the unbounded recursion behind it).",
    "C11": " (Q7b, E7c) see C09; (V5) registered here too for the evolution analyser.",
    "C12": " (MU1) see C04; (E7c) see C09: which diagnostics are reported does not depend on arrival order; (Q7b) directory listings come in lexical order or are sorted.",
    "C13": " (SH2, Q7b) see C09.",
    "C14": " (PW2, PD2) see C01.",
    "C15": " (OE1, MU1, W3) see C04.",
    "C16": " (PX1) see C01; (CB5) now covers every consuming call on the input stream (read, ignore, get, seekg, ...): its outcome is looked at on every path; (VL1) see C01.",
    "C19": " (MU1) see C04: an expression node of the model is reordered in place only by the back end that internal/cmd runs last.",
    "C17": " (PX1) see C01; (S1) registered here too: the guard under which the Python/C++ writers print the end-of-stream marker of the previous stream step is the reference one.",
}
# Clauses added after the tenth round of independently seeded changes and the fifth refactoring campaign.
_ADDED10 = {
    "C01": " (PL2) a count written in front of a loop over S is len(S) (the dimension count of a dynamic array excludes the element's own dimensions).",
    "C02": " (O4) a printed C++ to_json that adds members to `j` conditionally first gives `j` its container kind; (NL2) see C17.",
    "C03": " (PL2) see C01; (O4) see C02; (SR4, NL1) registered here too.",
    "C04": " (V3, V4) the rewriter's case and child coverage registered here too (a node kind treated as a leaf keeps its comments in the embedded schema).",
    "C05": " (V5) registered here too for the schema walk; (BN2) see C06; (RB1) in writeProtocolStep the conversion of an item read singly from a stream is printed only inside "
           "`if (read_block_successful)`.",
    "C06": " (BN2) every (*big.Int).Uint64()/Int64() follows a test of the same value's size (fix 800278c); (X1) registered here too: every listed version is parsed and validated on its own.",
    "C07": " (S2, extended) in a generated write method nothing returns between the state check and the assignment that records the step.",
    "C08": " (V1-V4) visitor and rewriter coverage registered here too.",
    "C09": " (P6c) every yaml Decode of a model file stands in a loop (multi-document files); (BN2) see C06; (P6b) registered here too.",
    "C10": " (BN2) see C06; (LF1) see C18; (NP2) a pointer field of a parser syntax node (a grammar alternative) is dereferenced only under a nil test.",
    "C11": " (I4) start value, step and rejecting test of the import depth counter, evaluated for nesting levels 0,1,2,…, reject exactly level MaxImportRecursionDepth, and the test is a top-level statement; "
           "(P6c) see C09; (I1, L3) registered here too.",
    "C12": " (T3, T3b) registered here too: the working directory is restored on every path.",
    "C13": " (P6c) see C09; (BN2) see C06 — the expanded `length:` of a vector is not narrowed silently while the shorthand is rejected; (O1) registered here too.",
    "C14": " (PL2) see C01; (PF4) the Python NDJSON array converters produce a flat row-major list: `tolist()` only on a flattened array.",
    "C15": " (V3, V4) see C04.",
    "C18": " (I4) see C11; (LF1) a range loop that fills `X[i]` with a pointer fills every entry: no `continue` precedes the assignment.",
    "C20": " (T12) in generateImpl every return in front of the last back end's Generate call is the return of an error.",
    "C16": " (RB1) see C05.",
    "C17": " (RB1) see C05; (NL1) registered here too; (NL2, when nlohmann/json.hpp is installed) ReadProtocolValue decides the presence of a step by key lookup, never by is_null() or operator[] — a null item is a value.",
}
# Clauses added after the eleventh round of independently seeded changes.
_ADDED11 = {
    "C01": " (PU1) every bytes-to-str conversion of the Python runtime decodes strictly (no error handler named); (NS2) see C04.",
    "C02": " (PL3) the Python NDJSON reader separates documents at '\\n' only (readline), never with str.splitlines(); (PH3) the NDJSON writer puts the header line on the stream on every path of its constructor.",
    "C03": " (PL3) see C02; (PU1) see C01.",
    "C04": " (NS2) no MarshalJSON view of pkg/dsl sorts or reverses what it lists: cases, fields, values and steps appear in model order; (Q2) registered here too: resolution erases the spelling of a reference; (PH3) see C02.",
    "C05": " (IX2) a store into a slice made with len(S) inside `range S` uses that loop's index (StepChanges is positional in the NEW protocol); (NC1) see C06; (RS1, extended) the body printed after `} else {` prints "
           "on every generator path — a reset helper may not return early under a flag; (GR2) an emitted conversion that accumulates into its target (push_back, insert, +=) follows an emission that empties the target.",
    "C06": " (NC1) every `X.Cases[1:]` (the cases without the leading null) stands under the fact X.Cases.HasNullOption() / IsOptional(); (IX2) see C05.",
    "C08": " (RW1) see C18; (NK1) see C18; (W3) registered here too: a file whose content changed is rewritten (a stale generated file next to regenerated ones does not import).",
    "C09": " (FS1) the walk that stamps parsed nodes with their file visits DefinitionMeta.TypeParameters itself (VisitChildren skips them); (VT1) a map a validation pass declares outside its visitor callback is never re-made or "
           "cleared inside it; (RW1) see C18.",
    "C10": " (FS1) see C09: every diagnostic names its file.",
    "C11": " (R1) registered here too: type arguments given to a non-generic type are rejected before anything is resolved or written.",
    "C12": " (GC2) in the git cache every successful path that runs `git fetch` runs `git checkout` afterwards (paths enumerated with the boolean flags tracked exactly).",
    "C13": " (ST1) registered here too: type parameters are added to a copy of the symbol table, never to the shared one.",
    "C14": " (PF1, PS1) registered here too: arrays are walked in row-major order, no zero-length block inside a stream.",
    "C15": " (PU1) see C01: a header whose schema bytes are not valid text is an error, not a match; (NS2) see C04; (PH3) see C02.",
    "C16": " (PU1) see C01; (PB3) in CodedInputStream the count of available bytes is 0 or a readinto() result and the buffer is the reader's own bytearray.",
    "C17": " (GR2) see C05; (PB3) see C16.",
    "C18": " (I2, extended) in parsePackageNamespaces every success return behind the memo store lies behind the loop that hands each import to the recursion; (RW1) the rewriter replaces a node by a whole copy (`x := *t`), a "
           "node literal there sets every field (Namespace.References survives); (NK1) a back end skips a namespace of env.Namespaces only by its IsTopLevel flag, never by its contents; (GC2) see C12.",
    "C19": " (SC1) in the resolution of a bare name the pattern variables in scope are searched before the record's fields and computed fields.",
}
# Clauses added after the twelfth round of independently seeded changes.
_ADDED12 = {
    "C01": " (PF1) registered here too; (PM3) see C17.",
    "C02": " (VS3) a back-end walk that follows ResolvedDefinition keeps no set keyed by GetQualifiedName(): instantiations of one generic share that name; (NH1, CS1) registered here too. (NL3) see C16.",
    "C03": " (S1) registered here too: an end-of-stream marker is emitted only under the reference guards; (ON1) see C19; (PM3) see C17.",
    "C08": " (VS3) see C02. (AL2) now also sees a switch inside a local closure whose last statement aborts (fix 7bf9700: the MATLAB twin of 3bae236).",
    "C09": " (OK1) two results of a (T, bool) function whose verdict was discarded are never compared with each other (both may hold the function's \"nothing\" value). (ST2) see C11. (MK2) see C19.",
    "C14": " (CW1) registered here too: the C++ integer overloads dispatch by width and signedness; (VS3) see C02; (PM3) see C17.",
    "C17": " (PM3) outside __init__ no method of a Python *Serializer / *Converter stores on self anything computed from one of its arguments.",
    "C19": " (ON1) the Python back end emits no bare truthiness test of a formatted value (`if %s:`): presence is tested with `is None`; (OK1) see C09. (MK2) a map of node pointers held in a context struct is not indexed by the node's own Name (unique within its parent only).",
    "C20": " (I1) registered here too: an import cycle is reported instead of wedging the watcher. (TR1) see C10.",
    "C16": " (NL3, when nlohmann/json.hpp is installed) in the C++ NDJSON ReadProtocolValue every getline has its result tested and eof() is never consulted (eofbit is also set by the successful read of a cut-off last line).",
    "C11": " (ST2) in the build of the symbol table every path through the branch for a name that is already defined reports to the ErrorSink. (KU1) see C18.",
    "C10": " (AY1) no hand-written YAML decoder reads yaml.Node.Alias without a set of visited nodes; (TR1) a function that calls itself on a *PackageInfo without a visited set recurses through Imports only, never through Versions; (AL2) registered here too (fix 7bf9700).",
    "C18": " (KU1) the koanf round trip of the --config overrides is decoded into the object that was loaded (fields tagged yaml:\"-\" — every imported package's FilePath — survive only then).",
    "C04": " (A9) every assignment to a PreviousSchema field is a direct call of GetProtocolSchemaString (no structure marshalled after later passes renamed shared nodes).",
    "C05": " (A9) see C04.",
    "C15": " (A9) see C04.",
}
# Registrations and repairs after the thirteenth (short) round.
_ADDED13 = {
    "C09": " (SC1) registered here too; (CX1) no function assigns a field through a pointer to a traversal context it received (or a local aliasing it): a callee that needs another context for its children builds a new one.",
    "C19": " (CX1) see C09.",
    "C11": " (V5) registered here too for the topological sort: the reference-cycle check descends into the type arguments of references into other namespaces.",
    "C04": " (VS1) also reads a key built from TypeToShortSyntax(t, false) or concatenated from such parts as unqualified.",
    "C06": " (MK2) no map of pkg/dsl is keyed by the unqualified spelling of a type (TypeToShortSyntax(t, false)): same-named types of different namespaces share it.",
    "C05": " (MK2) see C06.",
    "C10": " (LW1) a loop that doubles or shifts a value until it exceeds a bound works on a math/big value or tests the value against zero as well (a machine integer wraps to 0).",
    "C13": " (LW1) see C10.",
    "C20": " (T12) is decided by types: a return in front of the generators stands under a test of an error-typed value or returns one.",
}
for _src in (_ADDED, _ADDED3, _ADDED4, _ADDED5, _ADDED6, _ADDED7, _ADDED8, _ADDED9, _ADDED10, _ADDED11, _ADDED12, _ADDED13):
    for _k, _v in _src.items():
        if _k in PROPS:
            PROPS[_k]["explanation"] += _v
