"""Properties not (yet) claimed, with the reason. Entries for properties that have a check in props.py are ignored."""
NA = {
    "C%02d" % i: "check not built yet in this round; see DESIGN.md §3 for the planned structural clause" for i in range(1, 21)
}
