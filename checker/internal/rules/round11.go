package rules

// Rules written after the eleventh round of seeded changes. As before each is a clause about a kind of construct,
// enumerated on the current tree before arming.

import (
	"fmt"
	"go/ast"
	"go/constant"
	"go/token"
	"go/types"
	"regexp"
	"strings"

	"golang.org/x/tools/go/types/typeutil"

	"verif/checker/internal/core"
)

func init() {
	reg("C10", ruleFileStampReachesEveryNode)
	reg("C09", ruleFileStampReachesEveryNode)
	reg("C12", ruleFetchImpliesCheckout)
	reg("C18", ruleFetchImpliesCheckout)
	// clauses that decided a change of round 11 under another property than the one the change was written for
	reg("C11", ruleArityCheckedBeforeResolution)             // C11-22: arguments given to a non-generic type accepted, files written
	reg("C04", ruleSpellingErased)                           // C04-22: the schema kept the spelling of a generic reference
	reg("C13", ruleSymbolTableWritesScoped)                  // C13-22: type parameters leaked into the shared table
	reg("C08", ruleWriteIfNeeded)                            // C08-22: a stale generated file next to regenerated ones
	reg("C03", ruleStateMachine)                             // C03-24: an end-of-stream marker emitted in the middle of a stream
	reg("C20", ruleCollectPackages)                          // C20-23: an import cycle that is not detected wedges the watcher
	reg("C11", rulePrunes(topoSortFiles, "V5", 2))           // C11-25: the cycle check stopped at references into other namespaces
	reg("C09", ruleVariablesShadowFields)                    // C09-25
	reg("C10", ruleResolvedDefinitionSwitchesResolveAliases) // fix 7bf9700: a Go panic of `yardl generate` on an accepted package
}

// ---------------------------------------------------------------------------------------------------------------
// FS1: the walk that stamps parsed nodes with the path of their model file reaches the nodes VisitChildren leaves
// out on purpose. VisitChildren does not descend into DefinitionMeta.TypeParameters ("leaf nodes handled by the
// pass that needs them", nonChildFields); a GenericTypeParameter carries its own NodeMeta, so a stamping walk that
// relies on VisitChildren alone leaves File empty there and the diagnostic reported on a type parameter names no
// file. The stamping walk is recognised by what it does: a visitor callback that assigns the File field of a
// NodeMeta.
// ---------------------------------------------------------------------------------------------------------------
func ruleFileStampReachesEveryNode(c *core.Ctx) {
	const rule = "FS1"
	c.Rule(rule, "pkg/dsl: a visitor callback that assigns NodeMeta.File visits the elements of DefinitionMeta.TypeParameters itself (VisitChildren skips them; each GenericTypeParameter has its own NodeMeta)", 1)
	n := 0
	for _, d := range c.AllDecls() {
		p := c.DeclPkg(d)
		if p == nil || d.Body == nil || c.IsTestFile(d.Pos()) || !strings.HasSuffix(p.PkgPath, "/pkg/dsl") {
			continue
		}
		info := p.TypesInfo
		assignsFile := func(body ast.Node) token.Pos {
			at := token.NoPos
			ast.Inspect(body, func(m ast.Node) bool {
				as, ok := m.(*ast.AssignStmt)
				if !ok {
					return true
				}
				for _, l := range as.Lhs {
					se, ok := l.(*ast.SelectorExpr)
					if !ok || se.Sel.Name != "File" {
						continue
					}
					t := info.TypeOf(se.X)
					if t == nil {
						continue
					}
					if pt, ok := t.Underlying().(*types.Pointer); ok {
						t = pt.Elem()
					}
					if nt, ok := t.(*types.Named); ok && nt.Obj().Name() == "NodeMeta" {
						at = as.Pos()
					}
				}
				return true
			})
			return at
		}
		// callbacks: function literals with a parameter of the Node interface type
		ast.Inspect(d.Body, func(m ast.Node) bool {
			fl, ok := m.(*ast.FuncLit)
			if !ok {
				return true
			}
			hasNode := false
			for _, f := range fl.Type.Params.List {
				if t := info.TypeOf(f.Type); t != nil {
					if nt, ok := t.(*types.Named); ok && nt.Obj().Name() == "Node" {
						hasNode = true
					}
				}
			}
			if !hasNode {
				return true
			}
			at := assignsFile(fl.Body)
			if at == token.NoPos {
				return true
			}
			n++
			// a range over X.TypeParameters whose body hands the element to a Visit call (or to a call that
			// receives it, e.g. a helper that stamps it)
			reaches := false
			var scan func(body ast.Node, depth int)
			scan = func(body ast.Node, depth int) {
				// expressions that stand for the list of type parameters: `X.TypeParameters` and locals bound to it
				aliases := map[types.Object]bool{}
				isTP := func(e ast.Expr) bool {
					switch x := ast.Unparen(e).(type) {
					case *ast.SelectorExpr:
						return x.Sel.Name == "TypeParameters"
					case *ast.Ident:
						return aliases[info.ObjectOf(x)]
					}
					return false
				}
				ast.Inspect(body, func(k ast.Node) bool {
					if as, ok := k.(*ast.AssignStmt); ok && len(as.Lhs) == 1 && len(as.Rhs) == 1 && isTP(as.Rhs[0]) {
						if id, ok := as.Lhs[0].(*ast.Ident); ok {
							aliases[info.ObjectOf(id)] = true
						}
					}
					return true
				})
				// elements: the value variable of a range over the list, or list[i]
				elems := map[types.Object]bool{}
				ast.Inspect(body, func(k ast.Node) bool {
					if rs, ok := k.(*ast.RangeStmt); ok && isTP(rs.X) && rs.Value != nil {
						if o := identObj(info, rs.Value); o != nil {
							elems[o] = true
						}
					}
					return true
				})
				isElem := func(e ast.Expr) bool {
					switch x := ast.Unparen(e).(type) {
					case *ast.Ident:
						return elems[info.ObjectOf(x)]
					case *ast.IndexExpr:
						return isTP(x.X)
					}
					return false
				}
				ast.Inspect(body, func(k ast.Node) bool {
					switch y := k.(type) {
					case *ast.CallExpr:
						for _, a := range y.Args {
							if isElem(a) {
								reaches = true
							}
						}
						// a helper of the package that receives the node: look inside (two levels)
						if depth < 2 {
							if fn, _ := typeutil.Callee(info, y).(*types.Func); fn != nil && fn.Pkg() == p.Types {
								if hd := c.Decl(fn); hd != nil && hd.Body != nil && hd != d {
									scan(hd.Body, depth+1)
								}
							}
						}
					case *ast.AssignStmt: // stamps the parameter directly: elem.File = path / list[i].NodeMeta.File = path
						for _, l := range y.Lhs {
							if s2, ok := l.(*ast.SelectorExpr); ok && s2.Sel.Name == "File" {
								ast.Inspect(s2.X, func(q ast.Node) bool {
									if e, ok := q.(ast.Expr); ok && isElem(e) {
										reaches = true
									}
									return true
								})
							}
						}
					}
					return true
				})
			}
			scan(fl.Body, 0)
			c.Check(reaches, rule, fmt.Sprintf("%s/stamping callback", c.FuncName(d)), at, "the callback ranges over TypeParameters and visits each",
				"this callback stamps NodeMeta.File on the nodes it is handed but never visits DefinitionMeta.TypeParameters; VisitChildren does not descend into them, so every GenericTypeParameter keeps File == \"\" and `generic type parameter 'T' is not used` is reported as `:line:col:` without a file")
			return true
		})
	}
	if n == 0 {
		c.Undecided(rule, "anchor/stamping walk", 0, "no visitor callback that assigns NodeMeta.File was found in pkg/dsl")
	}
}

// ---------------------------------------------------------------------------------------------------------------
// GC2: in the git cache, a fetch is followed by a checkout. `git fetch` moves the remote-tracking refs only; the
// files yardl parses are the working tree, which follows only on `git checkout <ref>`. So on every path of a
// function that runs `git … fetch …` and then returns success, a `git … checkout …` runs after the fetch.
// Decided by enumerating the paths of the (loop-free) function with the values of its boolean flags tracked
// exactly: a condition over known flags takes one branch, any other condition takes both.
// ---------------------------------------------------------------------------------------------------------------
type flagPath struct {
	flags  map[types.Object]bool
	events []string
	pos    []token.Pos
	done   bool // returned
	ok     bool // returned success
}

func (p *flagPath) clone() *flagPath {
	q := &flagPath{flags: map[types.Object]bool{}, events: append([]string(nil), p.events...), pos: append([]token.Pos(nil), p.pos...), done: p.done, ok: p.ok}
	for k, v := range p.flags {
		q.flags[k] = v
	}
	return q
}

type flagWalker struct {
	info      *types.Info
	event     func(ce *ast.CallExpr) string
	unsup     token.Pos
	maxPaths  int
	truncated bool
}

// eval: 1 true, 0 false, -1 unknown
func (w *flagWalker) eval(e ast.Expr, p *flagPath) int {
	switch x := ast.Unparen(e).(type) {
	case *ast.Ident:
		if tv, ok := w.info.Types[x]; ok && tv.Value != nil && tv.Value.Kind() == constant.Bool {
			if constant.BoolVal(tv.Value) {
				return 1
			}
			return 0
		}
		if o := w.info.Uses[x]; o != nil {
			if v, ok := p.flags[o]; ok {
				if v {
					return 1
				}
				return 0
			}
		}
	case *ast.UnaryExpr:
		if x.Op == token.NOT {
			if v := w.eval(x.X, p); v >= 0 {
				return 1 - v
			}
		}
	case *ast.BinaryExpr:
		l, r := w.eval(x.X, p), w.eval(x.Y, p)
		switch x.Op {
		case token.LOR:
			if l == 1 || r == 1 {
				return 1
			}
			if l == 0 && r == 0 {
				return 0
			}
		case token.LAND:
			if l == 0 || r == 0 {
				return 0
			}
			if l == 1 && r == 1 {
				return 1
			}
		case token.EQL:
			if l >= 0 && r >= 0 {
				if l == r {
					return 1
				}
				return 0
			}
		case token.NEQ:
			if l >= 0 && r >= 0 {
				if l != r {
					return 1
				}
				return 0
			}
		}
	}
	return -1
}

func (w *flagWalker) calls(n ast.Node, p *flagPath) {
	if n == nil {
		return
	}
	ast.Inspect(n, func(k ast.Node) bool {
		if _, ok := k.(*ast.FuncLit); ok {
			return false
		}
		if ce, ok := k.(*ast.CallExpr); ok {
			if ev := w.event(ce); ev != "" {
				p.events = append(p.events, ev)
				p.pos = append(p.pos, ce.Pos())
			}
		}
		return true
	})
}

func (w *flagWalker) assign(lhs ast.Expr, rhs ast.Expr, p *flagPath) {
	id, ok := lhs.(*ast.Ident)
	if !ok {
		return
	}
	o := w.info.ObjectOf(id)
	if o == nil {
		return
	}
	if b, ok := o.Type().Underlying().(*types.Basic); !ok || b.Kind() != types.Bool {
		return
	}
	if rhs == nil {
		p.flags[o] = false
		return
	}
	switch v := w.eval(rhs, p); v {
	case 1:
		p.flags[o] = true
	case 0:
		p.flags[o] = false
	default:
		delete(p.flags, o)
	}
}

func (w *flagWalker) block(list []ast.Stmt, in []*flagPath) []*flagPath {
	cur := in
	for _, s := range list {
		cur = w.stmt(s, cur)
	}
	return cur
}

func (w *flagWalker) stmt(s ast.Stmt, in []*flagPath) []*flagPath {
	var out []*flagPath
	if len(in) > w.maxPaths {
		w.truncated = true
		in = in[:w.maxPaths]
	}
	for _, p := range in {
		if p.done {
			out = append(out, p)
			continue
		}
		switch x := s.(type) {
		case *ast.BlockStmt:
			out = append(out, w.block(x.List, []*flagPath{p})...)
		case *ast.IfStmt:
			ps := []*flagPath{p}
			if x.Init != nil {
				ps = w.stmt(x.Init, ps)
			}
			for _, q := range ps {
				w.calls(x.Cond, q)
				v := w.eval(x.Cond, q)
				if v != 0 {
					out = append(out, w.block(x.Body.List, []*flagPath{q.clone()})...)
				}
				if v != 1 {
					if x.Else != nil {
						out = append(out, w.stmt(x.Else, []*flagPath{q.clone()})...)
					} else {
						out = append(out, q.clone())
					}
				}
			}
		case *ast.ReturnStmt:
			for _, r := range x.Results {
				w.calls(r, p)
			}
			p.done = true
			p.ok = true
			if len(x.Results) > 0 {
				last := x.Results[len(x.Results)-1]
				if t := w.info.TypeOf(last); t != nil && types.Identical(t, types.Universe.Lookup("error").Type()) || isNilIdentT(w.info, last) {
					p.ok = isNilIdentT(w.info, last)
				}
			}
			out = append(out, p)
		case *ast.AssignStmt:
			for _, r := range x.Rhs {
				w.calls(r, p)
			}
			if len(x.Lhs) == len(x.Rhs) {
				for i := range x.Lhs {
					w.assign(x.Lhs[i], x.Rhs[i], p)
				}
			} else {
				for _, l := range x.Lhs {
					if id, ok := l.(*ast.Ident); ok {
						if o := w.info.ObjectOf(id); o != nil {
							delete(p.flags, o)
						}
					}
				}
			}
			out = append(out, p)
		case *ast.DeclStmt:
			if gd, ok := x.Decl.(*ast.GenDecl); ok {
				for _, sp := range gd.Specs {
					if vs, ok := sp.(*ast.ValueSpec); ok {
						for i, nm := range vs.Names {
							if i < len(vs.Values) {
								w.calls(vs.Values[i], p)
								w.assign(nm, vs.Values[i], p)
							} else {
								w.assign(nm, nil, p)
							}
						}
					}
				}
			}
			out = append(out, p)
		case *ast.ExprStmt:
			w.calls(x.X, p)
			if ce, ok := x.X.(*ast.CallExpr); ok {
				if id, ok := ce.Fun.(*ast.Ident); ok && id.Name == "panic" {
					p.done, p.ok = true, false
				}
			}
			out = append(out, p)
		case *ast.ForStmt, *ast.RangeStmt, *ast.SwitchStmt, *ast.TypeSwitchStmt, *ast.SelectStmt, *ast.LabeledStmt, *ast.BranchStmt, *ast.GoStmt:
			// not needed for the functions this is used on: anything relevant inside makes the rule undecided
			relevant := false
			ast.Inspect(x, func(k ast.Node) bool {
				if ce, ok := k.(*ast.CallExpr); ok && w.event(ce) != "" {
					relevant = true
				}
				if _, ok := k.(*ast.ReturnStmt); ok {
					relevant = true
				}
				return true
			})
			if relevant && w.unsup == token.NoPos {
				w.unsup = x.Pos()
			}
			// flags assigned inside become unknown
			ast.Inspect(x, func(k ast.Node) bool {
				if as, ok := k.(*ast.AssignStmt); ok {
					for _, l := range as.Lhs {
						if id, ok := l.(*ast.Ident); ok {
							if o := w.info.ObjectOf(id); o != nil {
								delete(p.flags, o)
							}
						}
					}
				}
				return true
			})
			out = append(out, p)
		default:
			out = append(out, p)
		}
	}
	return out
}

func isNilIdentT(info *types.Info, e ast.Expr) bool {
	id, ok := ast.Unparen(e).(*ast.Ident)
	if !ok {
		return false
	}
	_, isNil := info.Uses[id].(*types.Nil)
	return isNil
}

func gitSubcommand(info *types.Info, ce *ast.CallExpr) string {
	for _, a := range ce.Args {
		if tv, ok := info.Types[a]; ok && tv.Value != nil && tv.Value.Kind() == constant.String {
			switch constant.StringVal(tv.Value) {
			case "fetch", "checkout", "pull", "clone":
				return constant.StringVal(tv.Value)
			}
		}
	}
	return ""
}

func ruleFetchImpliesCheckout(c *core.Ctx) {
	const rule = "GC2"
	c.Rule(rule, "pkg/packaging: on every path of a function that runs `git fetch` and returns success, a `git checkout` runs after the fetch (fetch moves the remote-tracking refs only; the model files are read from the working tree)", 1)
	n := 0
	for _, d := range c.AllDecls() {
		p := c.DeclPkg(d)
		if p == nil || d.Body == nil || c.IsTestFile(d.Pos()) || !strings.HasSuffix(p.PkgPath, "/pkg/packaging") {
			continue
		}
		info := p.TypesInfo
		hasFetch := false
		ast.Inspect(d.Body, func(k ast.Node) bool {
			if ce, ok := k.(*ast.CallExpr); ok && gitSubcommand(info, ce) == "fetch" {
				hasFetch = true
			}
			return true
		})
		if !hasFetch {
			continue
		}
		w := &flagWalker{info: info, event: func(ce *ast.CallExpr) string { return gitSubcommand(info, ce) }, maxPaths: 200000}
		paths := w.block(d.Body.List, []*flagPath{{flags: map[types.Object]bool{}}})
		if w.unsup != token.NoPos || w.truncated {
			c.Undecided(rule, c.FuncName(d)+"/shape", d.Pos(), "the function has a loop, switch or too many paths around its git calls: paths not enumerated")
			continue
		}
		nf, bad := 0, token.NoPos
		for _, q := range paths {
			if !q.done || !q.ok {
				continue
			}
			lastFetch, lastCheckout := -1, -1
			for i, e := range q.events {
				if e == "fetch" {
					lastFetch = i
				}
				if e == "checkout" {
					lastCheckout = i
				}
			}
			if lastFetch < 0 {
				continue
			}
			nf++
			if lastCheckout < lastFetch && bad == token.NoPos {
				bad = q.pos[lastFetch]
			}
		}
		n++
		at := d.Pos()
		if bad != token.NoPos {
			at = bad
		}
		if nf == 0 {
			c.Undecided(rule, c.FuncName(d)+"/fetch then success", d.Pos(), "no successful path passes the fetch")
			continue
		}
		c.Check(bad == token.NoPos, rule, c.FuncName(d)+"/fetch then checkout", at, fmt.Sprintf("%d successful paths pass the fetch; each runs the checkout afterwards", nf),
			"a successful path runs `git fetch` and returns without a later `git checkout`: the remote-tracking ref moves, the working tree yardl parses stays on the old commit — this run generates from stale files, the next run (which sees ref != HEAD) from the new ones: two runs on unchanged inputs differ")
	}
	if n == 0 {
		c.Undecided(rule, "anchor/git fetch", 0, "no function of pkg/packaging runs `git fetch`")
	}
}

func init() {
	reg("C18", ruleRewriterCopiesWholeNodes)
	reg("C09", ruleRewriterCopiesWholeNodes)
	reg("C08", ruleRewriterCopiesWholeNodes)
	reg("C04", ruleSchemaViewsKeepModelOrder)
	reg("C15", ruleSchemaViewsKeepModelOrder)
	reg("C01", ruleSchemaViewsKeepModelOrder)
	reg("C09", ruleValidationTablesNotRemadeInsideTheWalk)
}

// ---------------------------------------------------------------------------------------------------------------
// RW1: the rewriter replaces a node by a COPY of the whole node (`x := *t`) with the rewritten children stored into
// it. A node rebuilt from a composite literal that leaves fields out silently drops them (Namespace.References — the
// import edges — has `json:"-"` and no test looks at it). Every composite literal of a node struct type inside the
// rewriter sets every field of the struct.
// ---------------------------------------------------------------------------------------------------------------
func ruleRewriterCopiesWholeNodes(c *core.Ctx) {
	const rule = "RW1"
	c.Rule(rule, "pkg/dsl rewriter (defaultRewriteImpl and its helpers in rewriter.go): a replaced node is a copy of the whole node (`x := *t`); a composite literal of a node struct type there sets every field of the struct", 15)
	p := c.Pkg("pkg/dsl")
	if p == nil {
		c.Undecided(rule, "anchor/pkg/dsl", 0, "package not found")
		return
	}
	nodeTN, _ := p.Types.Scope().Lookup("Node").(*types.TypeName)
	var nodeIface *types.Interface
	if nodeTN != nil {
		nodeIface, _ = nodeTN.Type().Underlying().(*types.Interface)
	}
	if nodeIface == nil {
		c.Undecided(rule, "anchor/Node", 0, "interface Node not found")
		return
	}
	info := p.TypesInfo
	n := 0
	for _, d := range c.AllDecls() {
		if c.DeclPkg(d) != p || d.Body == nil || c.IsTestFile(d.Pos()) || !strings.HasSuffix(c.PosStr(d.Pos()), "") {
			continue
		}
		if !strings.Contains(c.PosStr(d.Pos()), "/pkg/dsl/rewriter.go") {
			continue
		}
		ast.Inspect(d.Body, func(m ast.Node) bool {
			switch x := m.(type) {
			case *ast.AssignStmt:
				// x := *t with t a pointer to a node struct
				if x.Tok == token.DEFINE && len(x.Rhs) == 1 {
					if st, ok := x.Rhs[0].(*ast.StarExpr); ok {
						if t := info.TypeOf(st.X); t != nil && types.Implements(t, nodeIface) {
							n++
							c.OK(rule, fmt.Sprintf("%s/copy of %s", c.FuncName(d), types.TypeString(t, func(*types.Package) string { return "" })), x.Pos(), "whole-node copy")
						}
					}
				}
			case *ast.CompositeLit:
				t := info.TypeOf(x)
				if t == nil {
					return true
				}
				st, ok := t.Underlying().(*types.Struct)
				if !ok || !(types.Implements(types.NewPointer(t), nodeIface) || types.Implements(t, nodeIface)) {
					return true
				}
				n++
				set := map[string]bool{}
				positional := len(x.Elts) > 0
				for _, e := range x.Elts {
					if kv, ok := e.(*ast.KeyValueExpr); ok {
						positional = false
						if id, ok := kv.Key.(*ast.Ident); ok {
							set[id.Name] = true
						}
					}
				}
				var missing []string
				if !positional {
					for i := 0; i < st.NumFields(); i++ {
						if !set[st.Field(i).Name()] {
							missing = append(missing, st.Field(i).Name())
						}
					}
				}
				c.Check(len(missing) == 0, rule, fmt.Sprintf("%s/literal %s", c.FuncName(d), types.TypeString(t, func(*types.Package) string { return "" })), x.Pos(), "the literal sets every field",
					"the rewriter builds a "+types.TypeString(t, func(*types.Package) string { return "" })+" from a literal that leaves out "+strings.Join(missing, ", ")+": whatever the original node held there is lost in the rewritten tree (for Namespace.References: the import edges — the Python back end then emits no `from . import <ns>` for a package with computed fields that imports another)")
			}
			return true
		})
	}
	if n == 0 {
		c.Undecided(rule, "anchor/rewriter", 0, "no node copies found in pkg/dsl/rewriter.go")
	}
}

// ---------------------------------------------------------------------------------------------------------------
// NS2: the JSON views of the model (MarshalJSON in pkg/dsl) list cases, fields, values and steps in MODEL order.
// The order of union cases (the case index is written), record fields, enum values and protocol steps is part of the
// wire format; a view that sorts — even a copy — gives two models with different encodings the same schema text.
// ---------------------------------------------------------------------------------------------------------------
func ruleSchemaViewsKeepModelOrder(c *core.Ctx) {
	const rule = "NS2"
	c.Rule(rule, "pkg/dsl: no MarshalJSON method (nor a helper of json.go it calls) sorts or reverses anything: union cases, record fields, enum values, protocol steps and dimensions appear in the schema in model order, which is the order the wire format depends on", 8)
	p := c.Pkg("pkg/dsl")
	if p == nil {
		c.Undecided(rule, "anchor/pkg/dsl", 0, "package not found")
		return
	}
	info := p.TypesInfo
	sorters := map[string]bool{"sort.Slice": true, "sort.SliceStable": true, "sort.Sort": true, "sort.Stable": true, "sort.Strings": true, "sort.Ints": true,
		"slices.Sort": true, "slices.SortFunc": true, "slices.SortStableFunc": true, "slices.Reverse": true, "slices.Sorted": true, "slices.SortedFunc": true}
	n := 0
	seen := map[*ast.FuncDecl]bool{}
	var visit func(root, d *ast.FuncDecl, depth int) token.Pos
	visit = func(root, d *ast.FuncDecl, depth int) token.Pos {
		if d == nil || d.Body == nil || depth > 3 {
			return token.NoPos
		}
		bad := token.NoPos
		ast.Inspect(d.Body, func(m ast.Node) bool {
			ce, ok := m.(*ast.CallExpr)
			if !ok {
				return true
			}
			fn, _ := typeutil.Callee(info, ce).(*types.Func)
			if fn == nil || fn.Pkg() == nil {
				return true
			}
			if sorters[fn.Pkg().Name()+"."+fn.Name()] {
				bad = ce.Pos()
			} else if fn.Pkg() == p.Types {
				if hd := c.Decl(fn); hd != nil && hd != root && !seen[hd] && strings.Contains(c.PosStr(hd.Pos()), "/pkg/dsl/json.go") {
					seen[hd] = true
					if b := visit(root, hd, depth+1); b != token.NoPos {
						bad = b
					}
					delete(seen, hd)
				}
			}
			return true
		})
		return bad
	}
	for _, d := range c.AllDecls() {
		if c.DeclPkg(d) != p || d.Body == nil || d.Recv == nil || d.Name.Name != "MarshalJSON" || c.IsTestFile(d.Pos()) {
			continue
		}
		n++
		bad := visit(d, d, 0)
		at := d.Pos()
		if bad != token.NoPos {
			at = bad
		}
		c.Check(bad == token.NoPos, rule, c.FuncName(d)+"/model order", at, "nothing is sorted or reversed on the way to the JSON text",
			"this view sorts or reverses what it marshals: the schema text no longer reflects the order of the model. Two models that differ only in the order of union cases (or fields, values, steps) — and therefore in their encoding — embed the same schema, and a reader accepts and misdecodes the other's stream")
	}
	if n == 0 {
		c.Undecided(rule, "anchor/MarshalJSON", 0, "no MarshalJSON method in pkg/dsl")
	}
}

// ---------------------------------------------------------------------------------------------------------------
// VT1: a table a validation pass fills while it walks the environment lives as long as the walk. A map declared
// outside a visitor callback and captured by it is never re-made (`m = make(...)`, `m = map[..]..{}`, clear(m))
// inside the callback: a rule that compares every definition with every earlier one ("tag combination already in
// use", duplicate names) would otherwise see only the definitions since the last reset, e.g. of one namespace.
// ---------------------------------------------------------------------------------------------------------------
func ruleValidationTablesNotRemadeInsideTheWalk(c *core.Ctx) {
	const rule = "VT1"
	c.Rule(rule, "pkg/dsl validation passes: a map declared outside a visitor callback and captured by it is not re-made or cleared inside the callback (environment-wide uniqueness tables cover the whole walk)", 1)
	p := c.Pkg("pkg/dsl")
	if p == nil {
		c.Undecided(rule, "anchor/pkg/dsl", 0, "package not found")
		return
	}
	info := p.TypesInfo
	n := 0
	for _, d := range c.AllDecls() {
		if c.DeclPkg(d) != p || d.Body == nil || c.IsTestFile(d.Pos()) || !strings.Contains(c.PosStr(d.Pos()), "/pkg/dsl/validation") {
			continue
		}
		ast.Inspect(d.Body, func(m ast.Node) bool {
			fl, ok := m.(*ast.FuncLit)
			if !ok {
				return true
			}
			// a visitor callback: has a parameter of type Node
			isCb := false
			for _, f := range fl.Type.Params.List {
				if nt, ok := info.TypeOf(f.Type).(*types.Named); ok && nt.Obj().Name() == "Node" {
					isCb = true
				}
			}
			if !isCb {
				return true
			}
			captured := map[types.Object]bool{}
			ast.Inspect(fl.Body, func(k ast.Node) bool {
				id, ok := k.(*ast.Ident)
				if !ok {
					return true
				}
				o, _ := info.Uses[id].(*types.Var)
				if o == nil || o.IsField() || o.Pkg() != p.Types {
					return true
				}
				if _, isMap := o.Type().Underlying().(*types.Map); !isMap {
					return true
				}
				if o.Pos() < fl.Pos() && o.Pos() > d.Pos() { // declared in the enclosing function, before the literal
					captured[o] = true
				}
				return true
			})
			for o := range captured {
				n++
				bad := token.NoPos
				ast.Inspect(fl.Body, func(k ast.Node) bool {
					switch y := k.(type) {
					case *ast.AssignStmt:
						if y.Tok == token.ASSIGN {
							for _, l := range y.Lhs {
								if id, ok := l.(*ast.Ident); ok && info.Uses[id] == types.Object(o) {
									bad = y.Pos()
								}
							}
						}
					case *ast.CallExpr:
						if id, ok := y.Fun.(*ast.Ident); ok && id.Name == "clear" && len(y.Args) == 1 {
							if a, ok := y.Args[0].(*ast.Ident); ok && info.Uses[a] == types.Object(o) {
								bad = y.Pos()
							}
						}
					}
					return true
				})
				at := o.Pos()
				if bad != token.NoPos {
					at = bad
				}
				c.Check(bad == token.NoPos, rule, fmt.Sprintf("%s/%s", c.FuncName(d), o.Name()), at, "the table is filled and consulted, never re-made, inside the walk",
					"the table `"+o.Name()+"` is re-made inside the visitor callback: entries recorded before that point are forgotten, so the rule it implements compares a definition only with those visited since the reset (e.g. of the same namespace) and a conflict with an imported namespace is accepted")
			}
			return true
		})
	}
	if n == 0 {
		c.Undecided(rule, "anchor/captured tables", 0, "no visitor callback of a validation pass captures a map")
	}
}

func init() {
	reg("C05", rulePositionalSlicesIndexedByTheirOwnLoop)
	reg("C06", rulePositionalSlicesIndexedByTheirOwnLoop)
}

// ---------------------------------------------------------------------------------------------------------------
// IX2: a slice made with `make([]T, len(S))` is positional in S: entry k describes S[k]. A store into it that stands
// inside `for i := range S` uses the index i of that loop (or a local that is i) — not an index into another
// collection (ProtocolChange.StepChanges is read by validation and by the C++ generator by the position of the step
// in the NEW protocol; an index into the old protocol's step list puts a conversion into another step's slot).
// ---------------------------------------------------------------------------------------------------------------
func rulePositionalSlicesIndexedByTheirOwnLoop(c *core.Ctx) {
	const rule = "IX2"
	c.Rule(rule, "pkg/dsl: a store `X[k] = v` into a slice X made with make([]T, len(S)) that stands inside `for i := range S` has k == i (or a local defined as i)", 2)
	n := 0
	for _, d := range c.AllDecls() {
		p := c.DeclPkg(d)
		if p == nil || d.Body == nil || c.IsTestFile(d.Pos()) || !strings.HasSuffix(p.PkgPath, "/pkg/dsl") {
			continue
		}
		info := p.TypesInfo
		// positional slices: name (local identifier object, or field name) -> text of S
		type posSlice struct {
			obj   types.Object
			field string
			of    string
		}
		var slices []posSlice
		lenOf := func(e ast.Expr) string {
			ce, ok := e.(*ast.CallExpr)
			if !ok || len(ce.Args) != 2 {
				return ""
			}
			if id, ok := ce.Fun.(*ast.Ident); !ok || id.Name != "make" {
				return ""
			}
			if _, ok := info.TypeOf(ce.Args[0]).Underlying().(*types.Slice); !ok {
				return ""
			}
			l, ok := ce.Args[1].(*ast.CallExpr)
			if !ok || len(l.Args) != 1 {
				return ""
			}
			if id, ok := l.Fun.(*ast.Ident); !ok || id.Name != "len" {
				return ""
			}
			return types.ExprString(l.Args[0])
		}
		ast.Inspect(d.Body, func(m ast.Node) bool {
			switch x := m.(type) {
			case *ast.AssignStmt:
				if len(x.Lhs) == len(x.Rhs) {
					for i := range x.Lhs {
						if s := lenOf(x.Rhs[i]); s != "" {
							if id, ok := x.Lhs[i].(*ast.Ident); ok {
								slices = append(slices, posSlice{obj: info.ObjectOf(id), of: s})
							} else if se, ok := x.Lhs[i].(*ast.SelectorExpr); ok {
								slices = append(slices, posSlice{field: se.Sel.Name, of: s})
							}
						}
					}
				}
			case *ast.KeyValueExpr:
				if id, ok := x.Key.(*ast.Ident); ok {
					if s := lenOf(x.Value); s != "" {
						slices = append(slices, posSlice{field: id.Name, of: s})
					}
				}
			}
			return true
		})
		if len(slices) == 0 {
			continue
		}
		var loops []*ast.RangeStmt
		var walk func(node ast.Node)
		walk = func(node ast.Node) {
			ast.Inspect(node, func(m ast.Node) bool {
				switch x := m.(type) {
				case *ast.RangeStmt:
					loops = append(loops, x)
					walk(x.Body)
					loops = loops[:len(loops)-1]
					return false
				case *ast.AssignStmt:
					if x.Tok != token.ASSIGN {
						return true
					}
					for _, l := range x.Lhs {
						ie, ok := l.(*ast.IndexExpr)
						if !ok {
							continue
						}
						var ps *posSlice
						for i := range slices {
							s := &slices[i]
							if id, ok := ie.X.(*ast.Ident); ok && s.obj != nil && info.ObjectOf(id) == s.obj {
								ps = s
							}
							if se, ok := ie.X.(*ast.SelectorExpr); ok && s.field != "" && se.Sel.Name == s.field {
								ps = s
							}
						}
						if ps == nil {
							continue
						}
						// the innermost enclosing loop over S
						var loop *ast.RangeStmt
						for k := len(loops) - 1; k >= 0; k-- {
							if types.ExprString(loops[k].X) == ps.of {
								loop = loops[k]
								break
							}
						}
						if loop == nil || loop.Key == nil {
							continue
						}
						n++
						key := identObj(info, loop.Key)
						good := false
						if id, ok := ast.Unparen(ie.Index).(*ast.Ident); ok {
							o := info.ObjectOf(id)
							if o == key {
								good = true
							} else {
								// a local defined once as the loop index
								ast.Inspect(loop.Body, func(q ast.Node) bool {
									if as, ok := q.(*ast.AssignStmt); ok && as.Tok == token.DEFINE && len(as.Lhs) == 1 && len(as.Rhs) == 1 {
										if l0, ok := as.Lhs[0].(*ast.Ident); ok && info.ObjectOf(l0) == o {
											if r0, ok := ast.Unparen(as.Rhs[0]).(*ast.Ident); ok && info.ObjectOf(r0) == key {
												good = true
											}
										}
									}
									return true
								})
							}
						}
						if !good && key != nil {
							// a function of the loop's index alone (`len(S)-1-i`: the list is filled back to front)
							usesKey, usesOther := false, false
							inS := map[string]bool{}
							ast.Inspect(loop.X, func(q ast.Node) bool {
								if id, ok := q.(*ast.Ident); ok {
									inS[id.Name] = true
								}
								return true
							})
							ast.Inspect(ie.Index, func(q ast.Node) bool {
								if id, ok := q.(*ast.Ident); ok {
									switch {
									case info.ObjectOf(id) == key:
										usesKey = true
									case id.Name == "len" || inS[id.Name]:
									default:
										if _, isConst := info.ObjectOf(id).(*types.Const); !isConst {
											usesOther = true
										}
									}
								}
								return true
							})
							good = usesKey && !usesOther
						}
						c.Check(good, rule, fmt.Sprintf("%s/%s[…] inside range %s", c.FuncName(d), types.ExprString(ie.X), ps.of), x.Pos(), "indexed by the loop's own index",
							fmt.Sprintf("`%s` was made with len(%s) and is stored into inside `range %s`, but at index `%s`, not at the loop's index: the entry lands in the slot of another element of %s whenever the two numberings differ (a step added in front of a changed step: the added step's slot is overwritten and the changed step's conversion is missing)", types.ExprString(ie.X), ps.of, ps.of, types.ExprString(ie.Index), ps.of))
					}
				}
				return true
			})
		}
		walk(d.Body)
	}
	if n == 0 {
		c.Undecided(rule, "anchor/positional slices", 0, "none found")
	}
}

func init() {
	reg("C06", ruleSkippingTheNullCaseNeedsANullCase)
	reg("C05", ruleSkippingTheNullCaseNeedsANullCase)
}

// ---------------------------------------------------------------------------------------------------------------
// NC1: `X.Cases[1:]` means "the cases of X without the leading null case". It stands only where X is known to
// have one: under `X.Cases.HasNullOption()` or `X.Cases.IsOptional()` (as a conjunct of an enclosing condition, or
// established by an earlier `if !… { leave }`). Without the fact the first real case of a union without null is
// skipped and the indexes computed from the loop (`i + 1`) are off by one.
// ---------------------------------------------------------------------------------------------------------------
func ruleSkippingTheNullCaseNeedsANullCase(c *core.Ctx) {
	const rule = "NC1"
	c.Rule(rule, "pkg/dsl, internal/*: every `X.Cases[1:]` is dominated by the fact X.Cases.HasNullOption() or X.Cases.IsOptional() (conjunct of an enclosing condition or an earlier leaving test)", 1)
	n := 0
	for _, d := range c.AllDecls() {
		p := c.DeclPkg(d)
		if p == nil || d.Body == nil || c.IsTestFile(d.Pos()) {
			continue
		}
		var stack []ast.Node
		ast.Inspect(d.Body, func(m ast.Node) bool {
			if m == nil {
				stack = stack[:len(stack)-1]
				return true
			}
			stack = append(stack, m)
			se, ok := m.(*ast.SliceExpr)
			if !ok || se.Low == nil || se.High != nil || types.ExprString(se.Low) != "1" {
				return true
			}
			sel, ok := se.X.(*ast.SelectorExpr)
			if !ok || sel.Sel.Name != "Cases" {
				return true
			}
			subject := types.ExprString(se.X)
			n++
			facts := map[string]bool{}
			var pos func(e ast.Expr)
			var neg func(e ast.Expr)
			pos = func(e ast.Expr) {
				switch x := ast.Unparen(e).(type) {
				case *ast.BinaryExpr:
					if x.Op == token.LAND {
						pos(x.X)
						pos(x.Y)
					}
				case *ast.UnaryExpr:
					if x.Op == token.NOT {
						neg(x.X)
					}
				case *ast.CallExpr:
					facts[types.ExprString(x)] = true
				}
			}
			neg = func(e ast.Expr) {
				switch x := ast.Unparen(e).(type) {
				case *ast.BinaryExpr:
					if x.Op == token.LOR {
						neg(x.X)
						neg(x.Y)
					}
				case *ast.UnaryExpr:
					if x.Op == token.NOT {
						pos(x.X)
					}
				}
			}
			for i := len(stack) - 2; i >= 0; i-- {
				child := stack[i+1]
				switch a := stack[i].(type) {
				case *ast.IfStmt:
					if child == ast.Node(a.Body) {
						pos(a.Cond)
					} else if a.Else != nil && child == ast.Node(a.Else) {
						neg(a.Cond)
					}
				case *ast.BlockStmt:
					for _, s := range a.List {
						if ast.Node(s) == child {
							break
						}
						if is, ok := s.(*ast.IfStmt); ok && is.Else == nil && terminatesBlock(is.Body) {
							neg(is.Cond)
						}
					}
				case *ast.FuncLit:
					i = -1
				}
			}
			ok2 := facts[subject+".HasNullOption()"] || facts[subject+".IsOptional()"]
			c.Check(ok2, rule, fmt.Sprintf("%s/%s[1:]", c.FuncName(d), subject), se.Pos(), "a null case is known to lead the list",
				"`"+subject+"[1:]` skips the first case, but nothing on the path says that "+subject+" starts with the null case: for a union without null the first real case is never looked at and the case index computed from the loop is off by one (an optional T is then accepted as compatible with a union that has no null case)")
			return true
		})
	}
	if n == 0 {
		c.Undecided(rule, "anchor/Cases[1:]", 0, "none found")
	}
}

func terminatesBlock(b *ast.BlockStmt) bool {
	if b == nil || len(b.List) == 0 {
		return false
	}
	switch s := b.List[len(b.List)-1].(type) {
	case *ast.ReturnStmt:
		return true
	case *ast.BranchStmt:
		return s.Tok == token.CONTINUE || s.Tok == token.BREAK
	case *ast.ExprStmt:
		if ce, ok := s.X.(*ast.CallExpr); ok {
			if id, ok := ce.Fun.(*ast.Ident); ok && id.Name == "panic" {
				return true
			}
		}
	}
	return false
}

func init() {
	reg("C17", ruleConversionsOverwriteTheirTarget)
	reg("C05", ruleConversionsOverwriteTheirTarget)
}

// ---------------------------------------------------------------------------------------------------------------
// GR2: the emitted version conversions of cpp/binary OVERWRITE their target. The target of a conversion on the read
// path is the caller's object, reused for every item and every batch; an emission that accumulates into it
// (push_back / emplace_back / insert / append / += / |=) must be preceded, among the statements that run before it in
// the same generator function, by an emission that empties it (`T.clear()`, `T = …`, `T.resize(0)`), otherwise batch k
// carries the items of batches 1..k-1 in front of its own. GR1 is the same clause for the NDJSON from_json functions.
// ---------------------------------------------------------------------------------------------------------------
func ruleConversionsOverwriteTheirTarget(c *core.Ctx) {
	const rule = "GR2"
	c.Rule(rule, "cpp/binary: every emission of a conversion function that writes through its target parameter either assigns / resizes / indexes it, or — if it accumulates (push_back, emplace_back, insert, append, +=, |=) — follows an emission that empties the target", 3)
	accRe := regexp.MustCompile(`^\s*%(\[1\])?s(\.push_back\(|\.emplace_back\(|\.emplace\(|\.insert\(|\.append\(|\s*\+=|\s*\|=)`)
	writeRe := regexp.MustCompile(`^\s*%(\[1\])?s(\s*=[^=]|\[[^\]]*\]\s*=[^=]|\.resize\(|\.clear\(|\.assign\(|\.reserve\()`)
	emptyRe := regexp.MustCompile(`^\s*%(\[1\])?s(\s*=[^=]|\.clear\(\)|\.resize\(0\))`)
	n := 0
	for _, d := range c.AllDecls() {
		p := c.DeclPkg(d)
		if p == nil || d.Body == nil || c.IsTestFile(d.Pos()) || !strings.HasSuffix(p.PkgPath, "/internal/cpp/binary") {
			continue
		}
		info := p.TypesInfo
		targets := map[types.Object]bool{}
		for _, f := range d.Type.Params.List {
			for _, nm := range f.Names {
				if strings.Contains(strings.ToLower(nm.Name), "target") {
					targets[info.Defs[nm]] = true
				}
			}
		}
		if len(targets) == 0 {
			continue
		}
		tmplOn := func(ce *ast.CallExpr) (string, bool) {
			for i, a := range ce.Args {
				tv, ok := info.Types[a]
				if !ok || tv.Value == nil || tv.Value.Kind() != constant.String {
					continue
				}
				if i+1 < len(ce.Args) {
					if id, ok := ast.Unparen(ce.Args[i+1]).(*ast.Ident); ok && targets[info.Uses[id]] {
						return constant.StringVal(tv.Value), true
					}
				}
				return "", false
			}
			return "", false
		}
		var stack []ast.Node
		ast.Inspect(d.Body, func(m ast.Node) bool {
			if m == nil {
				stack = stack[:len(stack)-1]
				return true
			}
			stack = append(stack, m)
			ce, ok := m.(*ast.CallExpr)
			if !ok {
				return true
			}
			t, ok := tmplOn(ce)
			if !ok || !(accRe.MatchString(t) || writeRe.MatchString(t)) {
				return true
			}
			n++
			if !accRe.MatchString(t) {
				c.OK(rule, fmt.Sprintf("%s/%s#%d", c.FuncName(d), strings.TrimSpace(firstWords(t, 3)), n), ce.Pos(), "assigns, indexes or sizes the target")
				return true
			}
			// statements that precede the emission in the enclosing statement lists (up to the function)
			emptied := false
			for i := len(stack) - 2; i >= 0 && !emptied; i-- {
				var list []ast.Stmt
				switch a := stack[i].(type) {
				case *ast.BlockStmt:
					list = a.List
				case *ast.CaseClause:
					list = a.Body
				default:
					continue
				}
				for _, s := range list {
					if s.Pos() >= stack[i+1].Pos() {
						break
					}
					if es, ok := s.(*ast.ExprStmt); ok {
						if pc, ok := es.X.(*ast.CallExpr); ok {
							if pt, ok := tmplOn(pc); ok && emptyRe.MatchString(pt) {
								emptied = true
							}
						}
					}
				}
			}
			c.Check(emptied, rule, fmt.Sprintf("%s/%s#%d", c.FuncName(d), strings.TrimSpace(firstWords(t, 3)), n), ce.Pos(), "the target was emptied by an earlier emission",
				"the emitted conversion accumulates into its target (`"+strings.TrimSpace(t)+"`) and nothing printed before it empties the target: on the read path the target is the caller's vector, reused for every batch and every item, so each read piles its items on top of those of the earlier reads")
			return true
		})
	}
	if n == 0 {
		c.Undecided(rule, "anchor/target emissions", 0, "no emission through a target parameter found in cpp/binary")
	}
}

func init() {
	reg("C18", ruleBackEndsSkipNamespacesOnlyByLevel)
	reg("C08", ruleBackEndsSkipNamespacesOnlyByLevel)
}

// ---------------------------------------------------------------------------------------------------------------
// NK1: a back end that loops over env.Namespaces skips a namespace only because of its LEVEL (`ns.IsTopLevel`:
// protocols, mocks and translators exist for the top level only), never because of its contents. Importers emit
// `from . import <ns>` / `#include "<ns>/types.h"` / `+<ns>` references for every namespace they reference; a
// namespace left out because it "has nothing to emit" (no types, protocols only, an umbrella package) is referred to
// but not generated.
// ---------------------------------------------------------------------------------------------------------------
func ruleBackEndsSkipNamespacesOnlyByLevel(c *core.Ctx) {
	const rule = "NK1"
	c.Rule(rule, "internal/* back ends: inside `for … := range <env>.Namespaces` a `continue` of that loop stands only under a condition on the namespace's IsTopLevel flag", 8)
	n := 0
	for _, d := range c.AllDecls() {
		p := c.DeclPkg(d)
		if p == nil || d.Body == nil || c.IsTestFile(d.Pos()) || !strings.Contains(p.PkgPath, "/internal/") || strings.HasSuffix(p.PkgPath, "/internal/cmd") {
			continue
		}
		k := 0
		ast.Inspect(d.Body, func(m ast.Node) bool {
			rs, ok := m.(*ast.RangeStmt)
			if !ok {
				return true
			}
			se, ok := rs.X.(*ast.SelectorExpr)
			if !ok || se.Sel.Name != "Namespaces" {
				return true
			}
			n++
			k++
			bad := token.NoPos
			why := ""
			// continues that belong to this loop, with the conditions between the loop body and them
			var walk func(node ast.Node, conds []ast.Expr)
			walk = func(node ast.Node, conds []ast.Expr) {
				switch x := node.(type) {
				case *ast.BlockStmt:
					for _, s := range x.List {
						walk(s, conds)
					}
				case *ast.IfStmt:
					walk(x.Body, append(append([]ast.Expr{}, conds...), x.Cond))
					if x.Else != nil {
						walk(x.Else, append(append([]ast.Expr{}, conds...), x.Cond))
					}
				case *ast.BranchStmt:
					if x.Tok == token.CONTINUE && x.Label == nil {
						for _, cnd := range conds {
							onlyLevel := true
							ast.Inspect(cnd, func(k ast.Node) bool {
								switch y := k.(type) {
								case *ast.SelectorExpr:
									if y.Sel.Name != "IsTopLevel" {
										onlyLevel = false
									}
									return false
								case *ast.Ident:
									if y.Name != "true" && y.Name != "false" {
										onlyLevel = false
									}
								case *ast.CallExpr, *ast.BasicLit:
									onlyLevel = false
								}
								return true
							})
							if !onlyLevel && bad == token.NoPos {
								bad = x.Pos()
								why = types.ExprString(cnd)
							}
						}
					}
				case *ast.SwitchStmt, *ast.TypeSwitchStmt:
					// a continue inside a switch clause still belongs to this loop
					ast.Inspect(x, func(k ast.Node) bool {
						switch y := k.(type) {
						case *ast.ForStmt, *ast.RangeStmt, *ast.FuncLit:
							return false
						case *ast.BranchStmt:
							if y.Tok == token.CONTINUE && y.Label == nil && bad == token.NoPos {
								bad = y.Pos()
								why = "a switch clause"
							}
						}
						return true
					})
				}
			}
			walk(rs.Body, nil)
			at := rs.Pos()
			if bad != token.NoPos {
				at = bad
			}
			c.Check(bad == token.NoPos, rule, fmt.Sprintf("%s/range %s#%d", c.FuncName(d), types.ExprString(rs.X), k), at, "namespaces are skipped by level only",
				"a namespace is skipped under `"+why+"`: a condition on its contents. The importing namespaces still refer to it (`from . import <ns>`, includes, package folders), so for an imported package that happens to satisfy the condition (no types of its own, protocols only) the generated code refers to a module that was never written")
			return true
		})
	}
	if n == 0 {
		c.Undecided(rule, "anchor/namespace loops", 0, "none found in the back ends")
	}
}

func init() {
	reg("C19", ruleVariablesShadowFields)
}

// ---------------------------------------------------------------------------------------------------------------
// SC1: in the resolution of a bare name inside a computed field, the variables introduced by enclosing `!switch`
// patterns are consulted before the fields and computed fields of the record. In the emitted C++ (lambda parameter),
// Python (`isinstance` binding) and MATLAB code the pattern variable is the innermost binding; if yardl resolves the
// name to the record's field instead, the expression is typed and printed as the member in every language and the
// value of the case is the field's, not the matched value's.
// ---------------------------------------------------------------------------------------------------------------
func ruleVariablesShadowFields(c *core.Ctx) {
	const rule = "SC1"
	c.Rule(rule, "pkg/dsl computed-field resolution of *MemberAccessExpression: the loop over the pattern variables in scope (`….Variables`) runs before the loops over the record's Fields / ComputedFields", 1)
	p := c.Pkg("pkg/dsl")
	if p == nil {
		c.Undecided(rule, "anchor/pkg/dsl", 0, "package not found")
		return
	}
	info := p.TypesInfo
	n := 0
	for _, d := range c.AllDecls() {
		if c.DeclPkg(d) != p || d.Body == nil || c.IsTestFile(d.Pos()) {
			continue
		}
		ast.Inspect(d.Body, func(m ast.Node) bool {
			cc, ok := m.(*ast.CaseClause)
			if !ok || len(cc.List) != 1 {
				return true
			}
			if types.ExprString(cc.List[0]) != "*MemberAccessExpression" {
				return true
			}
			// the sequence of collections consulted, in source order: every mention of `….Variables`, `….Fields`,
			// `….ComputedFields` in the clause (a range, an index loop, an argument of a finder helper)
			var seq []string
			var pos []token.Pos
			for _, s := range cc.Body {
				ast.Inspect(s, func(k ast.Node) bool {
					switch y := k.(type) {
					case *ast.FuncLit:
						return false
					case *ast.SelectorExpr:
						switch y.Sel.Name {
						case "Variables", "Fields", "ComputedFields":
							if t := info.TypeOf(y); t != nil {
								if _, isSlice := t.Underlying().(*types.Slice); isSlice {
									seq = append(seq, y.Sel.Name)
									pos = append(pos, y.Pos())
								}
							}
						}
					}
					return true
				})
			}
			hasVar, hasField := false, false
			for _, s := range seq {
				if s == "Variables" {
					hasVar = true
				} else {
					hasField = true
				}
			}
			if !hasVar || !hasField {
				return true // not the name-resolution site
			}
			n++
			firstVar, firstField := -1, -1
			for i, s := range seq {
				if s == "Variables" && firstVar < 0 {
					firstVar = i
				}
				if s != "Variables" && firstField < 0 {
					firstField = i
				}
			}
			c.Check(firstVar < firstField, rule, c.FuncName(d)+"/case *MemberAccessExpression", pos[firstField], "pattern variables are searched first: the innermost binding wins",
				"the record's fields are searched before the pattern variables in scope: a `!switch` case variable with the name of a field (`int32 gain: gain * 3` on a record with a field `gain`) resolves to the field — wrong type and wrong value in every back end, and the variable is dropped as unused")
			return true
		})
	}
	if n == 0 {
		c.Undecided(rule, "anchor/name resolution", 0, "no *MemberAccessExpression case that searches both Variables and Fields found")
	}
}

func init() {
	reg("C19", rulePythonTestsPresenceByIdentity)
	reg("C03", rulePythonTestsPresenceByIdentity)
}

// ---------------------------------------------------------------------------------------------------------------
// ON1: the Python back end tests "has a value" with `is None` / `is not None`, never by truthiness. In Python 0, 0.0,
// "", an empty list and an empty dict are falsy: an emitted `if x:` / `if not x:` takes a present optional holding such
// a value for an absent one, where the C++ (`has_value()`) and MATLAB code take the other branch. PN3 is the same
// clause for the Python runtime.
// ---------------------------------------------------------------------------------------------------------------
func rulePythonTestsPresenceByIdentity(c *core.Ctx) {
	const rule = "ON1"
	c.Rule(rule, "internal/python/*: no emitted template is a bare truthiness test of a formatted value (`if %s:`, `if not %s:`, `elif %s:`, `while %s:`); presence is tested with `is None` / `is not None`", 2)
	bare := regexp.MustCompile(`(^|\n)\s*(if|elif|while)\s+(not\s+)?%(\[\d\])?[sv]\s*:\s*(\n|$)`)
	ident := regexp.MustCompile(`\bis (not )?None\b`)
	n := 0
	for _, d := range c.AllDecls() {
		p := c.DeclPkg(d)
		if p == nil || d.Body == nil || c.IsTestFile(d.Pos()) || !strings.Contains(p.PkgPath, "/internal/python") {
			continue
		}
		info := p.TypesInfo
		ast.Inspect(d.Body, func(m ast.Node) bool {
			ce, ok := m.(*ast.CallExpr)
			if !ok {
				return true
			}
			for ai, a := range ce.Args {
				tv, ok := info.Types[a]
				if !ok || tv.Value == nil || tv.Value.Kind() != constant.String {
					continue
				}
				t := constant.StringVal(tv.Value)
				if bare.MatchString(t) && ai+1 < len(ce.Args) && comparisonText(c, p.Types, info, ce.Args[ai+1], 0) {
					// the formatted value is itself a comparison (`a is None`, `x == y`, isinstance(...)) built by a helper
					n++
					c.OK(rule, fmt.Sprintf("%s/%s", c.FuncName(d), strings.TrimSpace(firstWords(t, 4))), a.Pos(), "the formatted condition is a comparison")
				} else if bare.MatchString(t) {
					n++
					c.Bad(rule, fmt.Sprintf("%s/%s", c.FuncName(d), strings.TrimSpace(firstWords(t, 4))), a.Pos(),
						"the emitted `"+strings.TrimSpace(t)+"` tests the truthiness of a value: a present optional that holds 0, 0.0, \"\" or an empty container takes the branch for an absent one — Python then disagrees with C++ and MATLAB, which test has_value()")
				} else if ident.MatchString(t) {
					n++
					c.OK(rule, fmt.Sprintf("%s/%s", c.FuncName(d), strings.TrimSpace(firstWords(t, 5))), a.Pos(), "presence tested by identity")
				}
			}
			return true
		})
	}
	if n == 0 {
		c.Undecided(rule, "anchor/presence tests", 0, "no emitted presence test found in the Python back end")
	}
}

// comparisonText: the string expression e always contains a Python comparison (` is `, `==`, `!=`, `<`, `>`, ` in `,
// isinstance(): a constant, a concatenation or Sprintf with such a constant piece, or a call of a package function all of
// whose returns are such.
func comparisonText(c *core.Ctx, pkg *types.Package, info *types.Info, e ast.Expr, depth int) bool {
	has := func(s string) bool {
		for _, k := range []string{" is ", "==", "!=", "<", ">", " in ", "isinstance(", " and ", " or "} {
			if strings.Contains(s, k) {
				return true
			}
		}
		return false
	}
	e = ast.Unparen(e)
	if tv, ok := info.Types[e]; ok && tv.Value != nil && tv.Value.Kind() == constant.String {
		return has(constant.StringVal(tv.Value))
	}
	switch x := e.(type) {
	case *ast.Ident:
		// a local that holds the condition: every value assigned to it in the enclosing function is a comparison
		o := info.ObjectOf(x)
		if o == nil || depth > 2 {
			return false
		}
		for _, d := range c.AllDecls() {
			if d.Body == nil || !(d.Body.Pos() <= x.Pos() && x.End() <= d.Body.End()) {
				continue
			}
			all, any := true, false
			ast.Inspect(d.Body, func(k ast.Node) bool {
				as, ok := k.(*ast.AssignStmt)
				if !ok || len(as.Lhs) != len(as.Rhs) {
					return true
				}
				for i, l := range as.Lhs {
					if id, ok := l.(*ast.Ident); ok && info.ObjectOf(id) == o {
						if tv, ok := info.Types[as.Rhs[i]]; ok && tv.Value != nil && tv.Value.Kind() == constant.String && constant.StringVal(tv.Value) == "" {
							continue // the empty initial value
						}
						any = true
						if !comparisonText(c, pkg, info, as.Rhs[i], depth+1) {
							all = false
						}
					}
				}
				return true
			})
			return any && all
		}
		return false
	case *ast.BinaryExpr:
		if x.Op == token.ADD {
			return comparisonText(c, pkg, info, x.X, depth) || comparisonText(c, pkg, info, x.Y, depth)
		}
	case *ast.CallExpr:
		fn, _ := typeutil.Callee(info, x).(*types.Func)
		if fn == nil {
			return false
		}
		if fn.Pkg() != nil && fn.Pkg().Path() == "fmt" && fn.Name() == "Sprintf" && len(x.Args) > 0 {
			return comparisonText(c, pkg, info, x.Args[0], depth)
		}
		if fn.Pkg() == pkg && depth < 2 {
			hd := c.Decl(fn)
			if hd == nil || hd.Body == nil {
				return false
			}
			all, any := true, false
			ast.Inspect(hd.Body, func(k ast.Node) bool {
				if _, ok := k.(*ast.FuncLit); ok {
					return false
				}
				if r, ok := k.(*ast.ReturnStmt); ok && len(r.Results) == 1 {
					any = true
					if !comparisonText(c, pkg, c.DeclPkg(hd).TypesInfo, r.Results[0], depth+1) {
						all = false
					}
				}
				return true
			})
			return any && all
		}
	}
	return false
}

func init() {
	reg("C09", ruleSentinelResultsNotComparedWithEachOther)
	reg("C19", ruleSentinelResultsNotComparedWithEachOther)
}

// ---------------------------------------------------------------------------------------------------------------
// OK1: a value obtained from a (T, bool) function of the module with the bool discarded (`k, _ := f(x)`) may be the
// function's "nothing" value. Comparing it with a named constant is fine; comparing two such values with each other
// is not: two non-primitives both yield PrimitiveKindNotPrimitive and compare equal ("same kind: the cast is the
// identity"), so a cast between two different records is accepted.
// ---------------------------------------------------------------------------------------------------------------
func ruleSentinelResultsNotComparedWithEachOther(c *core.Ctx) {
	const rule = "OK1"
	c.Rule(rule, "pkg/dsl: two locals that each hold the first result of a (T, bool) function of the module whose bool was discarded are never compared with each other (`==`, `!=`)", 3)
	n := 0
	for _, d := range c.AllDecls() {
		p := c.DeclPkg(d)
		if p == nil || d.Body == nil || c.IsTestFile(d.Pos()) || !strings.HasSuffix(p.PkgPath, "/pkg/dsl") {
			continue
		}
		info := p.TypesInfo
		sentinel := map[types.Object]string{}
		ast.Inspect(d.Body, func(m ast.Node) bool {
			as, ok := m.(*ast.AssignStmt)
			if !ok || len(as.Lhs) != 2 || len(as.Rhs) != 1 {
				return true
			}
			ce, ok := as.Rhs[0].(*ast.CallExpr)
			if !ok {
				return true
			}
			fn, _ := typeutil.Callee(info, ce).(*types.Func)
			if fn == nil || fn.Pkg() == nil || !strings.Contains(fn.Pkg().Path(), "/yardl/tooling/") {
				return true
			}
			sig, _ := fn.Type().(*types.Signature)
			if sig == nil || sig.Results().Len() != 2 {
				return true
			}
			if b, ok := sig.Results().At(1).Type().Underlying().(*types.Basic); !ok || b.Kind() != types.Bool {
				return true
			}
			if id, ok := as.Lhs[1].(*ast.Ident); !ok || id.Name != "_" {
				return true
			}
			if id, ok := as.Lhs[0].(*ast.Ident); ok && id.Name != "_" {
				if o := info.ObjectOf(id); o != nil {
					sentinel[o] = fn.Name()
					n++
					c.OK(rule, fmt.Sprintf("%s/%s := %s(…)", c.FuncName(d), id.Name, fn.Name()), as.Pos(), "a result whose verdict was discarded; compared with constants only")
				}
			}
			return true
		})
		if len(sentinel) < 2 {
			continue
		}
		ast.Inspect(d.Body, func(m ast.Node) bool {
			be, ok := m.(*ast.BinaryExpr)
			if !ok || (be.Op != token.EQL && be.Op != token.NEQ) {
				return true
			}
			l, r := identObj(info, ast.Unparen(be.X)), identObj(info, ast.Unparen(be.Y))
			if l == nil || r == nil || l == r {
				return true
			}
			if fl, ok := sentinel[l]; ok {
				if _, ok := sentinel[r]; ok {
					c.Bad(rule, fmt.Sprintf("%s/%s %s %s", c.FuncName(d), l.Name(), be.Op, r.Name()), be.Pos(),
						"`"+types.ExprString(be)+"` compares two results of "+fl+" whose `ok` was discarded: when neither argument qualifies both hold the function's \"nothing\" value and compare equal — a cast between two different non-primitive types is then treated as a cast between equal kinds and accepted")
				}
			}
			return true
		})
	}
	if n == 0 {
		c.Undecided(rule, "anchor/discarded verdicts", 0, "no `v, _ := f(x)` with a (T, bool) function of the module found in pkg/dsl")
	}
}

func init() {
	reg("C02", ruleBackEndsDoNotDeduplicateInstantiationsByName)
	reg("C08", ruleBackEndsDoNotDeduplicateInstantiationsByName)
	reg("C14", ruleBackEndsDoNotDeduplicateInstantiationsByName)
}

// ---------------------------------------------------------------------------------------------------------------
// VS3: a back-end walk that follows SimpleType.ResolvedDefinition does not de-duplicate the definitions it enters by
// NAME. By the time the back ends run, a reference to `Labeled<int>` and one to `Labeled<double>` resolve to two
// different instantiated definitions with one qualified name; a visited-set of names enters the first and skips the
// others, so whatever the walk collects below them (union serializers, dtypes) exists for the first instantiation only.
// (VS1 is the clause for unqualified names and different namespaces.)
// ---------------------------------------------------------------------------------------------------------------
func ruleBackEndsDoNotDeduplicateInstantiationsByName(c *core.Ctx) {
	const rule = "VS3"
	c.Rule(rule, "internal/* back ends: a function that follows SimpleType.ResolvedDefinition keeps no set (map to bool / struct{}) keyed by a definition's GetQualifiedName(): instantiations of one generic definition share that name", 5)
	n := 0
	for _, d := range c.AllDecls() {
		p := c.DeclPkg(d)
		if p == nil || d.Body == nil || c.IsTestFile(d.Pos()) || !strings.Contains(p.PkgPath, "/internal/") {
			continue
		}
		info := p.TypesInfo
		follows := false
		ast.Inspect(d.Body, func(m ast.Node) bool {
			if sel, ok := m.(*ast.SelectorExpr); ok && sel.Sel.Name == "ResolvedDefinition" {
				if nt := core.NamedOf(derefType(info.TypeOf(sel.X))); nt != nil && nt.Obj().Name() == "SimpleType" {
					follows = true
				}
			}
			return true
		})
		if !follows {
			continue
		}
		n++
		bad := token.NoPos
		what := ""
		ast.Inspect(d.Body, func(m ast.Node) bool {
			ix, ok := m.(*ast.IndexExpr)
			if !ok {
				return true
			}
			mt, isMap := derefType(info.TypeOf(ix.X)).Underlying().(*types.Map)
			if !isMap {
				return true
			}
			isSet := false
			switch v := mt.Elem().Underlying().(type) {
			case *types.Basic:
				isSet = v.Kind() == types.Bool
			case *types.Struct:
				isSet = v.NumFields() == 0
			}
			if !isSet {
				return true
			}
			key := ast.Expr(ix.Index)
			if id, ok := ast.Unparen(key).(*ast.Ident); ok {
				key = singleDefRHS(info, d.Body, id)
			}
			ast.Inspect(key, func(k ast.Node) bool {
				if ce, ok := k.(*ast.CallExpr); ok {
					if sel, ok := ce.Fun.(*ast.SelectorExpr); ok && sel.Sel.Name == "GetQualifiedName" && bad == token.NoPos {
						bad = ix.Pos()
						what = types.ExprString(ix.X)
					}
				}
				return true
			})
			return true
		})
		at := d.Pos()
		if bad != token.NoPos {
			at = bad
		}
		c.Check(bad == token.NoPos, rule, c.FuncName(d)+"/sets of names", at, "follows ResolvedDefinition without a set of definition names",
			"`"+what+"` is a set keyed by GetQualifiedName() in a walk that follows ResolvedDefinition: `G<int>` and `G<double>` are different instantiated definitions with the same qualified name, so only the first instantiation is entered and what the walk collects (union serializers, nested types) is missing for the others")
	}
	if n == 0 {
		c.Undecided(rule, "anchor/walks", 0, "no back-end function follows SimpleType.ResolvedDefinition")
	}
}

func init() {
	reg("C11", ruleDuplicateDefinitionsAlwaysReported)
	reg("C09", ruleDuplicateDefinitionsAlwaysReported)
}

// ---------------------------------------------------------------------------------------------------------------
// ST2: a name that is already in the symbol table is an error, whatever the two definitions look like. In
// `if other, exists := table[name]; exists { … }` over a dsl.SymbolTable the exists-branch reaches ErrorSink.Add on
// every path: no path leaves it (return, an if without the report) silently. Two identical copies of a definition
// (a record pasted into a second model file) are two definitions: both stay in TypeDefinitions and are both emitted
// (`struct Timestamp` twice).
// ---------------------------------------------------------------------------------------------------------------
func ruleDuplicateDefinitionsAlwaysReported(c *core.Ctx) {
	const rule = "ST2"
	c.Rule(rule, "pkg/dsl: in `if other, exists := <SymbolTable>[name]; exists {…}` every path through the exists-branch reports to the ErrorSink", 1)
	p := c.Pkg("pkg/dsl")
	if p == nil {
		c.Undecided(rule, "anchor/pkg/dsl", 0, "package not found")
		return
	}
	info := p.TypesInfo
	isAdd := func(s ast.Stmt) bool {
		es, ok := s.(*ast.ExprStmt)
		if !ok {
			return false
		}
		ce, ok := es.X.(*ast.CallExpr)
		if !ok {
			return false
		}
		fn, _ := typeutil.Callee(info, ce).(*types.Func)
		return fn != nil && fn.Name() == "Add" && fn.Pkg() != nil && strings.HasSuffix(fn.Pkg().Path(), "/validation")
	}
	var always func(list []ast.Stmt) bool
	always = func(list []ast.Stmt) bool {
		for _, s := range list {
			if isAdd(s) {
				return true
			}
			switch x := s.(type) {
			case *ast.ReturnStmt, *ast.BranchStmt:
				return false
			case *ast.IfStmt:
				thenOK := always(x.Body.List)
				elseOK := false
				if eb, ok := x.Else.(*ast.BlockStmt); ok {
					elseOK = always(eb.List)
				}
				if thenOK && elseOK {
					return true
				}
				if !thenOK && bodyLeaves(x.Body) {
					return false
				}
			case *ast.BlockStmt:
				if always(x.List) {
					return true
				}
			}
		}
		return false
	}
	n := 0
	for _, d := range c.AllDecls() {
		if c.DeclPkg(d) != p || d.Body == nil || c.IsTestFile(d.Pos()) {
			continue
		}
		// the comma-ok lookup in a dsl.SymbolTable: `v, ok := T[k]`
		lookup := func(st ast.Stmt) (*ast.IndexExpr, types.Object) {
			as, ok := st.(*ast.AssignStmt)
			if !ok || len(as.Lhs) != 2 || len(as.Rhs) != 1 {
				return nil, nil
			}
			ix, ok := ast.Unparen(as.Rhs[0]).(*ast.IndexExpr)
			if !ok {
				return nil, nil
			}
			nt := core.NamedOf(derefType(info.TypeOf(ix.X)))
			if nt == nil || nt.Obj().Name() != "SymbolTable" {
				return nil, nil
			}
			okID, isID := as.Lhs[1].(*ast.Ident)
			if !isID {
				return nil, nil
			}
			return ix, info.ObjectOf(okID)
		}
		isOK := func(e ast.Expr, o types.Object) bool {
			id, ok := ast.Unparen(e).(*ast.Ident)
			return ok && info.ObjectOf(id) == o
		}
		isNotOK := func(e ast.Expr, o types.Object) bool {
			ue, ok := ast.Unparen(e).(*ast.UnaryExpr)
			return ok && ue.Op == token.NOT && isOK(ue.X, o)
		}
		storesUnder := func(node ast.Node, key ast.Expr) bool {
			found := false
			ast.Inspect(node, func(k ast.Node) bool {
				if a2, ok := k.(*ast.AssignStmt); ok && a2.Tok == token.ASSIGN {
					for _, l := range a2.Lhs {
						if i2, ok := l.(*ast.IndexExpr); ok && types.ExprString(i2.Index) == types.ExprString(key) {
							found = true
						}
					}
				}
				return true
			})
			return found
		}
		judge := func(existsPath []ast.Stmt, at token.Pos) {
			n++
			c.Check(always(existsPath), rule, c.FuncName(d)+"/name already defined", at, "every path through the exists-branch reports the duplicate",
				"a path through the branch for a name that is already in the symbol table leaves without reporting it: such a duplicate definition is accepted — both copies stay among the type definitions and are both generated (exit 0, files written)")
		}
		ast.Inspect(d.Body, func(m ast.Node) bool {
			switch x := m.(type) {
			case *ast.IfStmt:
				// if v, ok := T[k]; ok { exists } else { store }
				if x.Init == nil {
					return true
				}
				ix, okObj := lookup(x.Init)
				if ix == nil {
					return true
				}
				if isOK(x.Cond, okObj) && x.Else != nil && storesUnder(x.Else, ix.Index) {
					judge(x.Body.List, x.Pos())
				} else if isNotOK(x.Cond, okObj) && storesUnder(x.Body, ix.Index) {
					if eb, ok := x.Else.(*ast.BlockStmt); ok {
						judge(eb.List, x.Pos())
					}
				}
			case *ast.BlockStmt, *ast.CaseClause:
				// v, ok := T[k]; if !ok { store; leave }; <exists path>     or     …; if ok { exists } else { store }
				var list []ast.Stmt
				if b, ok := x.(*ast.BlockStmt); ok {
					list = b.List
				} else {
					list = x.(*ast.CaseClause).Body
				}
				xl := struct{ List []ast.Stmt }{list}
				for i, st := range xl.List {
					ix, okObj := lookup(st)
					if ix == nil || i+1 >= len(xl.List) {
						continue
					}
					is, isIf := xl.List[i+1].(*ast.IfStmt)
					if !isIf || is.Init != nil {
						continue
					}
					switch {
					case isNotOK(is.Cond, okObj) && storesUnder(is.Body, ix.Index) && bodyLeaves(is.Body):
						judge(xl.List[i+2:], is.Pos())
					case isNotOK(is.Cond, okObj) && storesUnder(is.Body, ix.Index) && is.Else != nil:
						if eb, ok := is.Else.(*ast.BlockStmt); ok {
							judge(eb.List, is.Pos())
						}
					case isOK(is.Cond, okObj) && (storesUnder(is.Else, ix.Index) || (i+2 < len(xl.List) && bodyLeaves(is.Body) && storesUnder(&ast.BlockStmt{List: xl.List[i+2:]}, ix.Index))):
						judge(is.Body.List, is.Pos())
					}
				}
			}
			return true
		})
	}
	if n == 0 {
		c.Undecided(rule, "anchor/duplicate test", 0, "no `if other, exists := <SymbolTable>[name]; exists` in front of a store under the same key found")
	}
}

func init() {
	reg("C10", ruleYamlAliasesNotFollowedByHand)
}

// ---------------------------------------------------------------------------------------------------------------
// AY1: the hand-written YAML decoders never follow `yaml.Node.Alias`. yaml.v3 builds a cyclic node graph for a node
// that aliases its own anchor (`payload: &p [int, *p]` is legal YAML) and protects only its own Decode against it; a
// decoder that walks *yaml.Node trees itself and steps through `.Alias` recurses without end on such a document
// (fatal stack overflow, exit 2) — unless it keeps a set of the nodes it is in, which none of yardl's decoders does.
// ---------------------------------------------------------------------------------------------------------------
func ruleYamlAliasesNotFollowedByHand(c *core.Ctx) {
	const rule = "AY1"
	c.Rule(rule, "pkg/dsl, pkg/packaging: no function that receives a *yaml.Node reads its `Alias` field (alias nodes are left to yaml.v3's own decoding, which guards against self-reference), unless it keeps a set of visited nodes", 10)
	n := 0
	for _, d := range c.AllDecls() {
		p := c.DeclPkg(d)
		if p == nil || d.Body == nil || c.IsTestFile(d.Pos()) || !(strings.HasSuffix(p.PkgPath, "/pkg/dsl") || strings.HasSuffix(p.PkgPath, "/pkg/packaging")) {
			continue
		}
		info := p.TypesInfo
		isYamlNode := func(t types.Type) bool {
			nt := core.NamedOf(derefType(t))
			return nt != nil && nt.Obj().Name() == "Node" && nt.Obj().Pkg() != nil && strings.HasPrefix(nt.Obj().Pkg().Path(), "gopkg.in/yaml")
		}
		takes := false
		for _, f := range d.Type.Params.List {
			if t := info.TypeOf(f.Type); t != nil && isYamlNode(t) {
				takes = true
			}
		}
		if !takes {
			continue
		}
		n++
		bad := token.NoPos
		hasVisited := false
		ast.Inspect(d.Body, func(m ast.Node) bool {
			switch x := m.(type) {
			case *ast.SelectorExpr:
				if x.Sel.Name == "Alias" {
					if t := info.TypeOf(x.X); t != nil && isYamlNode(t) {
						bad = x.Pos()
					}
				}
			case *ast.IndexExpr:
				if mt, ok := derefType(info.TypeOf(x.X)).Underlying().(*types.Map); ok && isYamlNode(mt.Key()) {
					hasVisited = true
				}
			}
			return true
		})
		at := d.Pos()
		if bad != token.NoPos {
			at = bad
		}
		c.Check(bad == token.NoPos || hasVisited, rule, c.FuncName(d)+"/alias nodes", at, "alias nodes are not followed by hand",
			"this decoder steps through `Alias` of a *yaml.Node without a set of visited nodes: for a node that aliases its own anchor (`x: &p [int, *p]`, legal YAML, a cyclic node graph in yaml.v3) the recursion never ends — `fatal error: stack overflow`, exit status 2, instead of a diagnostic")
	}
	if n == 0 {
		c.Undecided(rule, "anchor/yaml decoders", 0, "no function with a *yaml.Node parameter found")
	}
}

func init() {
	reg("C10", rulePackageWalksRecurseThroughImportsOnly)
	reg("C20", rulePackageWalksRecurseThroughImportsOnly)
}

// ---------------------------------------------------------------------------------------------------------------
// TR1: the graph of *PackageInfo is a tree along Imports (collectPackages rejects import cycles) but NOT along
// Versions: LoadPackage points `Versions[i].Package` back at the owner when a version's directory is the package's
// own (`v2: .`). A function that calls itself on a *PackageInfo without a set of visited packages therefore recurses
// only through `….Imports`, never through `….Versions`.
// ---------------------------------------------------------------------------------------------------------------
func rulePackageWalksRecurseThroughImportsOnly(c *core.Ctx) {
	const rule = "TR1"
	c.Rule(rule, "pkg/packaging, internal/cmd: a function that calls itself with a *PackageInfo and keeps no set of visited packages takes the argument from a range over `.Imports`, never from `.Versions` (a version entry may point back at its owner)", 1)
	n := 0
	for _, d := range c.AllDecls() {
		p := c.DeclPkg(d)
		if p == nil || d.Body == nil || c.IsTestFile(d.Pos()) || !(strings.HasSuffix(p.PkgPath, "/pkg/packaging") || strings.HasSuffix(p.PkgPath, "/internal/cmd")) {
			continue
		}
		info := p.TypesInfo
		self, _ := info.Defs[d.Name].(*types.Func)
		if self == nil {
			continue
		}
		isPI := func(t types.Type) bool {
			nt := core.NamedOf(derefType(t))
			return nt != nil && nt.Obj().Name() == "PackageInfo"
		}
		hasVisited := false
		for _, f := range d.Type.Params.List {
			if t := info.TypeOf(f.Type); t != nil {
				if _, isMap := derefType(t).Underlying().(*types.Map); isMap {
					hasVisited = true
				}
			}
		}
		// range variables and the collection they range over
		rangeOf := map[types.Object]string{}
		ast.Inspect(d.Body, func(m ast.Node) bool {
			if rs, ok := m.(*ast.RangeStmt); ok && rs.Value != nil {
				if se, ok := ast.Unparen(rs.X).(*ast.SelectorExpr); ok {
					if o := identObj(info, rs.Value); o != nil {
						rangeOf[o] = se.Sel.Name
					}
				}
			}
			return true
		})
		k := 0
		ast.Inspect(d.Body, func(m ast.Node) bool {
			ce, ok := m.(*ast.CallExpr)
			if !ok {
				return true
			}
			fn, _ := typeutil.Callee(info, ce).(*types.Func)
			if fn == nil || fn.Origin() != self {
				return true
			}
			for _, a := range ce.Args {
				if t := info.TypeOf(a); t == nil || !isPI(t) {
					continue
				}
				n++
				k++
				from := ""
				ast.Inspect(a, func(q ast.Node) bool {
					switch y := q.(type) {
					case *ast.Ident:
						if s, ok := rangeOf[info.ObjectOf(y)]; ok {
							from = s
						}
					case *ast.SelectorExpr:
						if y.Sel.Name == "Versions" || y.Sel.Name == "Imports" {
							from = y.Sel.Name
						}
					}
					return true
				})
				c.Check(from != "Versions" || hasVisited, rule, fmt.Sprintf("%s/recursive call#%d", c.FuncName(d), k), ce.Pos(), "recurses through "+from,
					"the function calls itself with a package taken from `.Versions` and keeps no set of visited packages: for a package that lists itself as one of its versions (`versions: {v2: .}`) the entry points back at the owner and the recursion never ends — validate and generate hang before any model file is read")
			}
			return true
		})
	}
	if n == 0 {
		c.Undecided(rule, "anchor/recursive package walks", 0, "none found")
	}
}

func init() {
	reg("C19", ruleNodeMemosKeyedByNode)
	reg("C09", ruleNodeMemosKeyedByNode)
	reg("C06", ruleNodeMemosKeyedByNode)
	reg("C05", ruleNodeMemosKeyedByNode)
}

// ---------------------------------------------------------------------------------------------------------------
// MK2: a memo of rewritten nodes that lives in a context struct (and therefore travels with the traversal, across
// records and definitions) is keyed by the node, not by the node's Name. Names of fields, computed fields and steps
// are unique inside their parent only; a context that is copied for a foreign record (`pixel.scaled` resolves a
// computed field of another record through a copy of the scope that shares the map) then answers a lookup for this
// record's `scaled` with the other record's.
// ---------------------------------------------------------------------------------------------------------------
func ruleNodeMemosKeyedByNode(c *core.Ctx) {
	const rule = "MK2"
	c.Rule(rule, "pkg/dsl: a map held in a struct field whose values are pointers to a node type N (Field, ComputedField, ProtocolStep, …) is not indexed by `x.Name` with x of type *N: such names are unique within their parent only", 1)
	p := c.Pkg("pkg/dsl")
	if p == nil {
		c.Undecided(rule, "anchor/pkg/dsl", 0, "package not found")
		return
	}
	info := p.TypesInfo
	n := 0
	seen := map[string]bool{}
	for _, d := range c.AllDecls() {
		if c.DeclPkg(d) != p || d.Body == nil || c.IsTestFile(d.Pos()) {
			continue
		}
		ast.Inspect(d.Body, func(m ast.Node) bool {
			ix, ok := m.(*ast.IndexExpr)
			if !ok {
				return true
			}
			se, ok := ast.Unparen(ix.X).(*ast.SelectorExpr)
			if !ok {
				return true
			}
			sel := info.Selections[se]
			if sel == nil || sel.Kind() != types.FieldVal {
				return true
			}
			mt, ok := derefType(info.TypeOf(ix.X)).Underlying().(*types.Map)
			if !ok {
				return true
			}
			vp, ok := mt.Elem().(*types.Pointer)
			if !ok {
				return true
			}
			vn := core.NamedOf(vp.Elem())
			if vn == nil || vn.Obj().Pkg() != p.Types {
				return true
			}
			if _, isStruct := vn.Underlying().(*types.Struct); !isStruct {
				return true
			}
			key := fmt.Sprintf("%s/%s[…]", c.FuncName(d), types.ExprString(ix.X))
			if seen[key] {
				return true
			}
			bad := false
			if ks, ok := ast.Unparen(ix.Index).(*ast.SelectorExpr); ok && ks.Sel.Name == "Name" {
				if kn := core.NamedOf(derefType(info.TypeOf(ks.X))); kn != nil && kn.Obj() == vn.Obj() {
					bad = true
				}
			}
			if !bad {
				seen[key] = true
			}
			n++
			c.Check(!bad, rule, key, ix.Pos(), "keyed by the node (or by something other than the node's own name)",
				"`"+types.ExprString(ix)+"`: a memo of *"+vn.Obj().Name()+" nodes that travels in a context struct is keyed by the node's Name. The name is unique within its record / protocol only; where the context is copied for another parent (a member access into another record's computed field shares the map) the lookup returns the other parent's node — its expression and type are used for this one, in every back end")
			return true
		})
	}
	// second clause: no map of pkg/dsl is keyed by the UNQUALIFIED spelling of a type (TypeToShortSyntax(t, false), possibly
	// concatenated): `Kind` of this namespace and `Lib.Kind` share that spelling, a memo keyed by it answers for one with
	// the verdict computed for the other
	for _, d := range c.AllDecls() {
		if c.DeclPkg(d) != p || d.Body == nil || c.IsTestFile(d.Pos()) {
			continue
		}
		k := 0
		ast.Inspect(d.Body, func(m ast.Node) bool {
			ix, ok := m.(*ast.IndexExpr)
			if !ok {
				return true
			}
			if _, isMap := derefType(info.TypeOf(ix.X)).Underlying().(*types.Map); !isMap {
				return true
			}
			key := ast.Expr(ix.Index)
			if id, ok := ast.Unparen(key).(*ast.Ident); ok {
				key = singleDefRHS(info, d.Body, id)
			}
			unq := false
			ast.Inspect(key, func(q ast.Node) bool {
				if ce, ok := q.(*ast.CallExpr); ok && len(ce.Args) == 2 {
					if f := core.Callee(info, ce); f != nil && f.Name() == "TypeToShortSyntax" {
						if tv, ok := info.Types[ce.Args[1]]; ok && tv.Value != nil && tv.Value.Kind() == constant.Bool && !constant.BoolVal(tv.Value) {
							unq = true
						}
					}
				}
				return true
			})
			if unq {
				k++
				c.Bad(rule, fmt.Sprintf("%s/%s keyed by unqualified type syntax#%d", c.FuncName(d), types.ExprString(ix.X), k), ix.Pos(),
					"`"+types.ExprString(ix.X)+"` is keyed by TypeToShortSyntax(…, false), the spelling of a type without namespaces: a type of this package and a same-named type of an imported package share the key, so what was stored for one (an 'unchanged' verdict of the evolution analyser) is returned for the other")
			}
			return true
		})
	}
	if n == 0 {
		c.Undecided(rule, "anchor/node memos", 0, "no map of node pointers held in a struct field is indexed in pkg/dsl")
	}
}

func init() {
	reg("C18", ruleConfigRoundTripDecodesIntoTheLoadedObject)
	reg("C11", ruleConfigRoundTripDecodesIntoTheLoadedObject)
}

// ---------------------------------------------------------------------------------------------------------------
// KU1: the `--config` overrides go through a koanf round trip: the package description is loaded from the struct
// (structs.Provider(x, "yaml")), keys are set, and the result is unmarshalled back. Fields tagged `yaml:"-"` — the
// FilePath of EVERY PackageInfo in the import tree, the Package pointers of the versions — are not part of the round
// trip; they survive only because the result is decoded into the very object that was loaded (mapstructure fills
// the existing pointers). Decoding into a fresh value gives imported packages an empty FilePath: their directory
// becomes "." and the root's own model files are parsed again under the imported namespace's name.
// ---------------------------------------------------------------------------------------------------------------
func ruleConfigRoundTripDecodesIntoTheLoadedObject(c *core.Ctx) {
	const rule = "KU1"
	c.Rule(rule, "internal/cmd: in a function that loads a struct into koanf (structs.Provider(x, …)) and unmarshals the result, the unmarshal target is the same variable x", 1)
	n := 0
	for _, d := range c.AllDecls() {
		p := c.DeclPkg(d)
		if p == nil || d.Body == nil || c.IsTestFile(d.Pos()) || !strings.HasSuffix(p.PkgPath, "/internal/cmd") {
			continue
		}
		info := p.TypesInfo
		var loaded []types.Object
		var targets []ast.Expr
		ast.Inspect(d.Body, func(m ast.Node) bool {
			ce, ok := m.(*ast.CallExpr)
			if !ok {
				return true
			}
			fn, _ := typeutil.Callee(info, ce).(*types.Func)
			if fn == nil || fn.Pkg() == nil {
				return true
			}
			if fn.Name() == "Provider" && strings.HasSuffix(fn.Pkg().Path(), "/providers/structs") && len(ce.Args) > 0 {
				if o := identObj(info, ast.Unparen(ce.Args[0])); o != nil {
					loaded = append(loaded, o)
				}
			}
			if strings.HasPrefix(fn.Name(), "Unmarshal") && strings.Contains(fn.Pkg().Path(), "knadh/koanf") && len(ce.Args) >= 2 {
				targets = append(targets, ce.Args[1])
			}
			return true
		})
		if len(loaded) == 0 || len(targets) == 0 {
			continue
		}
		for i, t := range targets {
			n++
			same := false
			e := ast.Unparen(t)
			if o := identObj(info, e); o != nil {
				for _, l := range loaded {
					if l == o {
						same = true
					}
				}
			}
			c.Check(same, rule, fmt.Sprintf("%s/unmarshal target#%d", c.FuncName(d), i+1), t.Pos(), "decoded into the object that was loaded",
				"the koanf round trip is decoded into `"+types.ExprString(t)+"`, not into the object that was loaded: everything tagged `yaml:\"-\"` (the FilePath of every package in the import tree, the version packages) is lost — with any `-c key=value` on the command line an imported package's directory becomes \".\" and the root's model files are parsed under the imported namespace")
		}
	}
	if n == 0 {
		c.Undecided(rule, "anchor/koanf round trip", 0, "no function of internal/cmd loads a struct into koanf and unmarshals it")
	}
}

func init() {
	reg("C04", rulePreviousSchemaTakenAtOnce)
	reg("C05", rulePreviousSchemaTakenAtOnce)
	reg("C15", rulePreviousSchemaTakenAtOnce)
}

// ---------------------------------------------------------------------------------------------------------------
// A9: the schema text of a previous version is taken in one step, as a string, while the old environment is still
// what the old version's own `yardl generate` saw: every assignment to a PreviousSchema field is the direct result of
// GetProtocolSchemaString(…). A structure kept for later marshalling shares its definition nodes with the old
// environment, and later passes of ValidateEvolution rename those in place (`X` → `X_v1`): the text marshalled
// afterwards is a schema no program of that version ever wrote, and VersionFromSchema rejects genuine old files.
// ---------------------------------------------------------------------------------------------------------------
func rulePreviousSchemaTakenAtOnce(c *core.Ctx) {
	const rule = "A9"
	c.Rule(rule, "pkg/dsl: every assignment to a field named PreviousSchema is a direct call of GetProtocolSchemaString", 1)
	p := c.Pkg("pkg/dsl")
	if p == nil {
		c.Undecided(rule, "anchor/pkg/dsl", 0, "package not found")
		return
	}
	info := p.TypesInfo
	n := 0
	for _, d := range c.AllDecls() {
		if c.DeclPkg(d) != p || d.Body == nil || c.IsTestFile(d.Pos()) {
			continue
		}
		check := func(rhs ast.Expr, at token.Pos) {
			n++
			ok := false
			if ce, isCall := ast.Unparen(rhs).(*ast.CallExpr); isCall {
				if fn, _ := typeutil.Callee(info, ce).(*types.Func); fn != nil && fn.Name() == "GetProtocolSchemaString" {
					ok = true
				}
			}
			c.Check(ok, rule, fmt.Sprintf("%s/PreviousSchema#%d", c.FuncName(d), n), at, "the text is produced on the spot by GetProtocolSchemaString",
				"PreviousSchema is assigned `"+types.ExprString(rhs)+"`, not the result of GetProtocolSchemaString at this point: a schema structure marshalled later shares its (uncommented) definition nodes with the old environment, which renameOldTypeDefinitions rewrites in place — the previous_schemas_ entry then names `Sample_v1`, a type no v1 program ever wrote")
		}
		ast.Inspect(d.Body, func(m ast.Node) bool {
			switch x := m.(type) {
			case *ast.AssignStmt:
				if len(x.Lhs) == len(x.Rhs) {
					for i, l := range x.Lhs {
						if se, ok := l.(*ast.SelectorExpr); ok && se.Sel.Name == "PreviousSchema" {
							check(x.Rhs[i], x.Pos())
						}
					}
				}
			case *ast.KeyValueExpr:
				if id, ok := x.Key.(*ast.Ident); ok && id.Name == "PreviousSchema" {
					check(x.Value, x.Pos())
				}
			}
			return true
		})
	}
	if n == 0 {
		c.Undecided(rule, "anchor/PreviousSchema", 0, "no assignment to a PreviousSchema field found")
	}
}

func init() {
	reg("C09", ruleTraversalContextsNotMutated)
	reg("C19", ruleTraversalContextsNotMutated)
}

// ---------------------------------------------------------------------------------------------------------------
// CX1: the context a traversal hands down (the second argument of Rewrite / DefaultRewrite / Visit / VisitChildren
// with context) is a value per subtree: a callee that wants a different context for its children builds a new one.
// No function assigns a field THROUGH a pointer to such a context that it received (directly or through a local
// that aliases the pointer — `inner := s; inner.Variables = append(…)`): the change would be seen by the siblings
// visited afterwards (a variable declared by one switch case stays in scope for the later cases).
// ---------------------------------------------------------------------------------------------------------------
func ruleTraversalContextsNotMutated(c *core.Ctx) {
	const rule = "CX1"
	c.Rule(rule, "pkg/dsl: no function assigns a field through a pointer parameter / receiver (or a local aliasing it) whose type is a struct handed down as the context of Rewrite / DefaultRewrite / Visit / VisitChildren", 2)
	p := c.Pkg("pkg/dsl")
	if p == nil {
		c.Undecided(rule, "anchor/pkg/dsl", 0, "package not found")
		return
	}
	info := p.TypesInfo
	ctxTypes := map[*types.TypeName]bool{}
	for _, d := range c.AllDecls() {
		if c.DeclPkg(d) != p || d.Body == nil || c.IsTestFile(d.Pos()) {
			continue
		}
		ast.Inspect(d.Body, func(m ast.Node) bool {
			ce, ok := m.(*ast.CallExpr)
			if !ok || len(ce.Args) != 2 {
				return true
			}
			se, ok := ce.Fun.(*ast.SelectorExpr)
			if !ok {
				return true
			}
			switch se.Sel.Name {
			case "Rewrite", "DefaultRewrite", "Visit", "VisitChildren":
			default:
				return true
			}
			if pt, ok := info.TypeOf(ce.Args[1]).(*types.Pointer); ok {
				if nt := core.NamedOf(pt.Elem()); nt != nil && nt.Obj().Pkg() == p.Types {
					if _, isStruct := nt.Underlying().(*types.Struct); isStruct {
						ctxTypes[nt.Obj()] = true
					}
				}
			}
			return true
		})
	}
	isCtxPtr := func(t types.Type) bool {
		pt, ok := t.(*types.Pointer)
		if !ok {
			return false
		}
		nt := core.NamedOf(pt.Elem())
		return nt != nil && ctxTypes[nt.Obj()]
	}
	n := 0
	for _, d := range c.AllDecls() {
		if c.DeclPkg(d) != p || d.Body == nil || c.IsTestFile(d.Pos()) {
			continue
		}
		// every function scope: the declared function and the literals in it
		var scopes []struct {
			params *ast.FieldList
			body   *ast.BlockStmt
		}
		if d.Recv != nil {
			scopes = append(scopes, struct {
				params *ast.FieldList
				body   *ast.BlockStmt
			}{d.Recv, d.Body})
		}
		scopes = append(scopes, struct {
			params *ast.FieldList
			body   *ast.BlockStmt
		}{d.Type.Params, d.Body})
		ast.Inspect(d.Body, func(m ast.Node) bool {
			if fl, ok := m.(*ast.FuncLit); ok {
				scopes = append(scopes, struct {
					params *ast.FieldList
					body   *ast.BlockStmt
				}{fl.Type.Params, fl.Body})
			}
			return true
		})
		k := 0
		for _, sc := range scopes {
			received := map[types.Object]bool{}
			if sc.params != nil {
				for _, f := range sc.params.List {
					for _, nm := range f.Names {
						if o := info.Defs[nm]; o != nil && isCtxPtr(o.Type()) {
							received[o] = true
						}
					}
				}
			}
			if len(received) == 0 {
				continue
			}
			n++
			k++
			// locals that alias a received pointer: x := p (not x := *p, which copies)
			ast.Inspect(sc.body, func(m ast.Node) bool {
				if as, ok := m.(*ast.AssignStmt); ok && len(as.Lhs) == len(as.Rhs) {
					for i := range as.Lhs {
						if id, ok := as.Lhs[i].(*ast.Ident); ok {
							if r := identObj(info, ast.Unparen(as.Rhs[i])); r != nil && received[r] {
								if o := info.ObjectOf(id); o != nil {
									received[o] = true
								}
							}
						}
					}
				}
				return true
			})
			bad := token.NoPos
			what := ""
			ast.Inspect(sc.body, func(m ast.Node) bool {
				as, ok := m.(*ast.AssignStmt)
				if !ok {
					return true
				}
				for _, l := range as.Lhs {
					if se, ok := l.(*ast.SelectorExpr); ok {
						if o := identObj(info, ast.Unparen(se.X)); o != nil && received[o] && bad == token.NoPos {
							bad = as.Pos()
							what = types.ExprString(l)
						}
					}
				}
				return true
			})
			at := sc.body.Pos()
			if bad != token.NoPos {
				at = bad
			}
			c.Check(bad == token.NoPos, rule, fmt.Sprintf("%s/context#%d", c.FuncName(d), k), at, "the received context is read, copied or replaced, never assigned through",
				"`"+what+" = …` assigns through a pointer to a traversal context the function received (or a local that aliases it, `x := p` copies the pointer, not the struct): the enclosing scope is changed for every sibling visited afterwards — a variable declared by one `!switch` case stays visible in the later cases, and a computed field that uses it there is accepted")
		}
	}
	if n == 0 {
		c.Undecided(rule, "anchor/contexts", 0, "no function of pkg/dsl receives a traversal context struct by pointer")
	}
}

func init() {
	reg("C10", ruleDoublingLoopsCannotWrap)
	reg("C13", ruleDoublingLoopsCannotWrap)
}

// ---------------------------------------------------------------------------------------------------------------
// LW1: a loop that doubles (or shifts left) a value until it exceeds a bound terminates only if the value cannot
// wrap. On a math/big value it cannot; on a machine integer `for x <= bound { x <<= 1 }` never ends once bound has
// its top bit set: x becomes 0 and stays below the bound for ever (`!flags` values: a member without a value after
// one whose explicit value is 0x8000000000000000 — `yardl validate` hangs instead of reporting the overflow).
// ---------------------------------------------------------------------------------------------------------------
func ruleDoublingLoopsCannotWrap(c *core.Ctx) {
	const rule = "LW1"
	c.Rule(rule, "pkg/dsl, pkg/packaging, internal/*: a `for` loop whose condition compares a value that the loop doubles or shifts left works on a math/big value, or tests the value against zero as well (a machine integer wraps to 0 and the loop never ends)", 1)
	n := 0
	for _, d := range c.AllDecls() {
		p := c.DeclPkg(d)
		if p == nil || d.Body == nil || c.IsTestFile(d.Pos()) || !strings.Contains(p.PkgPath, "/yardl/tooling/") {
			continue
		}
		info := p.TypesInfo
		ast.Inspect(d.Body, func(m ast.Node) bool {
			fs, ok := m.(*ast.ForStmt)
			if !ok || fs.Cond == nil {
				return true
			}
			// what the loop doubles: x <<= k, x *= k, x = x << k, x = x * k (machine integers); X.Lsh(X, k), X.Mul(X, k) (big)
			var machine types.Object
			big := false
			scan := func(node ast.Node) {
				if node == nil {
					return
				}
				ast.Inspect(node, func(k ast.Node) bool {
					switch y := k.(type) {
					case *ast.FuncLit, *ast.ForStmt, *ast.RangeStmt:
						return false // nested loops are judged on their own
					case *ast.AssignStmt:
						if len(y.Lhs) != 1 || len(y.Rhs) != 1 {
							return true
						}
						o := identObj(info, y.Lhs[0])
						if o == nil {
							return true
						}
						if b, ok := o.Type().Underlying().(*types.Basic); !ok || b.Info()&types.IsInteger == 0 {
							return true
						}
						switch y.Tok {
						case token.SHL_ASSIGN, token.MUL_ASSIGN:
							machine = o
						case token.ASSIGN:
							if be, ok := ast.Unparen(y.Rhs[0]).(*ast.BinaryExpr); ok && (be.Op == token.SHL || be.Op == token.MUL) && identObj(info, ast.Unparen(be.X)) == o {
								machine = o
							}
						}
					case *ast.CallExpr:
						if se, ok := y.Fun.(*ast.SelectorExpr); ok && (se.Sel.Name == "Lsh" || se.Sel.Name == "Mul") {
							if nt := core.NamedOf(derefType(info.TypeOf(se.X))); nt != nil && nt.Obj().Pkg() != nil && nt.Obj().Pkg().Path() == "math/big" {
								big = true
							}
						}
					}
					return true
				})
			}
			scan(fs.Body)
			scan(fs.Post)
			if machine == nil && !big {
				return true
			}
			n++
			if machine == nil {
				c.OK(rule, fmt.Sprintf("%s/doubling loop#%d", c.FuncName(d), n), fs.Pos(), "doubles a math/big value: no wrap-around")
				return true
			}
			// the condition compares the doubled value; does it (or the body) also test it against zero?
			compares, zeroTest := false, false
			check := func(node ast.Node) {
				ast.Inspect(node, func(k ast.Node) bool {
					be, ok := k.(*ast.BinaryExpr)
					if !ok {
						return true
					}
					l, r := identObj(info, ast.Unparen(be.X)), identObj(info, ast.Unparen(be.Y))
					if l != machine && r != machine {
						return true
					}
					switch be.Op {
					case token.LSS, token.LEQ, token.GTR, token.GEQ:
						compares = true
					case token.EQL, token.NEQ:
						for _, side := range []ast.Expr{be.X, be.Y} {
							if tv, ok := info.Types[side]; ok && tv.Value != nil && tv.Value.String() == "0" {
								zeroTest = true
							}
						}
					}
					return true
				})
			}
			check(fs.Cond)
			check(fs.Body)
			c.Check(!compares || zeroTest, rule, fmt.Sprintf("%s/doubling loop#%d", c.FuncName(d), n), fs.Pos(), "the loop cannot spin on a wrapped value",
				"`"+machine.Name()+"` is a machine integer that the loop doubles until it exceeds a bound, and nothing tests it against zero: for a bound with the top bit set it wraps to 0 and the loop never ends — the process hangs instead of reporting a value that does not fit")
			return true
		})
	}
	if n == 0 {
		c.Undecided(rule, "anchor/doubling loops", 0, "none found")
	}
}
