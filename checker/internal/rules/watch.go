package rules

import (
	"fmt"
	"go/ast"
	"go/token"
	"go/types"
	"strings"

	"golang.org/x/tools/go/cfg"

	"verif/checker/internal/core"
)

// ---------------------------------------------------------------------------
// C20: watch mode. Regenerations touch process-global state (cwd via os.Chdir, the
// package-level koanf instance, the output directories), so they must be serialised;
// a panic in one must not kill the watcher; the cwd must be restored on every exit.
// ---------------------------------------------------------------------------

func ruleWatchSerialised(c *core.Ctx) {
	const rule = "T1"
	c.Rule(rule, "every function value handed to time.AfterFunc / go in internal/cmd that reaches generateImpl holds one sync.Mutex for its whole body (Lock first, deferred Unlock), because generateImpl reaches os.Chdir, the package-level koanf instance and the output files", 2)
	gi, _, _ := c.Func("internal/cmd", "generateImpl")
	if gi == nil {
		c.Undecided(rule, "anchor/internal/cmd.generateImpl", 0, "anchor function not found")
		return
	}
	// evidence that generateImpl touches process-global state
	chdir := c.PathTo(gi, func(f *types.Func) bool { return core.FullName(f) == "os.Chdir" }, nil)
	c.Check(true, rule, "generateImpl/reaches os.Chdir", 0, "process-global mutator reachable: "+core.PathStr(chdir), "")
	for _, d := range c.AllDecls() {
		p := c.DeclPkg(d)
		if p.PkgPath != core.Mod+"/internal/cmd" {
			continue
		}
		info := p.TypesInfo
		// closures assigned to local variables
		lits := map[types.Object]*ast.FuncLit{}
		ast.Inspect(d.Body, func(n ast.Node) bool {
			if as, ok := n.(*ast.AssignStmt); ok && len(as.Lhs) == 1 && len(as.Rhs) == 1 {
				if fl, ok := as.Rhs[0].(*ast.FuncLit); ok {
					if o := identObj(info, as.Lhs[0]); o != nil {
						lits[o] = fl
					}
				}
			}
			return true
		})
		reachesGen := func(body ast.Node) bool {
			found := false
			ast.Inspect(body, func(n ast.Node) bool {
				if ce, ok := n.(*ast.CallExpr); ok {
					if f := core.Callee(info, ce); f != nil && core.InModule(f) {
						if f.Origin() == gi || c.PathTo(f.Origin(), func(g *types.Func) bool { return g == gi }, nil) != nil {
							found = true
						}
					}
				}
				return !found
			})
			return found
		}
		check := func(how string, arg ast.Expr, pos ast.Node) {
			var body *ast.BlockStmt
			subLits, subInfo := lits, info
			name := types.ExprString(arg)
			switch a := ast.Unparen(arg).(type) {
			case *ast.FuncLit:
				body = a.Body
				name = "func literal"
			case *ast.Ident:
				if fl := lits[identObj(info, a)]; fl != nil {
					body = fl.Body
				} else if f, ok := info.Uses[a].(*types.Func); ok {
					if fd := c.Decl(f); fd != nil {
						body = fd.Body
						subInfo = c.DeclPkg(fd).TypesInfo
						subLits = map[types.Object]*ast.FuncLit{}
						ast.Inspect(fd.Body, func(n ast.Node) bool {
							if as, ok := n.(*ast.AssignStmt); ok && len(as.Lhs) == 1 && len(as.Rhs) == 1 {
								if fl, ok := as.Rhs[0].(*ast.FuncLit); ok {
									if o := identObj(subInfo, as.Lhs[0]); o != nil {
										subLits[o] = fl
									}
								}
							}
							return true
						})
					}
				}
			}
			if sel, ok := ast.Unparen(arg).(*ast.SelectorExpr); ok && body == nil {
				// a method value (`regenerator.regenerate`)
				if f, ok := info.Uses[sel.Sel].(*types.Func); ok {
					if fd := c.Decl(f); fd != nil && fd.Body != nil {
						body = fd.Body
						subInfo = c.DeclPkg(fd).TypesInfo
						subLits = map[types.Object]*ast.FuncLit{}
					}
				}
			}
			key := fmt.Sprintf("%s/%s %s", c.FuncName(d), how, name)
			if body == nil {
				c.Undecided(rule, key, pos.Pos(), "cannot resolve the function value started asynchronously")
				return
			}
			if !reachesGen(body) {
				return
			}
			if how == "go" {
				// a goroutine root is fine when it reaches generateImpl only through local closures
				// that are themselves checked (they hold the mutex); otherwise it must lock itself.
				onlyViaLits := true
				ast.Inspect(body, func(n ast.Node) bool {
					if _, isLit := n.(*ast.FuncLit); isLit {
						return false // closures are judged where they are called / scheduled
					}
					ce, isC := n.(*ast.CallExpr)
					if !isC {
						return true
					}
					if id, isI := ast.Unparen(ce.Fun).(*ast.Ident); isI {
						if sub, found := subLits[identObj(subInfo, id)]; found {
							if reachesGen(sub.Body) && !locksFirst(subInfo, sub.Body) {
								onlyViaLits = false
							}
							return true
						}
					}
					if f := core.Callee(subInfo, ce); f != nil && core.InModule(f) {
						if f.Origin() == gi || c.PathTo(f.Origin(), func(g *types.Func) bool { return g == gi }, nil) != nil {
							// a function or method of the module that takes the regeneration mutex itself is as good as a closure that does
							if fd := c.Decl(f); fd == nil || fd.Body == nil || !locksFirst(c.DeclPkg(fd).TypesInfo, fd.Body) {
								onlyViaLits = false
							}
						}
					}
					return true
				})
				c.Check(onlyViaLits || locksFirst(subInfo, body), rule, key, pos.Pos(), "goroutine reaches generateImpl only through closures that hold the regeneration mutex",
					"goroutine reaches generateImpl outside the regeneration mutex")
				return
			}
			ok := locksFirst(subInfo, body)
			c.Check(ok, rule, key, pos.Pos(), "body runs under one mutex (Lock; defer Unlock)",
				"regenerations started from a timer/goroutine are not mutually exclusive: two can overlap, share the cwd/koanf state, and the older one can write last")
		}
		ast.Inspect(d.Body, func(n ast.Node) bool {
			switch x := n.(type) {
			case *ast.CallExpr:
				if f := core.Callee(info, x); f != nil && core.FullName(f) == "time.AfterFunc" && len(x.Args) == 2 {
					check("time.AfterFunc", x.Args[1], x)
				}
			case *ast.GoStmt:
				check("go", x.Call.Fun, x)
			}
			return true
		})
	}
}

// T2: the regeneration entry used by the watcher recovers from panics: the first
// statement of generateInWatchMode is `defer func() { ... recover() ... }()` with
// recover called directly in that deferred literal.
func ruleWatchRecovers(c *core.Ctx) {
	const rule = "T2"
	c.Rule(rule, "generateInWatchMode defers a function literal that itself calls recover() before calling generateImpl (recover in a helper called from the deferred function returns nil)", 1)
	_, d, p := c.Func("internal/cmd", "generateInWatchMode")
	gi, _, _ := c.Func("internal/cmd", "generateImpl")
	if d == nil || gi == nil {
		c.Undecided(rule, "anchor/internal/cmd.generateInWatchMode", 0, "anchor function not found")
		return
	}
	info := p.TypesInfo
	calls := callsIn(info, d.Body, gi)
	if len(calls) == 0 {
		c.Undecided(rule, "generateInWatchMode/call generateImpl", d.Pos(), "generateInWatchMode does not call generateImpl")
		return
	}
	ok := false
	for _, st := range d.Body.List {
		if st.Pos() > calls[0].Pos() {
			break
		}
		ds, isD := st.(*ast.DeferStmt)
		if !isD {
			continue
		}
		// the deferred function: a literal, or a named function of the module (recover() works only when called
		// directly by the deferred function itself)
		var dbody *ast.BlockStmt
		dinfo := info
		if fl, isL := ds.Call.Fun.(*ast.FuncLit); isL {
			dbody = fl.Body
		} else if f := core.Callee(info, ds.Call); f != nil && core.InModule(f) {
			if fd := c.Decl(f.Origin()); fd != nil {
				dbody = fd.Body
				dinfo = c.DeclPkg(fd).TypesInfo
			}
		}
		if dbody == nil {
			continue
		}
		// recover() directly in the deferred function's body (not inside a nested literal)
		ast.Inspect(dbody, func(n ast.Node) bool {
			if _, nested := n.(*ast.FuncLit); nested {
				return false
			}
			if ce, isC := n.(*ast.CallExpr); isC {
				if id, isI := ce.Fun.(*ast.Ident); isI && id.Name == "recover" {
					if _, isB := dinfo.Uses[id].(*types.Builtin); isB {
						ok = true
					}
				}
			}
			return true
		})
	}
	c.Check(ok, rule, "generateInWatchMode/deferred recover", d.Pos(), "a deferred literal calling recover() directly precedes the generateImpl call",
		"no deferred function literal calls recover() directly before generateImpl: a panic during regeneration kills the watcher")
}

// T3: every os.Chdir away is paired with a deferred os.Chdir back before any return.
func ruleChdirRestored(c *core.Ctx) {
	const rule = "T3"
	c.Rule(rule, "every os.Chdir(x) in the module (other than a restore) is followed, before any return statement, by `defer os.Chdir(previous)` where previous came from os.Getwd", 1)
	for _, d := range c.AllDecls() {
		p := c.DeclPkg(d)
		info := p.TypesInfo
		var chdirs []*ast.CallExpr
		deferred := map[*ast.CallExpr]bool{}
		ast.Inspect(d.Body, func(n ast.Node) bool {
			if ds, ok := n.(*ast.DeferStmt); ok {
				if f := core.Callee(info, ds.Call); f != nil && core.FullName(f) == "os.Chdir" {
					deferred[ds.Call] = true
				}
			}
			if ce, ok := n.(*ast.CallExpr); ok {
				if f := core.Callee(info, ce); f != nil && core.FullName(f) == "os.Chdir" {
					chdirs = append(chdirs, ce)
				}
			}
			return true
		})
		for _, ce := range chdirs {
			if deferred[ce] {
				continue
			}
			key := c.FuncName(d) + "/os.Chdir"
			// statements after the one containing ce in the function body: a defer os.Chdir must come before any return
			ok := false
			after := false
			for _, st := range d.Body.List {
				if st.Pos() <= ce.Pos() && ce.End() <= st.End() {
					after = true
					continue // the `if err := os.Chdir(..); err != nil {return}` itself
				}
				if !after {
					continue
				}
				if ds, isD := st.(*ast.DeferStmt); isD && deferred[ds.Call] {
					ok = true
					break
				}
				hasRet := false
				ast.Inspect(st, func(n ast.Node) bool {
					if _, r := n.(*ast.ReturnStmt); r {
						hasRet = true
					}
					return true
				})
				if hasRet {
					break
				}
			}
			c.Check(ok, rule, key, ce.Pos(), "working directory restored by a defer placed before any further return",
				"the process working directory is changed and not restored by a defer on every exit: in watch mode an error return leaves later regenerations in another directory")
		}
	}
}

// locksFirst: the body starts with X.Lock(); defer X.Unlock() on one sync.Mutex.
func locksFirst(info *types.Info, body *ast.BlockStmt) bool {
	if len(body.List) < 2 {
		return false
	}
	es, isE := body.List[0].(*ast.ExprStmt)
	if !isE {
		return false
	}
	ce, isC := es.X.(*ast.CallExpr)
	if !isC {
		return false
	}
	f := core.Callee(info, ce)
	if f == nil || core.FullName(f) != "(sync.Mutex).Lock" {
		return false
	}
	ds, isD := body.List[1].(*ast.DeferStmt)
	if !isD {
		return false
	}
	g := core.Callee(info, ds.Call)
	if g == nil || core.FullName(g) != "(sync.Mutex).Unlock" {
		return false
	}
	s1, ok1 := ce.Fun.(*ast.SelectorExpr)
	s2, ok2 := ds.Call.Fun.(*ast.SelectorExpr)
	if !ok1 || !ok2 {
		return false
	}
	a, b := identObj(info, s1.X), identObj(info, s2.X)
	if a != nil && a == b {
		return true
	}
	// the mutex as a field of the receiver / of a local (`r.mutex.Lock(); defer r.mutex.Unlock()`)
	root := func(e ast.Expr) types.Object {
		for {
			se, ok := ast.Unparen(e).(*ast.SelectorExpr)
			if !ok {
				return identObj(info, e)
			}
			e = se.X
		}
	}
	return types.ExprString(s1.X) == types.ExprString(s2.X) && root(s1.X) != nil && root(s1.X) == root(s2.X)
}

// T4: every file-system event re-arms the regeneration. In the watcher loop of internal/cmd (the
// function with a `select` that receives from (*fsnotify.Watcher).Events), every path from the
// receive back to the select passes a call that schedules or performs a regeneration:
// (*time.Timer).Reset on a timer created by time.AfterFunc(_, f) with f reaching generateImpl,
// time.AfterFunc with such an f, or a direct call of a function reaching generateImpl. A path
// that returns (channel closed) is fine. An event that is swallowed leaves stale output on disk.
func ruleWatchEveryEventSchedules(c *core.Ctx) {
	const rule = "T4"
	c.Rule(rule, "in the watcher loop every received fsnotify event reaches, before the loop waits again, a call that re-arms the debounce timer of the regeneration (or regenerates directly); the timer's function reaches generateImpl", 2)
	gi, _, _ := c.Func("internal/cmd", "generateImpl")
	if gi == nil {
		c.Undecided(rule, "anchor/internal/cmd.generateImpl", 0, "anchor function not found")
		return
	}
	found := 0
	for _, d := range c.AllDecls() {
		p := c.DeclPkg(d)
		if p.PkgPath != core.Mod+"/internal/cmd" || d.Body == nil {
			continue
		}
		info := p.TypesInfo
		// closures bound to locals, to resolve `regenerate`
		lits := map[types.Object]*ast.FuncLit{}
		ast.Inspect(d.Body, func(n ast.Node) bool {
			if as, ok := n.(*ast.AssignStmt); ok && len(as.Lhs) == 1 && len(as.Rhs) == 1 {
				if fl, ok := as.Rhs[0].(*ast.FuncLit); ok {
					if o := identObj(info, as.Lhs[0]); o != nil {
						lits[o] = fl
					}
				}
			}
			return true
		})
		var reaches func(e ast.Expr, depth int) bool
		bodyReaches := func(body ast.Node, depth int) bool {
			hit := false
			ast.Inspect(body, func(n ast.Node) bool {
				if ce, ok := n.(*ast.CallExpr); ok && !hit {
					if reaches(ce.Fun, depth+1) {
						hit = true
					}
				}
				return !hit
			})
			return hit
		}
		reaches = func(e ast.Expr, depth int) bool {
			if depth > 4 {
				return false
			}
			switch a := ast.Unparen(e).(type) {
			case *ast.FuncLit:
				return bodyReaches(a.Body, depth)
			case *ast.Ident:
				if fl := lits[identObj(info, a)]; fl != nil {
					return bodyReaches(fl.Body, depth)
				}
			}
			var f *types.Func
			switch a := ast.Unparen(e).(type) {
			case *ast.Ident:
				f, _ = info.Uses[a].(*types.Func)
			case *ast.SelectorExpr:
				f, _ = info.Uses[a.Sel].(*types.Func)
			}
			if f == nil || !core.InModule(f) {
				return false
			}
			return f.Origin() == gi || c.PathTo(f.Origin(), func(g *types.Func) bool { return g == gi }, nil) != nil
		}
		// timers created by time.AfterFunc(_, f): object -> f reaches generateImpl
		timerRuns := map[types.Object]bool{}
		ast.Inspect(d.Body, func(n ast.Node) bool {
			if as, ok := n.(*ast.AssignStmt); ok && len(as.Lhs) == 1 && len(as.Rhs) == 1 {
				if ce, ok := ast.Unparen(as.Rhs[0]).(*ast.CallExpr); ok && len(ce.Args) == 2 {
					if f := core.Callee(info, ce); f != nil && core.FullName(f) == "time.AfterFunc" {
						if o := identObj(info, as.Lhs[0]); o != nil {
							timerRuns[o] = timerRuns[o] || reaches(ce.Args[1], 0)
						}
					}
				}
			}
			return true
		})
		var schedules func(n ast.Node) bool
		depthS := 0
		schedules = func(n ast.Node) bool {
			hit := false
			ast.Inspect(n, func(x ast.Node) bool {
				if _, isLit := x.(*ast.FuncLit); isLit {
					return false
				}
				ce, ok := x.(*ast.CallExpr)
				if !ok || hit {
					return !hit
				}
				if f := core.Callee(info, ce); f != nil {
					switch core.FullName(f) {
					case "(time.Timer).Reset":
						if sel, ok := ast.Unparen(ce.Fun).(*ast.SelectorExpr); ok && timerRuns[identObj(info, sel.X)] {
							hit = true
						}
					case "time.AfterFunc":
						if len(ce.Args) == 2 && reaches(ce.Args[1], 0) {
							hit = true
						}
					}
				}
				if !hit && reaches(ce.Fun, 0) {
					hit = true
				}
				// a local closure that does the re-arming
				if id, ok := ast.Unparen(ce.Fun).(*ast.Ident); ok && !hit && depthS < 3 {
					if fl := lits[identObj(info, id)]; fl != nil {
						depthS++
						hit = schedules(fl.Body)
						depthS--
					}
				}
				return !hit
			})
			return hit
		}
		ast.Inspect(d.Body, func(n ast.Node) bool {
			sel, ok := n.(*ast.SelectStmt)
			if !ok {
				return true
			}
			for _, cl := range sel.Body.List {
				cc := cl.(*ast.CommClause)
				if cc.Comm == nil || !receivesFrom(info, cc.Comm, "github.com/fsnotify/fsnotify", "Watcher", "Events") {
					continue
				}
				found++
				key := c.FuncName(d) + "/event received"
				fc := core.NewCFG(d.Body, info)
				// go/cfg evaluates every comm statement in the block that dispatches the select; the clause body is a
				// block of kind SelectCaseBody
				head := fc.BlockOf(cc.Comm)
				var start *cfg.Block
				for _, b := range fc.G.Blocks {
					if b.Kind == cfg.KindSelectCaseBody && b.Stmt == ast.Stmt(cc) {
						start = b
					}
				}
				if start == nil || head == nil {
					c.Undecided(rule, key, cc.Pos(), "cannot locate the receive in the control-flow graph")
					continue
				}
				heads := map[int32]bool{head.Index: true}
				// forward search from the receive; a block (from the node after the receive on) that schedules ends the path
				bad := false
				seen := map[int32]bool{}
				var walk func(b *cfg.Block, from int)
				walk = func(b *cfg.Block, from int) {
					for i := from; i < len(b.Nodes); i++ {
						if schedules(b.Nodes[i]) {
							return
						}
					}
					for _, s := range b.Succs {
						if heads[s.Index] {
							bad = true
							return
						}
						if !seen[s.Index] {
							seen[s.Index] = true
							walk(s, 0)
						}
					}
				}
				walk(start, 0)
				c.Check(!bad, rule, key, cc.Pos(), "every path from the receive back to the select re-arms the regeneration timer (or the function returns)",
					"an fsnotify event can be received without re-arming the regeneration: the edit that caused it is never generated and the files on disk stay stale")
			}
			return true
		})
		// the timer itself must run the regeneration
		for o, runs := range timerRuns {
			found++
			c.Check(runs, rule, c.FuncName(d)+"/timer "+o.Name()+" runs the regeneration", o.Pos(), "the function given to time.AfterFunc reaches generateImpl",
				"the debounce timer's function does not reach generateImpl: events are debounced into nothing")
		}
	}
	if found == 0 {
		c.Undecided(rule, "watcher loop", 0, "no select receiving from (*fsnotify.Watcher).Events found in internal/cmd")
	}
}

// receivesFrom: the comm statement receives from the field <pkg>.<typ>.<field>.
func receivesFrom(info *types.Info, comm ast.Stmt, pkg, typ, field string) bool {
	hit := false
	ast.Inspect(comm, func(n ast.Node) bool {
		if ue, ok := n.(*ast.UnaryExpr); ok && ue.Op == token.ARROW {
			if se, ok := ast.Unparen(ue.X).(*ast.SelectorExpr); ok && se.Sel.Name == field {
				if s, ok := info.Selections[se]; ok {
					if nt := core.NamedOf(s.Recv()); nt != nil && nt.Obj().Name() == typ && nt.Obj().Pkg() != nil && nt.Obj().Pkg().Path() == pkg {
						hit = true
					}
				}
			}
		}
		return !hit
	})
	return hit
}

// T6: a failed regeneration is only reported. Between the function the watcher schedules and
// generateImpl (both excluded: generateImpl is the one-shot path too), no function terminates the
// process (os.Exit, log.Fatal, zerolog Fatal/Panic chains, panic) and none sends generateImpl's error
// to a channel — the watcher's completion channel ends the command.
func ruleWatchSurvivesErrors(c *core.Ctx) {
	const rule = "T6"
	c.Rule(rule, "on the path from the scheduled regeneration to generateImpl no function terminates the process or forwards generateImpl's error to a channel: an invalid intermediate model state is reported and the watcher keeps running", 1)
	gi, _, _ := c.Func("internal/cmd", "generateImpl")
	if gi == nil {
		c.Undecided(rule, "anchor/internal/cmd.generateImpl", 0, "anchor function not found")
		return
	}
	n := 0
	for _, d := range c.AllDecls() {
		p := c.DeclPkg(d)
		if p.PkgPath != core.Mod+"/internal/cmd" || d.Body == nil {
			continue
		}
		info := p.TypesInfo
		f, _ := info.Defs[d.Name].(*types.Func)
		if f == nil || f == gi {
			continue
		}
		// functions of the watch path: they (or a closure in them) are started by time.AfterFunc, or they are called
		// from such a function and call generateImpl
		onWatchPath := false
		ast.Inspect(d.Body, func(x ast.Node) bool {
			if ce, ok := x.(*ast.CallExpr); ok {
				if cal := core.Callee(info, ce); cal != nil && core.FullName(cal) == "time.AfterFunc" {
					onWatchPath = true
				}
			}
			return true
		})
		if !onWatchPath {
			direct := len(callsIn(info, d.Body, gi)) > 0
			calledFromWatch := false
			for _, o := range c.AllDecls() {
				if c.DeclPkg(o) != p || o == d {
					continue
				}
				usesTimer := false
				ast.Inspect(o.Body, func(x ast.Node) bool {
					if ce, ok := x.(*ast.CallExpr); ok {
						if cal := core.Callee(info, ce); cal != nil && core.FullName(cal) == "time.AfterFunc" {
							usesTimer = true
						}
					}
					return true
				})
				if usesTimer && len(callsIn(info, o.Body, f)) > 0 {
					calledFromWatch = true
				}
			}
			onWatchPath = direct && calledFromWatch
		}
		if !onWatchPath {
			continue
		}
		n++
		key := c.FuncName(d) + "/no exit on a failed regeneration"
		why := ""
		var pos token.Pos = d.Pos()
		// values that carry generateImpl's error: identifiers assigned from a call of generateImpl or of a function reaching it
		carriers := map[types.Object]bool{}
		ast.Inspect(d.Body, func(x ast.Node) bool {
			if as, ok := x.(*ast.AssignStmt); ok && len(as.Rhs) == 1 {
				if ce, ok := ast.Unparen(as.Rhs[0]).(*ast.CallExpr); ok {
					if cal := core.Callee(info, ce); cal != nil && core.InModule(cal) && (cal.Origin() == gi || c.PathTo(cal.Origin(), func(g *types.Func) bool { return g == gi }, nil) != nil) {
						for _, l := range as.Lhs {
							if o := identObj(info, l); o != nil && core.IsErrorType(o.Type()) {
								carriers[o] = true
							}
						}
					}
				}
			}
			return true
		})
		ast.Inspect(d.Body, func(x ast.Node) bool {
			switch s := x.(type) {
			case *ast.CallExpr:
				if core.NoReturn(info, s) && why == "" {
					why = "calls a process-terminating function (" + types.ExprString(s.Fun) + ")"
					pos = s.Pos()
				}
			case *ast.SendStmt:
				if id, ok := ast.Unparen(s.Value).(*ast.Ident); ok && carriers[info.Uses[id]] && why == "" {
					why = "sends the error of the regeneration to a channel (" + types.ExprString(s.Chan) + ")"
					pos = s.Pos()
				}
			}
			return true
		})
		c.Check(why == "", rule, key, pos, "no process exit and no forwarding of the regeneration's error", why+": one invalid intermediate state of the model ends the watcher")
	}
	if n == 0 {
		c.Undecided(rule, "watch path", 0, "no function between the timer and generateImpl found")
	}
}

// T7: what every regeneration starts from stays the same. The watcher hands the same configuration map to each
// regeneration (it is captured by the scheduled closure). A regeneration that writes to it — deletes an applied key,
// stores a default — changes the input of all later regenerations, so after edits stop the output is no longer what a
// one-shot run with the same command line produces. The map parameters of generateImpl, followed through the module
// functions they are passed to, are never stored into, deleted from or cleared.
func ruleWatchInputsNotMutated(c *core.Ctx) {
	const rule = "T7"
	c.Rule(rule, "the map/slice arguments generateImpl receives from the watcher (the --config overrides) are not mutated by generateImpl or any module function they are handed to: no element store, delete, clear or append-assign through the parameter", 2)
	gi, gd, _ := c.Func("internal/cmd", "generateImpl")
	if gi == nil || gd == nil {
		c.Undecided(rule, "anchor/internal/cmd.generateImpl", 0, "anchor function not found")
		return
	}
	type tparam struct {
		d   *ast.FuncDecl
		obj types.Object
	}
	var work []tparam
	seen := map[types.Object]bool{}
	addParams := func(d *ast.FuncDecl, idx int) {
		p := c.DeclPkg(d)
		if p == nil {
			return
		}
		objs := paramObjs(p.TypesInfo, d)
		if idx < 0 {
			for _, o := range objs {
				if o == nil {
					continue
				}
				switch o.Type().Underlying().(type) {
				case *types.Map, *types.Slice:
					if !seen[o] {
						seen[o] = true
						work = append(work, tparam{d, o})
					}
				}
			}
			return
		}
		if idx < len(objs) && objs[idx] != nil && !seen[objs[idx]] {
			seen[objs[idx]] = true
			work = append(work, tparam{d, objs[idx]})
		}
	}
	addParams(gd, -1)
	n := 0
	for len(work) > 0 {
		tp := work[len(work)-1]
		work = work[:len(work)-1]
		info := c.DeclPkg(tp.d).TypesInfo
		n++
		key := c.FuncName(tp.d) + "/parameter " + tp.obj.Name()
		var bad ast.Node
		why := ""
		ast.Inspect(tp.d.Body, func(x ast.Node) bool {
			switch s := x.(type) {
			case *ast.AssignStmt:
				for _, l := range s.Lhs {
					if ix, ok := ast.Unparen(l).(*ast.IndexExpr); ok && identObj(info, ix.X) == tp.obj && bad == nil {
						bad, why = s, "stores into "+tp.obj.Name()+"[…]"
					}
				}
			case *ast.CallExpr:
				if id, ok := ast.Unparen(s.Fun).(*ast.Ident); ok {
					if _, isB := info.Uses[id].(*types.Builtin); isB && (id.Name == "delete" || id.Name == "clear") && len(s.Args) >= 1 && identObj(info, s.Args[0]) == tp.obj && bad == nil {
						bad, why = s, id.Name+"("+tp.obj.Name()+", …)"
					}
				}
				// handed on to another function of the module
				if f := core.Callee(info, s); f != nil && core.InModule(f) {
					if cd := c.Decl(f.Origin()); cd != nil {
						for i, a := range s.Args {
							if identObj(info, a) == tp.obj {
								addParams(cd, i)
							}
						}
					}
				}
			}
			return true
		})
		pos := tp.d.Pos()
		if bad != nil {
			pos = bad.Pos()
		}
		c.Check(bad == nil, rule, key, pos, "read only",
			why+": the watcher passes the same map to every regeneration, so the overrides given on the command line are gone (or altered) from the second regeneration on and the output no longer equals a one-shot run")
	}
}

// T3b: a path worked out under a temporary working directory does not depend on it afterwards. fetchAndCachePackages
// changes into the importing package's directory (and changes back on return) so that relative import paths resolve
// against the importer; every function it calls while there must therefore hand back ABSOLUTE paths on success — a
// relative result is resolved later against whatever the process directory is then (the root package's), so a nested
// package's `../x` import points somewhere else.
func ruleTemporaryCwdPathsAbsolute(c *core.Ctx) {
	const rule = "T3b"
	c.Rule(rule, "pkg/packaging: every function called between os.Chdir(dir) and its deferred restore returns, with a nil error, only paths that went through filepath.Abs (or come from another module function), never the raw or merely cleaned import path", 1)
	n := 0
	for _, d := range c.AllDecls() {
		p := c.DeclPkg(d)
		if p == nil || d.Body == nil || !strings.HasSuffix(p.PkgPath, "/pkg/packaging") {
			continue
		}
		info := p.TypesInfo
		// a temporary chdir: os.Chdir(x) and `defer os.Chdir(...)`
		hasChdir, hasDefer := false, false
		ast.Inspect(d.Body, func(x ast.Node) bool {
			if ds, ok := x.(*ast.DeferStmt); ok {
				if f := core.Callee(info, ds.Call); f != nil && core.FullName(f) == "os.Chdir" {
					hasDefer = true
				}
			} else if ce, ok := x.(*ast.CallExpr); ok {
				if f := core.Callee(info, ce); f != nil && core.FullName(f) == "os.Chdir" {
					hasChdir = true
				}
			}
			return true
		})
		if !hasChdir || !hasDefer {
			continue
		}
		for _, cs := range c.Calls(d) {
			if cs.Callee == nil || cs.Callee.Pkg() != p.Types {
				continue
			}
			cd := c.Decl(cs.Callee)
			if cd == nil || cd.Body == nil {
				continue
			}
			sig := cs.Callee.Type().(*types.Signature)
			if sig.Results().Len() != 2 || !core.IsErrorType(sig.Results().At(1).Type()) {
				continue
			}
			if b, ok := sig.Results().At(0).Type().Underlying().(*types.Basic); !ok || b.Kind() != types.String {
				continue
			}
			// single definitions of locals in the callee
			defs := map[types.Object][]ast.Expr{}
			ast.Inspect(cd.Body, func(x ast.Node) bool {
				if as, ok := x.(*ast.AssignStmt); ok {
					for i, l := range as.Lhs {
						if o := identObj(info, l); o != nil {
							if len(as.Rhs) == len(as.Lhs) {
								defs[o] = append(defs[o], as.Rhs[i])
							} else if len(as.Rhs) == 1 && i == 0 {
								defs[o] = append(defs[o], as.Rhs[0])
							} else {
								defs[o] = append(defs[o], nil)
							}
						}
					}
				}
				return true
			})
			var absolute func(e ast.Expr, depth int) bool
			absolute = func(e ast.Expr, depth int) bool {
				if depth > 4 {
					return false
				}
				switch x := ast.Unparen(e).(type) {
				case *ast.Ident:
					ds := defs[info.ObjectOf(x)]
					if len(ds) == 0 {
						return false
					}
					for _, rhs := range ds {
						if rhs == nil || !absolute(rhs, depth+1) {
							return false
						}
					}
					return true
				case *ast.CallExpr:
					f := core.Callee(info, x)
					if f == nil {
						return false
					}
					if core.FullName(f) == "path/filepath.Abs" {
						return true
					}
					if core.InModule(f) {
						return true // another function of the module: judged where it is defined
					}
					switch core.FullName(f) {
					case "path/filepath.Clean", "path/filepath.Join", "path.Join", "path.Clean", "path/filepath.FromSlash":
						return len(x.Args) > 0 && absolute(x.Args[0], depth+1)
					}
				}
				return false
			}
			ast.Inspect(cd.Body, func(x ast.Node) bool {
				if _, isLit := x.(*ast.FuncLit); isLit {
					return false
				}
				r, ok := x.(*ast.ReturnStmt)
				if !ok || len(r.Results) != 2 {
					return true
				}
				if tv := info.Types[r.Results[1]]; !tv.IsNil() {
					return true
				}
				n++
				key := c.FuncName(cd) + "/return " + types.ExprString(r.Results[0])
				c.Check(absolute(r.Results[0], 0), rule, key, r.Pos(), "absolute before it leaves the temporary working directory",
					"`"+types.ExprString(r.Results[0])+"` is returned without filepath.Abs while the working directory is only temporarily the importing package's: a relative import of a nested package is later resolved against the root package's directory — the wrong package (or none) is loaded")
				return true
			})
		}
	}
	if n == 0 {
		c.Undecided(rule, "temporary chdir", 0, "no function called under a temporary os.Chdir returns a path")
	}
}
