package rules

import (
	"fmt"
	"go/ast"
	"go/types"

	"verif/checker/internal/core"
)

// ---------------------------------------------------------------------------
// C20: watch mode. Regenerations touch process-global state (cwd via os.Chdir, the
// package-level koanf instance, the output directories), so they must be serialised;
// a panic in one must not kill the watcher; the cwd must be restored on every exit.
// ---------------------------------------------------------------------------

func ruleWatchSerialised(c *core.Ctx) {
	const rule = "T1"
	c.Rule(rule, "every function value handed to time.AfterFunc / go in internal/cmd that reaches generateImpl holds one sync.Mutex for its whole body (Lock first, deferred Unlock), because generateImpl reaches os.Chdir, the package-level koanf instance and the output files", 2)
	gi, _, _ := c.Func("internal/cmd", "generateImpl")
	if gi == nil {
		c.Undecided(rule, "anchor/internal/cmd.generateImpl", 0, "anchor function not found")
		return
	}
	// evidence that generateImpl touches process-global state
	chdir := c.PathTo(gi, func(f *types.Func) bool { return core.FullName(f) == "os.Chdir" }, nil)
	c.Check(true, rule, "generateImpl/reaches os.Chdir", 0, "process-global mutator reachable: "+core.PathStr(chdir), "")
	for _, d := range c.AllDecls() {
		p := c.DeclPkg(d)
		if p.PkgPath != core.Mod+"/internal/cmd" {
			continue
		}
		info := p.TypesInfo
		// closures assigned to local variables
		lits := map[types.Object]*ast.FuncLit{}
		ast.Inspect(d.Body, func(n ast.Node) bool {
			if as, ok := n.(*ast.AssignStmt); ok && len(as.Lhs) == 1 && len(as.Rhs) == 1 {
				if fl, ok := as.Rhs[0].(*ast.FuncLit); ok {
					if o := identObj(info, as.Lhs[0]); o != nil {
						lits[o] = fl
					}
				}
			}
			return true
		})
		reachesGen := func(body ast.Node) bool {
			found := false
			ast.Inspect(body, func(n ast.Node) bool {
				if ce, ok := n.(*ast.CallExpr); ok {
					if f := core.Callee(info, ce); f != nil && core.InModule(f) {
						if f.Origin() == gi || c.PathTo(f.Origin(), func(g *types.Func) bool { return g == gi }, nil) != nil {
							found = true
						}
					}
				}
				return !found
			})
			return found
		}
		check := func(how string, arg ast.Expr, pos ast.Node) {
			var body *ast.BlockStmt
			subLits, subInfo := lits, info
			name := types.ExprString(arg)
			switch a := ast.Unparen(arg).(type) {
			case *ast.FuncLit:
				body = a.Body
				name = "func literal"
			case *ast.Ident:
				if fl := lits[identObj(info, a)]; fl != nil {
					body = fl.Body
				} else if f, ok := info.Uses[a].(*types.Func); ok {
					if fd := c.Decl(f); fd != nil {
						body = fd.Body
						subInfo = c.DeclPkg(fd).TypesInfo
						subLits = map[types.Object]*ast.FuncLit{}
						ast.Inspect(fd.Body, func(n ast.Node) bool {
							if as, ok := n.(*ast.AssignStmt); ok && len(as.Lhs) == 1 && len(as.Rhs) == 1 {
								if fl, ok := as.Rhs[0].(*ast.FuncLit); ok {
									if o := identObj(subInfo, as.Lhs[0]); o != nil {
										subLits[o] = fl
									}
								}
							}
							return true
						})
					}
				}
			}
			key := fmt.Sprintf("%s/%s %s", c.FuncName(d), how, name)
			if body == nil {
				c.Undecided(rule, key, pos.Pos(), "cannot resolve the function value started asynchronously")
				return
			}
			if !reachesGen(body) {
				return
			}
			if how == "go" {
				// a goroutine root is fine when it reaches generateImpl only through local closures
				// that are themselves checked (they hold the mutex); otherwise it must lock itself.
				onlyViaLits := true
				ast.Inspect(body, func(n ast.Node) bool {
					if _, isLit := n.(*ast.FuncLit); isLit {
						return false // closures are judged where they are called / scheduled
					}
					ce, isC := n.(*ast.CallExpr)
					if !isC {
						return true
					}
					if id, isI := ast.Unparen(ce.Fun).(*ast.Ident); isI {
						if sub, found := subLits[identObj(subInfo, id)]; found {
							if reachesGen(sub.Body) && !locksFirst(subInfo, sub.Body) {
								onlyViaLits = false
							}
							return true
						}
					}
					if f := core.Callee(subInfo, ce); f != nil && core.InModule(f) {
						if f.Origin() == gi || c.PathTo(f.Origin(), func(g *types.Func) bool { return g == gi }, nil) != nil {
							onlyViaLits = false
						}
					}
					return true
				})
				c.Check(onlyViaLits || locksFirst(subInfo, body), rule, key, pos.Pos(), "goroutine reaches generateImpl only through closures that hold the regeneration mutex",
					"goroutine reaches generateImpl outside the regeneration mutex")
				return
			}
			ok := locksFirst(info, body)
			c.Check(ok, rule, key, pos.Pos(), "body runs under one mutex (Lock; defer Unlock)",
				"regenerations started from a timer/goroutine are not mutually exclusive: two can overlap, share the cwd/koanf state, and the older one can write last")
		}
		ast.Inspect(d.Body, func(n ast.Node) bool {
			switch x := n.(type) {
			case *ast.CallExpr:
				if f := core.Callee(info, x); f != nil && core.FullName(f) == "time.AfterFunc" && len(x.Args) == 2 {
					check("time.AfterFunc", x.Args[1], x)
				}
			case *ast.GoStmt:
				check("go", x.Call.Fun, x)
			}
			return true
		})
	}
}

// T2: the regeneration entry used by the watcher recovers from panics: the first
// statement of generateInWatchMode is `defer func() { ... recover() ... }()` with
// recover called directly in that deferred literal.
func ruleWatchRecovers(c *core.Ctx) {
	const rule = "T2"
	c.Rule(rule, "generateInWatchMode defers a function literal that itself calls recover() before calling generateImpl (recover in a helper called from the deferred function returns nil)", 1)
	_, d, p := c.Func("internal/cmd", "generateInWatchMode")
	gi, _, _ := c.Func("internal/cmd", "generateImpl")
	if d == nil || gi == nil {
		c.Undecided(rule, "anchor/internal/cmd.generateInWatchMode", 0, "anchor function not found")
		return
	}
	info := p.TypesInfo
	calls := callsIn(info, d.Body, gi)
	if len(calls) == 0 {
		c.Undecided(rule, "generateInWatchMode/call generateImpl", d.Pos(), "generateInWatchMode does not call generateImpl")
		return
	}
	ok := false
	for _, st := range d.Body.List {
		if st.Pos() > calls[0].Pos() {
			break
		}
		ds, isD := st.(*ast.DeferStmt)
		if !isD {
			continue
		}
		fl, isL := ds.Call.Fun.(*ast.FuncLit)
		if !isL {
			continue
		}
		// recover() directly in fl.Body (not inside a nested literal)
		ast.Inspect(fl.Body, func(n ast.Node) bool {
			if _, nested := n.(*ast.FuncLit); nested {
				return false
			}
			if ce, isC := n.(*ast.CallExpr); isC {
				if id, isI := ce.Fun.(*ast.Ident); isI && id.Name == "recover" {
					if _, isB := info.Uses[id].(*types.Builtin); isB {
						ok = true
					}
				}
			}
			return true
		})
	}
	c.Check(ok, rule, "generateInWatchMode/deferred recover", d.Pos(), "a deferred literal calling recover() directly precedes the generateImpl call",
		"no deferred function literal calls recover() directly before generateImpl: a panic during regeneration kills the watcher")
}

// T3: every os.Chdir away is paired with a deferred os.Chdir back before any return.
func ruleChdirRestored(c *core.Ctx) {
	const rule = "T3"
	c.Rule(rule, "every os.Chdir(x) in the module (other than a restore) is followed, before any return statement, by `defer os.Chdir(previous)` where previous came from os.Getwd", 1)
	for _, d := range c.AllDecls() {
		p := c.DeclPkg(d)
		info := p.TypesInfo
		var chdirs []*ast.CallExpr
		deferred := map[*ast.CallExpr]bool{}
		ast.Inspect(d.Body, func(n ast.Node) bool {
			if ds, ok := n.(*ast.DeferStmt); ok {
				if f := core.Callee(info, ds.Call); f != nil && core.FullName(f) == "os.Chdir" {
					deferred[ds.Call] = true
				}
			}
			if ce, ok := n.(*ast.CallExpr); ok {
				if f := core.Callee(info, ce); f != nil && core.FullName(f) == "os.Chdir" {
					chdirs = append(chdirs, ce)
				}
			}
			return true
		})
		for _, ce := range chdirs {
			if deferred[ce] {
				continue
			}
			key := c.FuncName(d) + "/os.Chdir"
			// statements after the one containing ce in the function body: a defer os.Chdir must come before any return
			ok := false
			after := false
			for _, st := range d.Body.List {
				if st.Pos() <= ce.Pos() && ce.End() <= st.End() {
					after = true
					continue // the `if err := os.Chdir(..); err != nil {return}` itself
				}
				if !after {
					continue
				}
				if ds, isD := st.(*ast.DeferStmt); isD && deferred[ds.Call] {
					ok = true
					break
				}
				hasRet := false
				ast.Inspect(st, func(n ast.Node) bool {
					if _, r := n.(*ast.ReturnStmt); r {
						hasRet = true
					}
					return true
				})
				if hasRet {
					break
				}
			}
			c.Check(ok, rule, key, ce.Pos(), "working directory restored by a defer placed before any further return",
				"the process working directory is changed and not restored by a defer on every exit: in watch mode an error return leaves later regenerations in another directory")
		}
	}
}

// locksFirst: the body starts with X.Lock(); defer X.Unlock() on one sync.Mutex.
func locksFirst(info *types.Info, body *ast.BlockStmt) bool {
	if len(body.List) < 2 {
		return false
	}
	es, isE := body.List[0].(*ast.ExprStmt)
	if !isE {
		return false
	}
	ce, isC := es.X.(*ast.CallExpr)
	if !isC {
		return false
	}
	f := core.Callee(info, ce)
	if f == nil || core.FullName(f) != "(sync.Mutex).Lock" {
		return false
	}
	ds, isD := body.List[1].(*ast.DeferStmt)
	if !isD {
		return false
	}
	g := core.Callee(info, ds.Call)
	if g == nil || core.FullName(g) != "(sync.Mutex).Unlock" {
		return false
	}
	s1, ok1 := ce.Fun.(*ast.SelectorExpr)
	s2, ok2 := ds.Call.Fun.(*ast.SelectorExpr)
	if !ok1 || !ok2 {
		return false
	}
	a, b := identObj(info, s1.X), identObj(info, s2.X)
	return a != nil && a == b
}
