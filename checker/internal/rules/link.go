package rules

import (
	"go/ast"
	"go/token"
	"regexp"
	"sort"
	"strconv"
	"strings"

	"verif/checker/internal/core"
)

// L1 (Go half): collect every runtime symbol a generator can emit. The Python half
// (pyan/pyrules.py rule_link) resolves them against the shipped runtime files: python
// module-level names (ast), MATLAB +binary/<Name>.m files, C++ declarations (clang AST).

var primitives18 = []string{"bool", "int8", "uint8", "int16", "uint16", "int32", "uint32", "int64", "uint64", "size", "float32", "float64",
	"complexfloat32", "complexfloat64", "string", "date", "time", "datetime"}

var symbolRes = map[string]*regexp.Regexp{
	"python_binary": regexp.MustCompile(`_binary\.([A-Za-z_%][\w%]*)`),
	"python_ndjson": regexp.MustCompile(`_ndjson\.([A-Za-z_%][\w%]*)`),
	"matlab_binary": regexp.MustCompile(`yardl\.binary\.([A-Za-z_%][\w%]*)`),
	"cpp_binary":    regexp.MustCompile(`yardl::binary::([A-Za-z_%][\w%]*)`),
}

func pascal(s string) string {
	if s == "" {
		return s
	}
	return strings.ToUpper(s[:1]) + s[1:]
}

func ruleEmittedSymbols(c *core.Ctx) {
	const rule = "L1"
	c.Rule(rule, "every runtime symbol occurring in a generator template (python _binary./_ndjson., MATLAB yardl.binary., C++ yardl::binary::) is collected, computed names expanded over the 18 primitives", 4)
	scopes := map[string][]string{
		"python_binary": {"internal/python"},
		"python_ndjson": {"internal/python"},
		"matlab_binary": {"internal/matlab"},
		"cpp_binary":    {"internal/cpp"},
	}
	result := map[string][]string{}
	for kind, re := range symbolRes {
		syms := map[string]string{}
		for _, p := range c.ModulePkgs() {
			rel := strings.TrimPrefix(p.PkgPath, core.Mod+"/")
			in := false
			for _, s := range scopes[kind] {
				if strings.HasPrefix(rel, s) {
					in = true
				}
			}
			if !in {
				continue
			}
			for _, f := range p.Syntax {
				ast.Inspect(f, func(n ast.Node) bool {
					bl, ok := n.(*ast.BasicLit)
					if !ok || bl.Kind != token.STRING {
						return true
					}
					s, err := strconv.Unquote(bl.Value)
					if err != nil {
						return true
					}
					for _, m := range re.FindAllStringSubmatch(s, -1) {
						name := m[1]
						if _, seen := syms[name]; !seen {
							syms[name] = c.PosStr(bl.Pos())
						}
					}
					return true
				})
			}
		}
		var out []string
		for name, pos := range syms {
			switch {
			case kind == "cpp_binary" && (name == "Write" || name == "Read"):
				// "yardl::binary::Write" + suffix: the six primitive routine families
				for _, cls := range []string{"Integer", "FloatingPoint", "String", "Date", "Time", "DateTime"} {
					out = append(out, name+cls+"@"+pos)
				}
			case !strings.Contains(name, "%"):
				out = append(out, name+"@"+pos)
			case kind == "python_binary" && name == "%s_serializer", kind == "python_ndjson" && name == "%s_converter":
				for _, p := range primitives18 {
					out = append(out, strings.Replace(name, "%s", p, 1)+"@"+pos)
				}
			case kind == "matlab_binary" && name == "%sSerializer":
				for _, p := range primitives18 {
					out = append(out, pascal(p)+"Serializer@"+pos)
				}
			case kind == "cpp_binary" && name == "%s":
				// `yardl::binary::%s<T>` with functionPointerName: the Reader<T>/Writer<T> function pointer aliases
				out = append(out, "Reader@"+pos, "Writer@"+pos)
			case kind == "cpp_binary" && strings.HasPrefix(name, "%s"):
				// the first hole is the direction; further holes are computed parts (a routine family, a kind
				// held in a local) that literals alone do not enumerate: emitted as a pattern
				for _, v := range []string{"Write", "Read"} {
					rest := strings.ReplaceAll(strings.TrimPrefix(name, "%s"), "%s", "*")
					if rest == "*" {
						for _, cls := range []string{"Integer", "FloatingPoint", "String", "Date", "Time", "DateTime"} {
							out = append(out, v+cls+"@"+pos)
						}
						continue
					}
					out = append(out, v+rest+"@"+pos)
				}
			case kind == "cpp_binary" && (name == "Write%s" || name == "Read%s"):
				for _, cls := range []string{"Integer", "FloatingPoint", "String", "Date", "Time", "DateTime"} {
					out = append(out, strings.Replace(name, "%s", cls, 1)+"@"+pos)
				}
			default:
				c.Undecided(rule, kind+"/computed name "+name, 0, "a runtime symbol is computed with a pattern the link rule does not know how to expand (at "+pos+")")
			}
		}
		sort.Strings(out)
		result[kind] = out
		c.Check(len(out) >= 10, rule, kind+"/symbols collected", 0, strconv.Itoa(len(out))+" symbols", "fewer than 10 runtime symbols found in the generator templates: the extraction no longer sees them")
	}
	c.Tables["emitted_runtime_symbols"] = result
}
