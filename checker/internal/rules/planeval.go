package rules

// Evaluation of a back end's type→routine generator for one type shape.
//
// The guarded rows of the generator functions (gee) are not compared as text. For every row of
// the shared serialization plan — a type shape such as "vector of fixed length whose element is
// a union" — the atoms the generator's guards are built from get a value (the assignment), the
// rows whose guards hold are selected, and their value is rendered canonically
// (TOKEN(role=value,...)). How the generator nests or orders its tests, whether the element
// routine comes from a closure, a local variable, a helper function or is repeated in every
// branch, and what locals are called does not enter the result.

import (
	"fmt"
	"go/ast"
	"go/types"
	"regexp"
	"sort"
	"strings"

	"verif/checker/internal/core"
	"verif/checker/internal/gee"
)

// equivalent spellings of one atom
var atomAliases = map[string]string{
	"Vector.IsFixed()":                                           "Vector.Length != nil",
	"Array.Dimensions != nil":                                    "Array.HasKnownNumberOfDimensions()",
	"len(GeneralizedType.Cases) == 1":                            "GeneralizedType.Cases.IsSingle()",
	"GeneralizedType.Dimensionality != nil":                      "type(GeneralizedType.Dimensionality)!=nil",
	"EnumDefinition.BaseType != nil":                             "EnumDefinition.BaseType != nil",
	"len(RecordDefinition.TypeParameters) > 0":                   "generic",
	"len(RecordDefinition.TypeArguments) > 0":                    "generic",
	"len(DefinitionMeta.TypeParameters) > 0":                     "generic",
	"len(NamedType.TypeParameters) > 0":                          "generic",
	"len(TypeDefinition.GetDefinitionMeta().TypeParameters) > 0": "generic",
}

type planEval struct {
	c        *core.Ctx
	b        backend
	info     *types.Info
	pkgTypes *types.Package
	declOf   map[string]*ast.FuncDecl
	rowsOf   map[string][]gee.Row
	asg      map[string]string
	unknown  map[string]bool // atoms met without a value
	depth    int
}

func newPlanEval(c *core.Ctx, b backend) *planEval {
	p := c.Pkg(b.pkg)
	pe := &planEval{c: c, b: b, declOf: map[string]*ast.FuncDecl{}, rowsOf: map[string][]gee.Row{}, unknown: map[string]bool{}}
	if p == nil {
		return pe
	}
	pe.info = p.TypesInfo
	pe.pkgTypes = p.Types
	for _, f := range p.Syntax {
		for _, dd := range f.Decls {
			if fd, ok := dd.(*ast.FuncDecl); ok && fd.Body != nil && fd.Recv == nil {
				pe.declOf[fd.Name.Name] = fd
			}
		}
	}
	return pe
}

func (pe *planEval) rows(fn string) []gee.Row {
	if r, ok := pe.rowsOf[fn]; ok {
		return r
	}
	d := pe.declOf[fn]
	if d == nil {
		pe.rowsOf[fn] = nil
		return nil
	}
	x := &gee.Extractor{Info: pe.info, Fset: pe.c.Fset, Decl: func(f *types.Func) *ast.FuncDecl {
		if f == nil || f.Pkg() != pe.pkgTypes {
			return nil
		}
		return pe.declOf[f.Name()]
	}}
	pe.rowsOf[fn] = x.Extract(fn, d)
	return pe.rowsOf[fn]
}

func stripDsl(s string) string { return strings.ReplaceAll(s, "dsl.", "") }

// sat evaluates a conjunction of guards under the current assignment. Guards over atoms without a
// value are ignored (and the atoms remembered): they select between alternatives the plan does
// not distinguish (names, generic arguments, ...).
func (pe *planEval) sat(guards []string) bool {
	for _, g := range guards {
		g = stripDsl(g)
		if subj, elems, neg, ok := parseSetGuard(g); ok {
			v, has := pe.asg[subj]
			if !has {
				pe.unknown[subj] = true
				continue
			}
			in := false
			for _, e := range elems {
				if strings.Trim(e, "\"") == v {
					in = true
				}
			}
			if in == neg {
				return false
			}
			continue
		}
		atom, neg := g, false
		if strings.HasPrefix(g, "!(") && strings.HasSuffix(g, ")") {
			atom, neg = g[2:len(g)-1], true
		}
		val, known := pe.boolAtom(atom)
		if !known {
			pe.unknown[atom] = true
			continue
		}
		if val == neg {
			return false
		}
	}
	return true
}

func (pe *planEval) boolAtom(atom string) (bool, bool) {
	atom = strings.TrimSpace(atom)
	if a, ok := atomAliases[atom]; ok {
		atom = a
	}
	if v, ok := pe.asg[atom]; ok {
		return v == "true", true
	}
	if atom == "type(GeneralizedType.Dimensionality)!=nil" {
		if v, ok := pe.asg["type(GeneralizedType.Dimensionality)"]; ok {
			return v != "nil", true
		}
	}
	// X == nil / X != nil over a typed atom
	for _, op := range []string{" != nil", " == nil"} {
		if strings.HasSuffix(atom, op) {
			if v, ok := pe.asg["type("+strings.TrimSuffix(atom, op)+")"]; ok {
				return (v != "nil") == (op == " != nil"), true
			}
		}
	}
	if parts := strings.Split(atom, " && "); len(parts) > 1 {
		all, known := true, true
		for _, p := range parts {
			v, k := pe.boolAtom(p)
			if k && !v {
				return false, true
			}
			known = known && k
			all = all && v
		}
		return all, known
	}
	if parts := strings.Split(atom, " || "); len(parts) > 1 {
		known := true
		for _, p := range parts {
			v, k := pe.boolAtom(p)
			if k && v {
				return true, true
			}
			known = known && k
		}
		return false, known
	}
	if strings.HasPrefix(atom, "!") {
		v, k := pe.boolAtom(strings.Trim(atom[1:], "()"))
		return !v, k
	}
	return false, false
}

// evalReturns: the values the callable (function fn, or closure `in` of fn) returns under the assignment.
func (pe *planEval) evalReturns(fn, in string) []string {
	if pe.depth > 12 {
		return []string{"DEPTH?"}
	}
	pe.depth++
	defer func() { pe.depth-- }()
	var vals []string
	for _, r := range pe.rows(fn) {
		if r.Kind != "return" || r.In != in {
			continue
		}
		if !pe.sat(r.Guards) {
			continue
		}
		vals = append(vals, pe.rowValue(fn, r))
	}
	return uniq(vals)
}

func alt(vals []string) string {
	// a bare token next to the same token with arguments (the "no arguments" spelling of one
	// routine, chosen by a condition the plan does not model): keep the richer one
	var keep []string
	for _, v := range vals {
		drop := false
		for _, w := range vals {
			if w != v && strings.HasPrefix(w, v+"(") {
				drop = true
			}
		}
		if !drop {
			keep = append(keep, v)
		}
	}
	vals = keep
	switch len(vals) {
	case 0:
		return ""
	case 1:
		return vals[0]
	}
	return "{" + strings.Join(vals, " | ") + "}"
}

// lastSatisfied: of the rows of a kind (assignments to one variable), the one that takes effect:
// the last in program order whose guards hold.
func (pe *planEval) lastSatisfied(fn, kind, in string) *gee.Row {
	var best *gee.Row
	rows := pe.rows(fn)
	for i := range rows {
		r := &rows[i]
		if r.Kind != kind {
			continue
		}
		if !pe.sat(r.Guards) {
			continue
		}
		if best == nil || r.Seq > best.Seq {
			best = r
		}
	}
	return best
}

func (pe *planEval) isClosure(fn, name string) bool {
	for _, r := range pe.rows(fn) {
		if r.In == name && r.Kind == "return" {
			return true
		}
	}
	return false
}

func (pe *planEval) canonExpr(e string) string {
	e = stripDsl(strings.TrimSpace(e))
	if e == "GeneralizedType.ToScalar()" || e == "$scalarType" {
		return "SCALARTYPE"
	}
	for _, w := range []string{"strconv.FormatUint", "strings.ToLower", "string", "formatting.ToPascalCase", "formatting.ToSnakeCase", "common.TypeDefinitionSyntax", "uint64", "int"} {
		if strings.HasPrefix(e, w+"(") && strings.HasSuffix(e, ")") {
			inner := splitArgs(e[len(w)+1 : len(e)-1])
			if len(inner) >= 1 {
				return pe.canonExpr(inner[0])
			}
		}
	}
	e = strings.TrimSuffix(e, ".Name")
	return e
}

func (pe *planEval) value(fn, arg string) string {
	arg = strings.TrimSpace(arg)
	if pe.depth > 12 {
		return arg
	}
	pe.depth++
	defer func() { pe.depth-- }()
	if m := closureCallRe.FindStringSubmatch(arg); m != nil && pe.isClosure(fn, m[1]) {
		return alt(pe.evalReturns(fn, m[1]))
	}
	if m := joinRe.FindStringSubmatch(arg); m != nil {
		return pe.collection(fn, m[1])
	}
	if strings.HasPrefix(arg, "$") && identRe.MatchString(arg[1:]) {
		if l := pe.lastSatisfied(fn, "let:"+arg, ""); l != nil {
			return pe.value(fn, strings.TrimPrefix(l.Tmpl, "EXPR:"))
		}
		return arg
	}
	if identRe.MatchString(arg) {
		if pe.isClosure(fn, arg) {
			return alt(pe.evalReturns(fn, arg))
		}
		if a := pe.lastSatisfied(fn, "assign:"+arg, ""); a != nil {
			return pe.rowValue(fn, *a)
		}
		return pe.canonExpr(arg)
	}
	if m := callRe.FindStringSubmatch(arg); m != nil {
		f := m[1]
		args := splitArgs(m[2])
		if inSet(f, pe.b.family) && len(args) >= 1 {
			return pe.rec(pe.value(fn, args[0]))
		}
		if f == "len" && len(args) == 1 {
			return "len(" + pe.canonExpr(args[0]) + ")"
		}
		if identRe.MatchString(f) && pe.declOf[f] != nil && f != fn {
			// a helper of the package: its own decision table, under the same assignment
			if vals := pe.evalReturns(f, ""); len(vals) > 0 {
				return alt(vals)
			}
		}
	}
	return pe.canonExpr(arg)
}

func (pe *planEval) rec(a string) string {
	if a == "SCALARTYPE" {
		// recursion on t.ToScalar(): the same cases without the dimensionality
		saved := pe.asg
		asg := map[string]string{}
		for k, v := range saved {
			asg[k] = v
		}
		asg["type(GeneralizedType.Dimensionality)"] = "nil"
		pe.asg = asg
		v := alt(pe.evalReturns(pe.b.typeFn, ""))
		pe.asg = saved
		return v
	}
	return "rec(" + a + ")"
}

func (pe *planEval) collection(fn, name string) string {
	var parts []string
	loop := ""
	for _, r := range pe.rows(fn) {
		isIdx := strings.HasPrefix(r.Kind, "assign:"+name+"[")
		isApp := r.Kind == "append:"+name
		if (!isIdx && !isApp) || !pe.sat(r.Guards) {
			continue
		}
		v := pe.rowValue(fn, r)
		if noneLiterals[v] || v == "NONE" {
			continue // nil case → NONE: rec(nil) yields NONE as well
		}
		if strings.HasPrefix(v, "common.TypeSyntax(") || strings.HasPrefix(v, "common.TypeDefinitionSyntax(") || strings.HasPrefix(v, "common.TypeParameterSyntax(") {
			continue // C++ template argument naming the value type: carries no plan information
		}
		if strings.HasPrefix(v, "CASE(elem=") && strings.HasSuffix(v, ")") {
			v = v[len("CASE(elem=") : len(v)-1]
		}
		idx := "[i]" // appended in iteration order = stored at the loop index
		if isIdx {
			raw := strings.ReplaceAll(r.Kind[len("assign:"+name)+1:len(r.Kind)-1], " ", "")
			ix := "i"
			if n := len(r.LoopIx); n > 0 && r.LoopIx[n-1] != "" {
				ix = r.LoopIx[n-1]
			}
			switch raw {
			case ix, "2*" + ix + "+1", ix + "*2+1", "1+2*" + ix:
				idx = "[i]" // (type, routine) pairs: the routine of case i sits at 2i+1
			default:
				idx = "[" + strings.ReplaceAll(r.Kind[len("assign:"+name)+1:len(r.Kind)-1], ix, "i") + "]"
			}
		}
		if len(r.Loop) > 0 {
			loop = stripDsl(r.Loop[len(r.Loop)-1])
			if strings.HasPrefix(loop, "rrange ") {
				// walking X from the last element to the first and appending = storing element i at len(X)-i-1
				over := strings.TrimPrefix(loop, "rrange ")
				loop = "range " + over
				if idx == "[i]" {
					idx = "[len(" + over + ") - i - 1]"
				}
			}
		}
		parts = append(parts, "each"+idx+"("+v+")")
	}
	parts = uniq(parts)
	if len(parts) == 0 {
		return "join(" + name + ")"
	}
	s := strings.Join(parts, "+")
	if loop != "" {
		s += " over " + loop
	}
	return s
}

func (pe *planEval) rowValue(fn string, r gee.Row) string {
	switch {
	case strings.HasPrefix(r.Tmpl, "CALL:"):
		f := strings.TrimPrefix(r.Tmpl, "CALL:")
		if inSet(f, pe.b.family) && len(r.Args) >= 1 {
			return pe.rec(pe.value(fn, r.Args[0]))
		}
		return pe.value(fn, f+"("+strings.Join(r.Args, ", ")+")")
	case strings.HasPrefix(r.Tmpl, "VAR:"):
		return pe.value(fn, strings.TrimPrefix(r.Tmpl, "VAR:"))
	}
	if noneLiterals[r.Tmpl] {
		return "NONE"
	}
	if _, known := pe.b.templates[r.Tmpl]; !known && !strings.Contains(r.Tmpl, "%") {
		return "§" + r.Tmpl // constant (a table cell of a helper closure)
	}
	// bring the template to the spelling of the token table: the direction is a %s hole filled by
	// verb(write) (a literal Write/Read prefix is the same thing), and holes filled by constants
	// are part of the text
	type variant struct {
		tmpl string
		args []string
	}
	vs := []variant{{r.Tmpl, append([]string(nil), r.Args...)}}
	if m := dirLiteralRe.FindStringSubmatchIndex(r.Tmpl); m != nil {
		if _, known := pe.b.templates[r.Tmpl]; !known {
			before := strings.Count(r.Tmpl[:m[4]], "%s") + strings.Count(r.Tmpl[:m[4]], "%d")
			t := r.Tmpl[:m[4]] + "%s" + r.Tmpl[m[5]:]
			a := append(append(append([]string(nil), r.Args[:before]...), "verb(write)"), r.Args[before:]...)
			vs = []variant{{t, a}}
		}
	}
	for hole := 0; hole < 8; hole++ {
		var next []variant
		changed := false
		for _, v := range vs {
			if _, known := pe.b.templates[v.tmpl]; known || hole >= len(v.args) {
				next = append(next, v)
				continue
			}
			val := pe.value(fn, v.args[hole])
			consts := constAlternatives(val)
			isDir := consts != nil
			for _, k := range consts {
				if k != "Write" && k != "Read" {
					isDir = false
				}
			}
			if consts == nil || isDir { // the direction stays a hole, as in the token table
				next = append(next, v)
				continue
			}
			// position of this hole in the template
			idx := nthVerb(v.tmpl, hole)
			if idx < 0 {
				next = append(next, v)
				continue
			}
			for _, k := range consts {
				t := v.tmpl[:idx] + k + v.tmpl[idx+2:]
				a := append(append([]string(nil), v.args[:hole]...), v.args[hole+1:]...)
				next = append(next, variant{t, a})
			}
			changed = true
		}
		vs = next
		if changed {
			hole-- // the next hole moved into this position
		}
		if len(vs) > 16 {
			break
		}
	}
	var outs []string
	for _, v := range vs {
		spec, ok := pe.b.templates[v.tmpl]
		if !ok {
			if strings.Count(v.tmpl, "%") == 1 && len(v.args) == 1 {
				outs = append(outs, pe.value(fn, v.args[0])) // a wrapper around one value, such as "<%s>"
				continue
			}
			if !strings.Contains(v.tmpl, "%") {
				outs = append(outs, "§"+v.tmpl)
				continue
			}
			outs = append(outs, "TEMPLATE?"+fmt.Sprintf("%q", v.tmpl))
			continue
		}
		var parts []string
		for i, role := range spec.roles {
			if role == "_" || i >= len(v.args) {
				continue
			}
			parts = append(parts, role+"="+strings.ReplaceAll(pe.value(fn, v.args[i]), "§", ""))
		}
		if len(parts) == 0 {
			outs = append(outs, spec.token)
		} else {
			outs = append(outs, spec.token+"("+strings.Join(parts, ",")+")")
		}
	}
	return alt(uniq(outs))
}

var dirLiteralRe = regexp.MustCompile(`(^|::)(Write|Read)[A-Z%]`)

// constAlternatives: the value is one constant, or a set of alternatives that are all constants.
func constAlternatives(v string) []string {
	if strings.HasPrefix(v, "§") && !strings.Contains(v, " | ") {
		return []string{v[len("§"):]}
	}
	if strings.HasPrefix(v, "{") && strings.HasSuffix(v, "}") {
		var out []string
		for _, a := range strings.Split(v[1:len(v)-1], " | ") {
			if !strings.HasPrefix(a, "§") {
				return nil
			}
			out = append(out, a[len("§"):])
		}
		return out
	}
	return nil
}

// nthVerb: byte offset of the n-th %s/%d verb of a template.
func nthVerb(tmpl string, n int) int {
	k := 0
	for i := 0; i+1 < len(tmpl); i++ {
		if tmpl[i] == '%' {
			if tmpl[i+1] == '%' {
				i++
				continue
			}
			if k == n {
				return i
			}
			k++
		}
	}
	return -1
}

// ---- the plan as rows of (assignment, expected value) ----

type planRow struct {
	key  string
	fn   string // "type" or "def"
	asg  map[string]string
	want string
}

var scalarShapes = []struct {
	name string
	asg  map[string]string
	want string
}{
	{"single", map[string]string{"GeneralizedType.Cases.IsSingle()": "true", "GeneralizedType.Cases.IsOptional()": "false", "GeneralizedType.Cases.IsUnion()": "false", "GeneralizedType.Cases.HasNullOption()": "false"}, "rec(GeneralizedType.Cases[0].Type)"},
	{"optional", map[string]string{"GeneralizedType.Cases.IsSingle()": "false", "GeneralizedType.Cases.IsOptional()": "true", "GeneralizedType.Cases.IsUnion()": "false", "GeneralizedType.Cases.HasNullOption()": "true"}, "OPTIONAL(elem=rec(GeneralizedType.Cases[1].Type))"},
	{"union", map[string]string{"GeneralizedType.Cases.IsSingle()": "false", "GeneralizedType.Cases.IsOptional()": "false", "GeneralizedType.Cases.IsUnion()": "true", "GeneralizedType.Cases.HasNullOption()": "false"}, "UNION(cases=each[i](rec(TypeCase.Type)) over range GeneralizedType.Cases)"},
	// a union that has a null case next to two or more others ([null, A, B]) is a union, not an optional
	{"union+null", map[string]string{"GeneralizedType.Cases.IsSingle()": "false", "GeneralizedType.Cases.IsOptional()": "false", "GeneralizedType.Cases.IsUnion()": "true", "GeneralizedType.Cases.HasNullOption()": "true"}, "UNION(cases=each[i](rec(TypeCase.Type)) over range GeneralizedType.Cases)"},
}

var dimShapes = []struct {
	name string
	asg  map[string]string
	want string // %S = the scalar routine
}{
	{"nil", map[string]string{"type(GeneralizedType.Dimensionality)": "nil"}, "%S"},
	{"Stream", map[string]string{"type(GeneralizedType.Dimensionality)": "Stream"}, "STREAM(elem=%S)"},
	{"Vector,fixed", map[string]string{"type(GeneralizedType.Dimensionality)": "Vector", "Vector.Length != nil": "true"}, "FIXEDVECTOR(elem=%S,len=Vector.Length)"},
	{"Vector,!fixed", map[string]string{"type(GeneralizedType.Dimensionality)": "Vector", "Vector.Length != nil": "false"}, "VECTOR(elem=%S)"},
	{"Array,fixed", map[string]string{"type(GeneralizedType.Dimensionality)": "Array", "Array.IsFixed()": "true", "Array.HasKnownNumberOfDimensions()": "true"}, "FIXEDNDARRAY(elem=%S,dims=each[i](ArrayDimension.Length) over range Array.Dimensions)"},
	{"Array,!fixed,known", map[string]string{"type(GeneralizedType.Dimensionality)": "Array", "Array.IsFixed()": "false", "Array.HasKnownNumberOfDimensions()": "true"}, "NDARRAY(elem=%S,ndims=len(Array.Dimensions))"},
	{"Array,!fixed,!known", map[string]string{"type(GeneralizedType.Dimensionality)": "Array", "Array.IsFixed()": "false", "Array.HasKnownNumberOfDimensions()": "false"}, "DYNAMICNDARRAY(elem=%S)"},
	{"Map", map[string]string{"type(GeneralizedType.Dimensionality)": "Map"}, "MAP(key=rec(Map.KeyType),value=%S)"},
}

func planRows() []planRow {
	var out []planRow
	out = append(out, planRow{"type=nil", "type", map[string]string{"type(Type)": "nil"}, "NONE"})
	out = append(out, planRow{"type=SimpleType", "type", map[string]string{"type(Type)": "SimpleType"}, "rec(SimpleType.ResolvedDefinition)"})
	for _, d := range dimShapes {
		for _, s := range scalarShapes {
			asg := map[string]string{"type(Type)": "GeneralizedType"}
			for k, v := range d.asg {
				asg[k] = v
			}
			for k, v := range s.asg {
				asg[k] = v
			}
			out = append(out, planRow{"dim=" + d.name + " × scalar:" + s.name, "type", asg, strings.ReplaceAll(d.want, "%S", s.want)})
		}
	}
	out = append(out,
		planRow{"def=PrimitiveDefinition", "def", map[string]string{"type(TypeDefinition)": "PrimitiveDefinition"}, "PRIM(name=PrimitiveDefinition)"},
		planRow{"def=EnumDefinition,base", "def", map[string]string{"type(TypeDefinition)": "EnumDefinition", "EnumDefinition.BaseType != nil": "true"}, "ENUM(base=rec(EnumDefinition.BaseType))"},
		planRow{"def=EnumDefinition,!base", "def", map[string]string{"type(TypeDefinition)": "EnumDefinition", "EnumDefinition.BaseType != nil": "false"}, "ENUM(base=rec(Int32Type))"},
		planRow{"def=RecordDefinition", "def", map[string]string{"type(TypeDefinition)": "RecordDefinition", "generic": "true"}, "RECORD(typeargs=each[i](rec(Type)) over range RecordDefinition.TypeArguments)"},
		planRow{"def=GenericTypeParameter", "def", map[string]string{"type(TypeDefinition)": "GenericTypeParameter"}, "PARAM(name=GenericTypeParameter)"},
		planRow{"def=NamedType", "def", map[string]string{"type(TypeDefinition)": "NamedType"}, "rec(NamedType.Type)"},
	)
	return out
}

func rulePlan(c *core.Ctx) {
	const rule = "G1"
	c.Rule(rule, "the type→serializer decision table of every back end, evaluated for every type shape of the shared serialization plan (dimensionality × scalar kind, definition kinds), yields the routine the plan prescribes with the same element/key/value/length/shape arguments in the same roles, union cases and dimensions in declaration order", 100)
	all := map[string]map[string]string{}
	rows := planRows()
	for _, b := range backends {
		pe := newPlanEval(c, b)
		table := map[string]string{}
		if pe.declOf[b.typeFn] == nil || pe.declOf[b.defFn] == nil {
			c.Undecided(rule, b.name+"/anchor", 0, "generator functions "+b.typeFn+"/"+b.defFn+" not found")
			continue
		}
		for _, pr := range rows {
			fn := b.typeFn
			if pr.fn == "def" {
				fn = b.defFn
			}
			pe.asg = pr.asg
			pe.unknown = map[string]bool{}
			vals := pe.evalReturns(fn, "")
			for i := range vals {
				vals[i] = strings.ReplaceAll(vals[i], "§", "")
			}
			got := alt(vals)
			table[pr.key] = got
			okey := b.name + "/" + pr.key
			pos := pe.declOf[fn].Pos()
			if len(vals) == 0 {
				if r, exc := planException2(b, pr, ""); exc {
					c.OK(rule, okey, pos, "exception: "+r)
				} else {
					c.Bad(rule, okey, pos, "no row of the generator's decision table applies to this type shape; the plan prescribes "+pr.want)
				}
				continue
			}
			if strings.Contains(got, "TEMPLATE?") {
				c.Undecided(rule, okey, pos, "emission with a template the token table does not know: "+got)
				continue
			}
			if normPlan(got) == normPlan(pr.want) {
				// a deviation the back end's runtime depends on is not optional: MATLAB arrays are column-major, its
				// runtime builds the array shape as [item_shape shape_] and matlab/types emits the default value with the
				// reversed extents, so the extent list handed to FixedNDArraySerializer has to be reversed as well
				if _, must := b.exceptions["FIXEDNDARRAY.dims"]; must && strings.HasPrefix(pr.key, "dim=Array,fixed") {
					c.Bad(rule, okey, pos, "the MATLAB shape list of a fixed array is emitted in declaration order ("+got+"); MATLAB is column-major — the runtime and the default values (matlab/types) use the reversed extents — so an N-d fixed array is reshaped with the wrong shape and its elements are scrambled relative to C++ and Python")
					continue
				}
				c.OK(rule, okey, pos, got)
				continue
			}
			if r, exc := planException2(b, pr, got); exc {
				c.OK(rule, okey, pos, "exception: "+r+" — emits "+got)
				continue
			}
			var unk []string
			for a := range pe.unknown {
				unk = append(unk, a)
			}
			sort.Strings(unk)
			extra := ""
			if len(vals) > 1 {
				extra = fmt.Sprintf(" (alternatives selected by conditions outside the plan: %s)", strings.Join(unk, ", "))
			}
			c.Bad(rule, okey, pos, fmt.Sprintf("deviates from the shared serialization plan: emits %s, plan prescribes %s%s", got, pr.want, extra))
		}
		all[b.name] = table
	}
	c.Tables["serialization_plan"] = all
}

// planException2 decides whether a deviation is one of the back end's documented exceptions.
func planException2(b backend, pr planRow, got string) (string, bool) {
	key := pr.key
	if strings.HasPrefix(key, "dim=Stream") {
		if r, ok := b.exceptions["STREAM"]; ok {
			// the back end must then map the stream to the plain scalar routine
			scalarOnly := pr.want[len("STREAM(elem=") : len(pr.want)-1]
			if normPlan(got) == normPlan(scalarOnly) {
				return r, true
			}
		}
	}
	if strings.HasPrefix(key, "def=EnumDefinition") {
		if r, ok := b.exceptions["ENUM.base"]; ok && (got == "ENUM" || strings.HasPrefix(got, "ENUM(basedtype=") || got == "{ENUM | ENUM}") {
			return r, true
		}
	}
	if key == "def=PrimitiveDefinition" {
		if r, ok := b.exceptions["PRIM.class"]; ok && strings.HasPrefix(got, "PRIM(name=") {
			return r, true
		}
	}
	if key == "def=NamedType" || key == "def=RecordDefinition" {
		if r, ok := b.exceptions["NAMEDTYPE"]; ok && (got == "" || strings.HasPrefix(got, "RECORD(") || strings.HasPrefix(got, "{RECORD")) {
			return r, true
		}
	}
	if strings.HasPrefix(key, "dim=Array,fixed") {
		if r, ok := b.exceptions["FIXEDNDARRAY.dims"]; ok {
			rev := strings.Replace(pr.want, "dims=each[i](", "dims=each[len(Array.Dimensions) - i - 1](", 1)
			if normPlan(got) == normPlan(rev) {
				return r, true
			}
		}
	}
	return "", false
}
