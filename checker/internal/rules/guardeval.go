package rules

import "strings"

// guardSat evaluates a conjunction of gee guards under an assignment of their atoms.
// Set guards `subj∈{a|b}` / `!(subj∈{a|b})` look subj up and compare; other guards are boolean
// expressions over atoms (`a`, `!(a)`, `a && b`, `a || b`, `!a`) whose values are "true"/"false".
// A falsified guard decides the conjunction; otherwise atoms without a value are reported.
func guardSat(guards []string, asg map[string]string) (bool, []string) {
	var unknown []string
	for _, g := range guards {
		g = stripDsl(g)
		if subj, elems, neg, ok := parseSetGuard(g); ok {
			v, has := asg[subj]
			if !has {
				unknown = append(unknown, subj)
				continue
			}
			in := false
			for _, e := range elems {
				if strings.Trim(e, "\"") == v {
					in = true
				}
			}
			if in == neg {
				return false, nil
			}
			continue
		}
		val, known, unk := boolExprValue(g, asg)
		if !known {
			unknown = append(unknown, unk...)
			continue
		}
		if !val {
			return false, nil
		}
	}
	return true, unknown
}

// boolExprValue evaluates a guard text; the third result lists the atoms that had no value.
func boolExprValue(e string, asg map[string]string) (bool, bool, []string) {
	e = strings.TrimSpace(e)
	if v, ok := asg[e]; ok {
		return v == "true", true, nil
	}
	// a set test `subj∈{a|b}` used as a boolean term (comma-ok type assertion inside a condition)
	if !strings.Contains(e, " && ") && !strings.Contains(e, " || ") {
		if subj, elems, neg, ok := parseSetGuard(e); ok {
			v, has := asg[subj]
			if !has {
				return false, false, []string{subj}
			}
			in := false
			for _, el := range elems {
				if strings.Trim(el, "\"") == v {
					in = true
				}
			}
			return in != neg, true, nil
		}
	}
	if strings.HasPrefix(e, "!(") && strings.HasSuffix(e, ")") && balanced(e[2:len(e)-1]) {
		v, k, u := boolExprValue(e[2:len(e)-1], asg)
		return !v, k, u
	}
	if parts := splitTop(e, " || "); len(parts) > 1 {
		known := true
		var unk []string
		for _, p := range parts {
			v, k, u := boolExprValue(p, asg)
			if k && v {
				return true, true, nil
			}
			known = known && k
			unk = append(unk, u...)
		}
		return false, known, unk
	}
	if parts := splitTop(e, " && "); len(parts) > 1 {
		known := true
		var unk []string
		for _, p := range parts {
			v, k, u := boolExprValue(p, asg)
			if k && !v {
				return false, true, nil
			}
			known = known && k
			unk = append(unk, u...)
		}
		return true, known, unk
	}
	if strings.HasPrefix(e, "!") {
		v, k, u := boolExprValue(e[1:], asg)
		return !v, k, u
	}
	if strings.HasSuffix(e, " == nil") {
		v, k, u := boolExprValue(strings.TrimSuffix(e, " == nil")+" != nil", asg)
		return !v, k, u
	}
	if i := strings.Index(e, " != "); i > 0 && !strings.HasSuffix(e, " != nil") {
		v, k, u := boolExprValue(e[:i]+" == "+e[i+4:], asg)
		return !v, k, u
	}
	if strings.HasPrefix(e, "(") && strings.HasSuffix(e, ")") && balanced(e[1:len(e)-1]) {
		return boolExprValue(e[1:len(e)-1], asg)
	}
	return false, false, []string{e}
}

func balanced(s string) bool {
	d := 0
	for _, r := range s {
		switch r {
		case '(':
			d++
		case ')':
			d--
			if d < 0 {
				return false
			}
		}
	}
	return d == 0
}

// splitTop splits on sep outside parentheses.
func splitTop(s, sep string) []string {
	var out []string
	depth, last := 0, 0
	for i := 0; i < len(s); i++ {
		switch s[i] {
		case '(', '[', '{':
			depth++
		case ')', ']', '}':
			depth--
		}
		if depth == 0 && strings.HasPrefix(s[i:], sep) {
			out = append(out, s[last:i])
			last = i + len(sep)
			i += len(sep) - 1
		}
	}
	return append(out, s[last:])
}
