package rules

import (
	"fmt"
	"regexp"
	"strings"

	"verif/checker/internal/core"
	"verif/checker/internal/gee"
)

// ---------------------------------------------------------------------------
// Serialization plan (C14, C01, C03): every back end maps a model type to a composition
// of runtime routines with its own recursive generator function. The extractor (gee)
// recovers each function's decision table; here the tables are brought to a canonical
// form (tokens + roles) and compared with the shared plan below, which is the plan the
// binary format documentation prescribes. A back end deviating for any type shape, an
// argument in the wrong role, a different element for a container, a different order of
// union cases / dimensions shows up as a row mismatch.
// ---------------------------------------------------------------------------

type tokenSpec struct {
	token string
	roles []string // one per %-verb of the template; "_" = ignored (type syntax, verb, class names)
}

type backend struct {
	name      string
	pkg       string
	typeFn    string
	defFn     string
	family    []string // recursive family: calls to these are rec(firstArg)
	scalar    []string // closure / IIFE names producing the scalar (element) routine
	templates map[string]tokenSpec
	// per-backend exceptions to the shared plan: row key -> reason
	exceptions map[string]string
}

var noneLiterals = map[string]bool{"None": true, "yardl.binary.NoneSerializer": true, "yardl.None": true}

var backends = []backend{
	{
		name: "python/binary", pkg: "internal/python/binary", typeFn: "typeSerializer", defFn: "typeDefinitionSerializer",
		family: []string{"typeSerializer", "typeDefinitionSerializer"}, scalar: nil,
		templates: map[string]tokenSpec{
			"_binary.none_serializer":                   {"NONE", nil},
			"_binary.OptionalSerializer(%s)":            {"OPTIONAL", []string{"elem"}},
			"_binary.UnionSerializer(%s, [%s])":         {"UNION", []string{"_", "cases"}},
			"(%s.%s, %s)":                               {"CASE", []string{"_", "_", "elem"}},
			"_binary.StreamSerializer(%s)":              {"STREAM", []string{"elem"}},
			"_binary.FixedVectorSerializer(%s, %d)":     {"FIXEDVECTOR", []string{"elem", "len"}},
			"_binary.VectorSerializer(%s)":              {"VECTOR", []string{"elem"}},
			"_binary.FixedNDArraySerializer(%s, (%s,))": {"FIXEDNDARRAY", []string{"elem", "dims"}},
			"_binary.NDArraySerializer(%s, %d)":         {"NDARRAY", []string{"elem", "ndims"}},
			"_binary.DynamicNDArraySerializer(%s)":      {"DYNAMICNDARRAY", []string{"elem"}},
			"_binary.MapSerializer(%s, %s)":             {"MAP", []string{"key", "value"}},
			"_binary.%s_serializer":                     {"PRIM", []string{"name"}},
			"_binary.EnumSerializer(%s, %s)":            {"ENUM", []string{"base", "_"}},
			"%s()":                                      {"RECORD", []string{"_"}},
			"%s(%s)":                                    {"RECORD", []string{"_", "typeargs"}},
			"%s_serializer":                             {"PARAM", []string{"name"}},
		},
	},
	{
		name: "matlab/binary", pkg: "internal/matlab/binary", typeFn: "typeSerializer", defFn: "typeDefinitionSerializer",
		family: []string{"typeSerializer", "typeDefinitionSerializer"}, scalar: nil,
		templates: map[string]tokenSpec{
			"yardl.binary.NoneSerializer":                    {"NONE", nil},
			"yardl.binary.OptionalSerializer(%s)":            {"OPTIONAL", []string{"elem"}},
			"yardl.binary.UnionSerializer('%s', {%s}, {%s})": {"UNION", []string{"_", "cases", "_"}},
			"yardl.binary.StreamSerializer(%s)":              {"STREAM", []string{"elem"}},
			"yardl.binary.FixedVectorSerializer(%s, %d)":     {"FIXEDVECTOR", []string{"elem", "len"}},
			"yardl.binary.VectorSerializer(%s)":              {"VECTOR", []string{"elem"}},
			"yardl.binary.FixedNDArraySerializer(%s, [%s])":  {"FIXEDNDARRAY", []string{"elem", "dims"}},
			"yardl.binary.NDArraySerializer(%s, %d)":         {"NDARRAY", []string{"elem", "ndims"}},
			"yardl.binary.DynamicNDArraySerializer(%s)":      {"DYNAMICNDARRAY", []string{"elem"}},
			"yardl.binary.MapSerializer(%s, %s)":             {"MAP", []string{"key", "value"}},
			"yardl.binary.%sSerializer":                      {"PRIM", []string{"name"}},
			"yardl.binary.EnumSerializer('%s', @%s, %s)":     {"ENUM", []string{"_", "_", "base"}},
			"%s()":          {"RECORD", []string{"_"}},
			"%s(%s)":        {"RECORD", []string{"_", "typeargs"}},
			"%s_serializer": {"PARAM", []string{"name"}},
			"%s.binary.%s":  {"NAME", []string{"_", "_"}},
		},
		exceptions: map[string]string{
			"FIXEDNDARRAY.dims":     "MATLAB is column-major: the shape list is emitted reversed (dims[n-i-1]); same extents, same wire layout",
			"RECORD.typeargs-empty": "MATLAB has no separate `()` form for an empty joined argument list",
		},
	},
	{
		name: "cpp/binary", pkg: "internal/cpp/binary", typeFn: "typeRwFunction", defFn: "typeDefinitionRwFunction",
		family: []string{"typeRwFunction", "typeDefinitionRwFunction"}, scalar: nil,
		templates: map[string]tokenSpec{
			"yardl::binary::%sMonostate":                {"NONE", []string{"_"}},
			"yardl::binary::%sOptional<%s, %s>":         {"OPTIONAL", []string{"_", "_", "elem"}},
			"%sUnion<%s>":                               {"UNION", []string{"_", "cases"}},
			"yardl::binary::%sVector<%s, %s>":           {"VECTOR", []string{"_", "_", "elem"}},
			"yardl::binary::%sArray<%s, %s, %d>":        {"FIXEDVECTOR", []string{"_", "_", "elem", "len"}},
			"yardl::binary::%sFixedNDArray<%s, %s, %s>": {"FIXEDNDARRAY", []string{"_", "_", "elem", "dims"}},
			"yardl::binary::%sNDArray<%s, %s, %d>":      {"NDARRAY", []string{"_", "_", "elem", "ndims"}},
			"yardl::binary::%sDynamicNDArray<%s, %s>":   {"DYNAMICNDARRAY", []string{"_", "_", "elem"}},
			"yardl::binary::%sMap<%s, %s, %s, %s>":      {"MAP", []string{"_", "_", "_", "key", "value"}},
			"yardl::binary::%s%s":                       {"PRIM", []string{"_", "name"}},
			"yardl::binary::%sFlags<%s>":                {"ENUM", []string{"_", "_"}},
			"yardl::binary::%sEnum<%s>":                 {"ENUM", []string{"_", "_"}},
			"%s%s":                                      {"PARAM", []string{"_", "name"}},
			"%s::binary::%s%s%s":                        {"RECORD", []string{"_", "_", "_", "typeargs"}},
		},
		exceptions: map[string]string{
			"STREAM":     "C++ frames streams at the protocol-step level (writeStepRw: WriteBlock / ReadBlock), so typeRwFunction maps a stream to its element routine",
			"ENUM.base":  "the C++ enum's underlying type carries the base type (cpp/types emits `enum class X : <base>`); WriteEnum/ReadEnum use std::underlying_type",
			"PRIM.class": "C++ maps the 18 primitives onto six routine families (Integer, FloatingPoint, String, Date, Time, DateTime); the table itself is checked by rule G2 against the documented wire format",
			"NAMEDTYPE":  "aliases and records share one naming scheme (<ns>::binary::<Verb><Name>) in C++: an alias has its own generated Write/Read function that delegates to the aliased type",
		},
	},
	{
		name: "python/ndjson", pkg: "internal/python/ndjson", typeFn: "typeConverter", defFn: "typeDefinitionConverter",
		family: []string{"typeConverter", "typeDefinitionConverter"}, scalar: nil,
		templates: map[string]tokenSpec{
			"_ndjson.none_converter":                   {"NONE", nil},
			"_ndjson.OptionalConverter(%s)":            {"OPTIONAL", []string{"elem"}},
			"_ndjson.UnionConverter(%s, [%s], %s)":     {"UNION", []string{"_", "cases", "_"}},
			"(%s.%s, %s, [%s])":                        {"CASE", []string{"_", "_", "elem", "_"}},
			"_ndjson.FixedVectorConverter(%s, %d)":     {"FIXEDVECTOR", []string{"elem", "len"}},
			"_ndjson.VectorConverter(%s)":              {"VECTOR", []string{"elem"}},
			"_ndjson.FixedNDArrayConverter(%s, (%s,))": {"FIXEDNDARRAY", []string{"elem", "dims"}},
			"_ndjson.NDArrayConverter(%s, %d)":         {"NDARRAY", []string{"elem", "ndims"}},
			"_ndjson.DynamicNDArrayConverter(%s)":      {"DYNAMICNDARRAY", []string{"elem"}},
			"_ndjson.MapConverter(%s, %s)":             {"MAP", []string{"key", "value"}},
			"_ndjson.%s_converter":                     {"PRIM", []string{"name"}},
			"%s(%s, %s, %s, %s)":                       {"ENUM", []string{"_", "_", "basedtype", "_", "_"}},
			"%s()":                                     {"RECORD", []string{"_"}},
			"%s(%s)":                                   {"RECORD", []string{"_", "typeargs"}},
			"%s_converter":                             {"PARAM", []string{"name"}},
			"_ndjson.FlagsConverter":                   {"NAME", nil},
			"_ndjson.EnumConverter":                    {"NAME", nil},
		},
		exceptions: map[string]string{
			"STREAM":    "NDJSON writes one line per stream item; the converter of a stream is its element converter",
			"ENUM.base": "JSON has a single number kind: the NDJSON enum converter takes the numpy dtype of the base type, not an element converter",
		},
	},
}

// the shared plan: row key -> canonical value
var sharedPlan = map[string]string{
	"type=nil":                 "NONE",
	"type=SimpleType":          "rec(SimpleType.ResolvedDefinition)",
	"scalar:single":            "rec(GeneralizedType.Cases[0].Type)",
	"scalar:optional":          "OPTIONAL(elem=rec(GeneralizedType.Cases[1].Type))",
	"scalar:union":             "UNION(cases=each[i](rec(TypeCase.Type)) over range GeneralizedType.Cases)",
	"dim=nil":                  "SCALAR",
	"dim=Stream":               "STREAM(elem=SCALAR)",
	"dim=Vector,fixed":         "FIXEDVECTOR(elem=SCALAR,len=Vector.Length)",
	"dim=Vector,!fixed":        "VECTOR(elem=SCALAR)",
	"dim=Array,fixed":          "FIXEDNDARRAY(elem=SCALAR,dims=each[i](ArrayDimension.Length) over range Array.Dimensions)",
	"dim=Array,!fixed,known":   "NDARRAY(elem=SCALAR,ndims=len(Array.Dimensions))",
	"dim=Array,!fixed,!known":  "DYNAMICNDARRAY(elem=SCALAR)",
	"dim=Map":                  "MAP(key=rec(Map.KeyType),value=SCALAR)",
	"def=PrimitiveDefinition":  "PRIM(name=PrimitiveDefinition)",
	"def=EnumDefinition":       "ENUM(base=rec({EnumDefinition.BaseType != nil⇒EnumDefinition.BaseType; else⇒Int32Type}))",
	"def=RecordDefinition":     "RECORD(typeargs=each(rec(Type)) over range RecordDefinition.TypeArguments)",
	"def=GenericTypeParameter": "PARAM(name=GenericTypeParameter)",
	"def=NamedType":            "rec(NamedType.Type)",
}

var identRe = regexp.MustCompile(`^[A-Za-z_]\w*$`)
var closureCallRe = regexp.MustCompile(`^([A-Za-z_]\w*)\(\)$`)
var joinRe = regexp.MustCompile(`^strings\.Join\(([A-Za-z_]\w*), .*\)$`)
var callRe = regexp.MustCompile(`^([A-Za-z_][\w.]*)\((.*)\)$`)

type planBuilder struct {
	b    backend
	rows []gee.Row
}

func inSet(s string, set []string) bool {
	for _, x := range set {
		if x == s {
			return true
		}
	}
	return false
}

func splitArgs(s string) []string {
	var out []string
	depth := 0
	cur := ""
	for _, r := range s {
		switch r {
		case '(', '[', '{':
			depth++
		case ')', ']', '}':
			depth--
		case ',':
			if depth == 0 {
				out = append(out, strings.TrimSpace(cur))
				cur = ""
				continue
			}
		}
		cur += string(r)
	}
	if strings.TrimSpace(cur) != "" {
		out = append(out, strings.TrimSpace(cur))
	}
	return out
}

func (pb *planBuilder) rowsOf(kindPrefix string) []gee.Row {
	var out []gee.Row
	for _, r := range pb.rows {
		if r.Kind == kindPrefix || strings.HasPrefix(r.Kind, kindPrefix+"[") {
			out = append(out, r)
		}
	}
	return out
}

// guardsBeyond: guards of r that are not among ctx guards
func guardsBeyond(r gee.Row, ctx []string) []string {
	have := map[string]bool{}
	for _, g := range ctx {
		have[g] = true
	}
	var out []string
	for _, g := range r.Guards {
		if !have[g] {
			out = append(out, g)
		}
	}
	return out
}

func (pb *planBuilder) canonExpr(e string) string {
	e = strings.TrimSpace(e)
	e = strings.ReplaceAll(e, "dsl.", "")
	if e == "GeneralizedType.ToScalar()" || e == "$scalarType" {
		return "SCALARTYPE"
	}
	// numeric/format wrappers carry no plan information
	for _, w := range []string{"strconv.FormatUint", "strings.ToLower", "string", "formatting.ToPascalCase", "formatting.ToSnakeCase", "common.TypeDefinitionSyntax"} {
		if strings.HasPrefix(e, w+"(") && strings.HasSuffix(e, ")") {
			inner := splitArgs(e[len(w)+1 : len(e)-1])
			if len(inner) >= 1 {
				return pb.canonExpr(inner[0])
			}
		}
	}
	e = strings.TrimSuffix(e, ".Name")
	return e
}

// value resolves an argument expression (canonical text) in the context of a row.
func (pb *planBuilder) value(arg string, ctx []string, depth int) string {
	arg = strings.TrimSpace(arg)
	if depth > 6 {
		return arg
	}
	if m := closureCallRe.FindStringSubmatch(arg); m != nil && inSet(m[1], pb.b.scalar) {
		return "SCALAR"
	}
	if identRe.MatchString(arg) && inSet(arg, pb.b.scalar) {
		return "SCALAR"
	}
	if m := joinRe.FindStringSubmatch(arg); m != nil {
		return pb.collection(m[1], ctx, depth)
	}
	if strings.HasPrefix(arg, "$") && identRe.MatchString(arg[1:]) {
		lets := pb.rowsOf("let:" + arg)
		if len(lets) == 1 {
			return pb.canonExpr(strings.TrimPrefix(lets[0].Tmpl, "EXPR:"))
		}
		if len(lets) > 1 {
			var alts []string
			for _, l := range lets {
				g := guardsBeyond(l, ctx)
				gs := strings.Join(g, "∧")
				if strings.HasPrefix(gs, "!(") {
					gs = "else"
				}
				alts = append(alts, gs+"⇒"+pb.canonExpr(strings.TrimPrefix(l.Tmpl, "EXPR:")))
			}
			return "{" + strings.Join(alts, "; ") + "}"
		}
		return arg
	}
	if identRe.MatchString(arg) {
		// a local closure / immediately-invoked literal: render its own decision table
		var alts []string
		for _, r := range pb.rows {
			if r.In == arg && r.Kind == "return" && !contradicts(r.Guards, ctx) {
				g := strings.Join(guardsBeyond(r, ctx), "∧")
				alts = append(alts, strings.ReplaceAll(g, "dsl.", "")+"⇒"+strings.Trim(pb.rowValue(r, depth+1), "\""))
			}
		}
		if len(alts) > 0 {
			return "{" + strings.Join(alts, "; ") + "}"
		}
		as := pb.rowsOf("assign:" + arg)
		// keep assignments whose guards are compatible with ctx (not contradicting)
		var vals []string
		for _, a := range as {
			if contradicts(a.Guards, ctx) {
				continue
			}
			vals = append(vals, pb.rowValue(a, depth+1))
		}
		vals = uniq(vals)
		if len(vals) == 1 {
			return vals[0]
		}
		if len(vals) > 1 {
			return "{" + strings.Join(vals, " | ") + "}"
		}
		return pb.canonExpr(arg)
	}
	if m := callRe.FindStringSubmatch(arg); m != nil {
		fn := m[1]
		args := splitArgs(m[2])
		if inSet(fn, pb.b.family) && len(args) >= 1 {
			a := pb.value(args[0], ctx, depth+1)
			if a == "SCALARTYPE" {
				return "SCALAR"
			}
			return "rec(" + a + ")"
		}
		if fn == "len" && len(args) == 1 {
			return "len(" + pb.canonExpr(args[0]) + ")"
		}
	}
	return pb.canonExpr(arg)
}

var setGuardRe = regexp.MustCompile(`^(!\()?(.+)∈\{(.*)\}\)?$`)

func parseSetGuard(g string) (subj string, elems []string, neg bool, ok bool) {
	m := setGuardRe.FindStringSubmatch(g)
	if m == nil {
		return "", nil, false, false
	}
	return m[2], strings.Split(m[3], "|"), m[1] != "", true
}

func contradicts(a, b []string) bool {
	set := map[string]bool{}
	for _, g := range b {
		set[g] = true
	}
	for _, ga := range a {
		sa, ea, na, oka := parseSetGuard(ga)
		if !oka {
			continue
		}
		for _, gb := range b {
			sb, eb, nb, okb := parseSetGuard(gb)
			if !okb || sa != sb {
				continue
			}
			inter := false
			for _, x := range ea {
				for _, y := range eb {
					if x == y {
						inter = true
					}
				}
			}
			if !na && !nb && !inter {
				return true
			}
			if na != nb {
				// X∈A vs !(X∈B): contradiction when the positive set is inside the negated one
				pos, negset := ea, eb
				if na {
					pos, negset = eb, ea
				}
				all := true
				for _, x := range pos {
					f := false
					for _, y := range negset {
						if x == y {
							f = true
						}
					}
					if !f {
						all = false
					}
				}
				if all {
					return true
				}
			}
		}
	}
	for _, g := range a {
		if strings.HasPrefix(g, "!(") && strings.HasSuffix(g, ")") {
			if set[g[2:len(g)-1]] {
				return true
			}
		} else if set["!("+g+")"] {
			return true
		}
	}
	return false
}

func uniq(in []string) []string {
	seen := map[string]bool{}
	var out []string
	for _, s := range in {
		if !seen[s] {
			seen[s] = true
			out = append(out, s)
		}
	}
	return out
}

// collection: the elements stored into slice `name` (by index or append), rendered as
// each[<index>](<value>) over <loop>.
func (pb *planBuilder) collection(name string, ctx []string, depth int) string {
	var parts []string
	loop := ""
	for _, r := range pb.rows {
		isIdx := strings.HasPrefix(r.Kind, "assign:"+name+"[")
		isApp := r.Kind == "append:"+name
		if !isIdx && !isApp {
			continue
		}
		if contradicts(r.Guards, ctx) {
			continue
		}
		v := pb.rowValue(r, depth+1)
		if noneLiterals[v] || v == "NONE" {
			continue // nil case → NONE: rec(nil) yields NONE as well
		}
		if strings.HasPrefix(v, "common.TypeSyntax(") || strings.HasPrefix(v, "common.TypeDefinitionSyntax(") {
			continue // C++ template argument naming the value type: carries no plan information
		}
		if strings.HasPrefix(v, "CASE(elem=") && strings.HasSuffix(v, ")") {
			v = v[len("CASE(elem=") : len(v)-1]
		}
		idx := ""
		if isIdx {
			idx = "[" + r.Kind[len("assign:"+name)+1:len(r.Kind)-1] + "]"
			if idx == "[2 * i + 1]" {
				idx = "[i]" // (type, routine) pairs: the routine of case i sits at 2i+1
			}
		}
		if len(r.Loop) > 0 {
			loop = r.Loop[len(r.Loop)-1]
		}
		parts = append(parts, "each"+idx+"("+v+")")
	}
	parts = uniq(parts)
	if len(parts) == 0 {
		return "join(" + name + ")"
	}
	s := strings.Join(parts, "+")
	if loop != "" {
		s += " over " + strings.ReplaceAll(loop, "dsl.", "")
	}
	return s
}

// rowValue renders a row's value canonically: TOKEN(role=value,...) for templates,
// rec(..) for recursive calls, resolved variable otherwise.
func (pb *planBuilder) rowValue(r gee.Row, depth int) string {
	switch {
	case strings.HasPrefix(r.Tmpl, "CALL:"):
		fn := strings.TrimPrefix(r.Tmpl, "CALL:")
		if inSet(fn, pb.b.scalar) {
			return "SCALAR"
		}
		if inSet(fn, pb.b.family) && len(r.Args) >= 1 {
			a := pb.value(r.Args[0], r.Guards, depth+1)
			if a == "SCALARTYPE" {
				return "SCALAR"
			}
			return "rec(" + a + ")"
		}
		if len(r.Args) >= 1 {
			return pb.canonExpr(fn + "(" + strings.Join(r.Args, ", ") + ")")
		}
		return fn + "()"
	case strings.HasPrefix(r.Tmpl, "VAR:"):
		return pb.value(strings.TrimPrefix(r.Tmpl, "VAR:"), r.Guards, depth+1)
	}
	spec, ok := pb.b.templates[r.Tmpl]
	if !ok {
		if noneLiterals[r.Tmpl] {
			return "NONE"
		}
		if r.In != "" && !inSet(r.In, pb.b.scalar) && !strings.Contains(r.Tmpl, "%") {
			return r.Tmpl // constant returned by a helper closure (a table cell)
		}
		return "TEMPLATE?" + fmt.Sprintf("%q", r.Tmpl)
	}
	var parts []string
	for i, role := range spec.roles {
		if role == "_" || i >= len(r.Args) {
			continue
		}
		parts = append(parts, role+"="+pb.value(r.Args[i], r.Guards, depth+1))
	}
	if len(parts) == 0 {
		return spec.token
	}
	return spec.token + "(" + strings.Join(parts, ",") + ")"
}

// rowKey maps a row's guards to a plan row key.
func rowKey(r gee.Row, scalar []string) string {
	has := func(s string) bool {
		for _, g := range r.Guards {
			if g == s {
				return true
			}
		}
		return false
	}
	typeOf := func(prefix string) []string {
		for _, g := range r.Guards {
			if strings.HasPrefix(g, prefix+"∈{") {
				inner := g[len(prefix)+len("∈{") : len(g)-1]
				return strings.Split(strings.ReplaceAll(inner, "dsl.", ""), "|")
			}
		}
		return nil
	}
	if inSet(r.In, scalar) {
		switch {
		case has("GeneralizedType.Cases.IsSingle()"):
			return "scalar:single"
		case has("GeneralizedType.Cases.IsOptional()"):
			return "scalar:optional"
		case has("!(GeneralizedType.Cases.IsOptional())"):
			return "scalar:union"
		}
		return "scalar:?"
	}
	if d := typeOf("type(GeneralizedType.Dimensionality)"); d != nil {
		var keys []string
		for _, k := range d {
			key := "dim=" + k
			switch k {
			case "Vector":
				if has("Vector.Length != nil") {
					key += ",fixed"
				} else if has("!(Vector.Length != nil)") {
					key += ",!fixed"
				}
			case "Array":
				if has("Array.IsFixed()") {
					key += ",fixed"
				} else if has("!(Array.IsFixed())") {
					key += ",!fixed"
					if has("Array.HasKnownNumberOfDimensions()") {
						key += ",known"
					} else if has("!(Array.HasKnownNumberOfDimensions())") {
						key += ",!known"
					}
				}
			}
			keys = append(keys, key)
		}
		return strings.Join(keys, "|")
	}
	if t := typeOf("type(Type)"); t != nil {
		return "type=" + strings.Join(t, "|")
	}
	if t := typeOf("type(TypeDefinition)"); t != nil {
		return "def=" + strings.Join(t, "|")
	}
	for _, g := range r.Guards {
		if strings.HasPrefix(g, "!(type(TypeDefinition)∈{") {
			return "def=default"
		}
	}
	return "?"
}

func normPlan(s string) string {
	s = strings.ReplaceAll(s, " ", "")
	return s
}

// ---------------------------------------------------------------------------
// G3: record emitters. Fields are serialized in declaration order, each with the
// routine of its own type: inside every `range <record>.Fields` loop of the record
// emitters, collections are filled at the loop index (or appended), positional %d
// arguments are the loop index (+1 for 1-based MATLAB cells), the per-field routine is
// the type-level function applied to that field's Type, and nothing sorts or reverses.
// ---------------------------------------------------------------------------

var recordEmitters = []struct {
	name, pkg, fn string
	family        []string
	minLoops      int
	oneBased      bool
}{
	{"python/binary", "internal/python/binary", "writeRecordSerializers", []string{"typeSerializer"}, 4, false},
	{"matlab/binary", "internal/matlab/binary", "writeRecordSerializer", []string{"typeSerializer"}, 3, true},
	{"cpp/binary", "internal/cpp/binary", "writeSerializers", []string{"typeRwFunction"}, 1, false},
	{"python/ndjson", "internal/python/ndjson", "writeRecordConverter", []string{"typeConverter"}, 2, false},
}

var sortCallRe = regexp.MustCompile(`\b(sort\.|slices\.Sort|slices\.Reverse)`)

func ruleRecordOrder(c *core.Ctx) {
	const rule = "G3"
	c.Rule(rule, "record emitters of every back end walk Fields in declaration order: collections indexed by the loop index, positional arguments = loop index, per-field routine = type function of that field's Type, no sort/reverse", 20)
	for _, re := range recordEmitters {
		_, d, p := c.Func(re.pkg, re.fn)
		if d == nil {
			c.Undecided(rule, re.name+"/anchor "+re.fn, 0, "record emitter not found")
			continue
		}
		x := &gee.Extractor{Info: p.TypesInfo, Fset: c.Fset}
		rows := x.Extract(re.fn, d)
		loops := map[string]bool{}
		for _, r := range rows {
			if len(r.Loop) == 0 || !strings.HasSuffix(r.Loop[len(r.Loop)-1], "RecordDefinition.Fields") {
				continue
			}
			loops[fmt.Sprint(r.Seq)] = true
			key := fmt.Sprintf("%s/%s/%s %q", re.name, re.fn, r.Kind, r.Tmpl)
			// index of collection
			if strings.HasPrefix(r.Kind, "assign:") && strings.Contains(r.Kind, "[") {
				idx := r.Kind[strings.Index(r.Kind, "[")+1 : len(r.Kind)-1]
				c.Check(idx == "i", rule, key+"/index", r.Pos, "filled at the loop index", "collection over the record's fields is filled at `"+idx+"`, not at the loop index: fields leave declaration order")
			}
			// args
			nverb := 0
			for _, a := range r.Args {
				nverb++
				if m := callRe.FindStringSubmatch(a); m != nil && inSet(m[1], re.family) {
					args := splitArgs(m[2])
					c.Check(len(args) > 0 && args[0] == "Field.Type", rule, key+"/routine", r.Pos, "routine = "+m[1]+"(field.Type)",
						"the per-field routine is not built from the field's own Type: "+a)
				}
				ix := "i"
				if n := len(r.LoopIx); n > 0 && r.LoopIx[n-1] != "" {
					ix = r.LoopIx[n-1]
				}
				if a == ix || strings.HasPrefix(a, ix+" ") || strings.HasSuffix(a, " "+ix) || strings.Contains(a, " "+ix+" ") {
					want := "i"
					wantC := 0
					if re.oneBased {
						want, wantC = "i + 1", 1
					}
					af := newAffEval(a, map[string]affine{ix: {i: 1, ok: true}}, func(string) (string, bool) { return "", false }).expr()
					c.Check(af.ok && af.i == 1 && af.n == 0 && af.c == wantC, rule, key+"/position", r.Pos, "positional argument is "+want, "positional argument `"+a+"` is not the field's index ("+want+")")
				}
			}
			if strings.HasPrefix(r.Tmpl, "CALL:") && inSet(strings.TrimPrefix(r.Tmpl, "CALL:"), re.family) {
				c.Check(len(r.Args) > 0 && r.Args[0] == "Field.Type", rule, key+"/routine", r.Pos, "routine of the field's Type", "the per-field routine is not built from the field's own Type")
			}
		}
		c.Check(len(loops) >= re.minLoops, rule, re.name+"/"+re.fn+"/field loops", d.Pos(), fmt.Sprintf("%d emissions inside loops over the record's fields analysed", len(loops)),
			fmt.Sprintf("only %d emissions inside loops over RecordDefinition.Fields found (expected >= %d): the emitter changed shape", len(loops), re.minLoops))
		// no sorting / reversing anywhere in the emitter
		src := nodeText(c, d)
		c.Check(!sortCallRe.MatchString(src), rule, re.name+"/"+re.fn+"/no reordering", d.Pos(), "no sort/reverse call in the emitter", "the record emitter sorts or reverses something: field order may no longer be declaration order")
	}
}
