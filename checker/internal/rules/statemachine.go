package rules

import (
	"encoding/json"
	"fmt"
	"go/ast"
	"go/types"
	"os"
	"regexp"
	"sort"
	"strconv"
	"strings"

	"verif/checker/internal/core"
	"verif/checker/internal/gee"
)

// ---------------------------------------------------------------------------
// C07: protocol state machines exist only as emitted text. Every emission that mentions
// the state variable is extracted together with its guards, and each %d argument is
// reduced to an affine form a*i + b*n + c over the step index i and the number of steps
// n (helper-function parameters are substituted from their call sites). The resulting
// table is compared with refs/statemachine.json, the state machine the design
// documents describe.
// ---------------------------------------------------------------------------

type affine struct {
	i, n, c int
	ok      bool
	why     string
}

func (a affine) String() string {
	if !a.ok {
		return "?(" + a.why + ")"
	}
	var parts []string
	if a.i != 0 {
		parts = append(parts, fmt.Sprintf("%d*i", a.i))
	}
	if a.n != 0 {
		parts = append(parts, fmt.Sprintf("%d*n", a.n))
	}
	if a.c != 0 || len(parts) == 0 {
		parts = append(parts, strconv.Itoa(a.c))
	}
	s := strings.Join(parts, "+")
	return strings.ReplaceAll(s, "+-", "-")
}

// tiny expression evaluator over canonical argument text
type affEval struct {
	toks []string
	pos  int
	env  map[string]affine
	lets func(name string) (string, bool)
}

var affTokRe = regexp.MustCompile(`\s*(len\([^()]*\)|\$?[A-Za-z_][\w.]*|\d+|[-+*()])`)

func newAffEval(s string, env map[string]affine, lets func(string) (string, bool)) *affEval {
	var toks []string
	rest := s
	for len(strings.TrimSpace(rest)) > 0 {
		m := affTokRe.FindStringSubmatchIndex(rest)
		if m == nil || m[0] != 0 {
			return &affEval{toks: []string{"?"}, env: env, lets: lets}
		}
		toks = append(toks, rest[m[2]:m[3]])
		rest = rest[m[1]:]
	}
	return &affEval{toks: toks, env: env, lets: lets}
}

func (e *affEval) peek() string {
	if e.pos < len(e.toks) {
		return e.toks[e.pos]
	}
	return ""
}
func (e *affEval) next() string { t := e.peek(); e.pos++; return t }

func (e *affEval) expr() affine {
	l := e.term()
	for e.peek() == "+" || e.peek() == "-" {
		op := e.next()
		r := e.term()
		if !l.ok || !r.ok {
			return affine{why: l.why + r.why}
		}
		if op == "+" {
			l = affine{l.i + r.i, l.n + r.n, l.c + r.c, true, ""}
		} else {
			l = affine{l.i - r.i, l.n - r.n, l.c - r.c, true, ""}
		}
	}
	return l
}

func (e *affEval) term() affine {
	l := e.factor()
	for e.peek() == "*" {
		e.next()
		r := e.factor()
		if !l.ok || !r.ok {
			return affine{why: l.why + r.why}
		}
		switch {
		case l.i == 0 && l.n == 0:
			l = affine{r.i * l.c, r.n * l.c, r.c * l.c, true, ""}
		case r.i == 0 && r.n == 0:
			l = affine{l.i * r.c, l.n * r.c, l.c * r.c, true, ""}
		default:
			return affine{why: "non-linear"}
		}
	}
	return l
}

func (e *affEval) factor() affine {
	t := e.next()
	switch {
	case t == "(":
		v := e.expr()
		if e.next() != ")" {
			return affine{why: "paren"}
		}
		return v
	case t == "-":
		v := e.factor()
		return affine{-v.i, -v.n, -v.c, v.ok, v.why}
	case t == "":
		return affine{why: "empty"}
	case t[0] >= '0' && t[0] <= '9':
		n, _ := strconv.Atoi(t)
		return affine{c: n, ok: true}
	case strings.HasPrefix(t, "len("):
		if strings.HasSuffix(t, ".Sequence)") {
			return affine{n: 1, ok: true}
		}
		return affine{why: t}
	case t == "i":
		if v, ok := e.env["i"]; ok {
			return v
		}
		return affine{i: 1, ok: true}
	default:
		if v, ok := e.env[t]; ok {
			return v
		}
		if strings.HasPrefix(t, "$") {
			if src, ok := e.lets(t); ok {
				sub := newAffEval(src, e.env, e.lets)
				return sub.expr()
			}
		}
		return affine{why: "unknown symbol " + t}
	}
}

type stateRow struct {
	Backend string   `json:"backend"`
	Chain   string   `json:"chain"`
	Guards  []string `json:"guards"`
	Tmpl    string   `json:"tmpl"`
	Forms   []string `json:"forms"`
	pos     gee.Row
}

var stateTmplRe = regexp.MustCompile(`state_?\b|_state\b|_raise_unexpected_state|final_state|_wrap_iterable|InvalidState|state == |%d, (true|false), state_|\bfinally\b|\btry\b|\bexcept\b|\bcatch\b`)

var smBackends = []struct {
	name, pkg string
	roots     []string
}{
	{"cpp", "internal/cpp/protocols", []string{"writeDefinitions"}},
	{"python", "internal/python/protocols", []string{"writeAbstractWriter", "writeAbstractReader"}},
	{"matlab", "internal/matlab/protocols", []string{"writeAbstractWriter", "writeAbstractReader"}},
}

func extractStateRows(c *core.Ctx, backendName, pkgRel string, roots []string) ([]stateRow, []string) {
	p := c.Pkg(pkgRel)
	var problems []string
	var out []stateRow
	if p == nil {
		return nil, []string{"package not found"}
	}
	rowsOf := map[string][]gee.Row{}
	declOf := map[string]*ast.FuncDecl{}
	for _, f := range p.Syntax {
		for _, dd := range f.Decls {
			if fd, ok := dd.(*ast.FuncDecl); ok && fd.Body != nil && fd.Recv == nil {
				declOf[fd.Name.Name] = fd
			}
		}
	}
	declByObj := func(f *types.Func) *ast.FuncDecl {
		if f == nil || f.Pkg() != p.Types {
			return nil
		}
		if d := declOf[f.Name()]; d != nil && p.TypesInfo.Defs[d.Name] == types.Object(f) {
			return d
		}
		return nil
	}
	for name, fd := range declOf {
		x := &gee.Extractor{Info: p.TypesInfo, Fset: c.Fset, Decl: declByObj}
		rowsOf[name] = x.Extract(name, fd)
	}
	// visit expands a function in the context of a call site: ctxGuards/ctxLoops are the guards and
	// loops under which it is called, env binds its integer parameters to affine forms and cenv its
	// other parameters to the constants passed
	var visit func(fn string, env map[string]affine, cenv map[string]string, ctxGuards, ctxLoops []string, chain string, depth int)
	visit = func(fn string, env map[string]affine, cenv map[string]string, ctxGuards, ctxLoops []string, chain string, depth int) {
		if depth > 4 {
			return
		}
		rows := rowsOf[fn]
		lets := func(name string) (string, bool) {
			for _, r := range rows {
				if r.Kind == "let:"+name {
					return strings.TrimPrefix(r.Tmpl, "EXPR:"), true
				}
			}
			return "", false
		}
		substGuards := func(gs []string) []string {
			var out []string
			for _, g := range gs {
				// a guard that is just a constant-bound boolean parameter is decided at the call site
				name, neg := g, false
				if strings.HasPrefix(g, "!(") && strings.HasSuffix(g, ")") {
					name, neg = g[2:len(g)-1], true
				}
				if v, ok := cenv[name]; ok && (v == "true" || v == "false") {
					if (v == "true") == neg {
						out = append(out, "⊥")
					}
					continue
				}
				out = append(out, g)
			}
			return out
		}
		// emitState records one state-machine emission; a %d argument that is a variable with several
		// guarded definitions (`next = a` in one branch, `next = b` in the other) yields one row per
		// definition, under the guards of that definition
		var emitState func(r gee.Row, gs, ctxGuards, ctxLoops []string, env map[string]affine, cenv map[string]string, rows []gee.Row, chain string)
		emitState = func(r gee.Row, gs, ctxGuards, ctxLoops []string, env map[string]affine, cenv map[string]string, rows []gee.Row, chain string) {
			tmpl, args := inlineConstantArgs(r.Tmpl, r.Args, cenv)
			verbs := verbRe.FindAllString(tmpl, -1)
			// multi-definition variables among the %d arguments
			for vi, v := range verbs {
				if v != "%d" || vi >= len(args) {
					continue
				}
				for _, sym := range affSymRe.FindAllString(args[vi], -1) {
					var defs []gee.Row
					for _, l := range rows {
						if l.Kind == "let:"+sym {
							defs = append(defs, l)
						}
					}
					if len(defs) < 2 {
						continue
					}
					for _, d := range defs {
						if contradicts(d.Guards, r.Guards) {
							continue
						}
						e := r
						e.Tmpl = tmpl
						e.Args = append([]string(nil), args...)
						e.Args[vi] = strings.ReplaceAll(args[vi], sym, "("+strings.TrimPrefix(d.Tmpl, "EXPR:")+")")
						e.Guards = append(append([]string(nil), r.Guards...), guardsBeyond(d, r.Guards)...)
						emitState(e, substGuards(e.Guards), ctxGuards, ctxLoops, env, cenv, rows, chain)
					}
					return
				}
			}
			allGuards := append(append([]string(nil), ctxGuards...), gs...)
			allLoops := append(append([]string(nil), ctxLoops...), r.Loop...)
			env = withLoopIndex(env, r)
			var forms []string
			for vi, v := range verbs {
				if v == "%d" && vi < len(args) {
					a := newAffEval(args[vi], env, lets).expr()
					forms = append(forms, a.String())
					if !a.ok {
						problems = append(problems, fmt.Sprintf("%s: cannot reduce %q to an affine form (%s)", r.PosStr, args[vi], a.why))
					}
				}
			}
			out = append(out, stateRow{Backend: backendName, Chain: chain, Guards: normGuards(allGuards, allLoops, env, lets), Tmpl: strings.TrimSpace(tmpl), Forms: forms, pos: r})
		}
		for _, r := range rows {
			gs := substGuards(r.Guards)
			dead := false
			for _, g := range gs {
				dead = dead || g == "⊥"
			}
			if dead {
				continue
			}
			allGuards := append(append([]string(nil), ctxGuards...), gs...)
			allLoops := append(append([]string(nil), ctxLoops...), r.Loop...)
			// an emission of a string variable stands for the templates assigned to that variable
			if r.Kind == "emit" && strings.HasPrefix(r.Tmpl, "VAR:") {
				name := strings.TrimPrefix(r.Tmpl, "VAR:")
				for _, a := range rows {
					if a.Kind == "assign:"+name && stateTmplRe.MatchString(a.Tmpl) && !contradicts(a.Guards, r.Guards) {
						e := r
						e.Tmpl, e.Args = a.Tmpl, a.Args
						e.Guards = append(append([]string(nil), r.Guards...), guardsBeyond(a, r.Guards)...)
						emitState(e, substGuards(e.Guards), ctxGuards, ctxLoops, env, cenv, rows, chain)
					}
				}
				continue
			}
			switch {
			case r.Kind == "emit" && stateTmplRe.MatchString(r.Tmpl):
				emitState(r, gs, ctxGuards, ctxLoops, env, cenv, rows, chain)
			case r.Kind == "call":
				callee := r.Tmpl
				cd := declOf[callee]
				if cd == nil || callee == fn || !hasStateDeep(callee, rowsOf, map[string]bool{}) {
					continue
				}
				env := withLoopIndex(env, r)
				sub := map[string]affine{}
				csub := map[string]string{}
				pi := 0
				for _, fl := range cd.Type.Params.List {
					for _, nm := range fl.Names {
						if pi < len(r.Args) {
							arg := r.Args[pi]
							if v, ok := cenv[arg]; ok {
								arg = v
							}
							if b, ok := p.TypesInfo.TypeOf(fl.Type).Underlying().(*types.Basic); ok && b.Info()&types.IsInteger != 0 {
								sub[nm.Name] = newAffEval(arg, env, lets).expr()
							} else if arg == "true" || arg == "false" || (strings.HasPrefix(arg, "\"") && strings.HasSuffix(arg, "\"")) {
								csub[nm.Name] = arg
							}
						}
						pi++
					}
				}
				visit(callee, sub, csub, allGuards, allLoops, chain+">"+callee+"("+affEnvStr(sub)+")", depth+1)
			}
		}
	}
	for _, r := range roots {
		if declOf[r] == nil {
			problems = append(problems, "root function "+r+" not found")
			continue
		}
		visit(r, map[string]affine{}, map[string]string{}, nil, nil, r, 0)
	}
	return out, problems
}

// withLoopIndex binds the index variable of an enclosing loop over the protocol's steps to the
// affine form i, whatever the variable is called.
func withLoopIndex(env map[string]affine, r gee.Row) map[string]affine {
	out := env
	for k, l := range r.Loop {
		if strings.HasSuffix(l, ".Sequence") && k < len(r.LoopIx) && r.LoopIx[k] != "" && r.LoopIx[k] != "i" {
			if _, has := env[r.LoopIx[k]]; !has {
				if &out == &env || len(out) == len(env) {
					out = map[string]affine{}
					for kk, v := range env {
						out[kk] = v
					}
				}
				out[r.LoopIx[k]] = affine{i: 1, ok: true}
			}
		}
	}
	return out
}

func hasStateDeep(fn string, rowsOf map[string][]gee.Row, seen map[string]bool) bool {
	if seen[fn] {
		return false
	}
	seen[fn] = true
	for _, r := range rowsOf[fn] {
		if r.Kind == "emit" && stateTmplRe.MatchString(r.Tmpl) {
			return true
		}
		if r.Kind == "call" && hasStateDeep(r.Tmpl, rowsOf, seen) {
			return true
		}
	}
	return false
}

var verbRe = regexp.MustCompile(`%[a-zA-Z]`)
var affSymRe = regexp.MustCompile(`\$[A-Za-z_]\w*`)

// inlineConstantArgs puts constant arguments (true/false, numbers, quoted strings, or parameters
// bound to such constants at the call site) into the template text, so that
// Fprintf("%s(%d, %t, state_)", name, i, true) and Fprintf("%s(%d, true, state_)", name, i) agree.
func inlineConstantArgs(tmpl string, args []string, cenv map[string]string) (string, []string) {
	var outArgs []string
	vi := 0
	res := verbRe.ReplaceAllStringFunc(tmpl, func(v string) string {
		if vi >= len(args) {
			vi++
			return v
		}
		a := args[vi]
		vi++
		if c, ok := cenv[a]; ok {
			a = c
		}
		if v == "%t" && (a == "true" || a == "false") {
			return a
		}
		if v == "%s" && len(a) >= 2 && strings.HasPrefix(a, "\"") && strings.HasSuffix(a, "\"") {
			return a[1 : len(a)-1]
		}
		outArgs = append(outArgs, a)
		return v
	})
	return res, outArgs
}

func affEnvStr(env map[string]affine) string {
	var ks []string
	for k := range env {
		ks = append(ks, k)
	}
	sort.Strings(ks)
	var parts []string
	for _, k := range ks {
		parts = append(parts, k+"="+env[k].String())
	}
	return strings.Join(parts, ",")
}

// normGuards keeps the guards that distinguish state-machine rows: stream/non-stream,
// batch overload, previous-step conditions, loop membership.
var seqIndexRe = regexp.MustCompile(`ProtocolDefinition\.Sequence\[([^\[\]]*)\]`)

func normGuards(gs []string, loops []string, env map[string]affine, lets func(string) (string, bool)) []string {
	var out []string
	for _, l := range loops {
		if strings.HasSuffix(l, ".Sequence") {
			out = append(out, "each step")
		}
	}
	for _, g := range gs {
		g = strings.ReplaceAll(g, "dsl.", "")
		// the step a guard talks about, independent of how it is reached: the range variable,
		// p.Sequence[i], a helper's p.Sequence[stepIndex] with stepIndex bound at the call site
		g = seqIndexRe.ReplaceAllStringFunc(g, func(m string) string {
			idx := seqIndexRe.FindStringSubmatch(m)[1]
			a := newAffEval(idx, env, lets).expr()
			if a.ok && a.i == 0 && a.n == 1 {
				if a.c == 0 {
					return "ProtocolStep[n]"
				}
				return fmt.Sprintf("ProtocolStep[n%+d]", a.c)
			}
			if a.ok && a.i == 1 && a.n == 0 {
				switch {
				case a.c == 0:
					return "ProtocolStep"
				case a.c > 0:
					return fmt.Sprintf("ProtocolStep[+%d]", a.c)
				default:
					return fmt.Sprintf("ProtocolStep[%d]", a.c)
				}
			}
			return m
		})
		out = append(out, normIndexComparisons(g, env, lets))
	}
	sort.Strings(out)
	return dedup(out)
}

var cmpRe = regexp.MustCompile(`^([^&|!=<>]+?) (>=|<=|>|<|==|!=) ([^&|!=<>]+)$`)

// normIndexComparisons rewrites comparisons between affine forms of the step index
// (`prevStepIndex >= 0` with prevStepIndex = i-1, `i > 0`, `0 < i`) into `i >= k` / `i <= k` / ...
// so that the name of a helper parameter or the side a constant is written on does not matter.
func normIndexComparisons(g string, env map[string]affine, lets func(string) (string, bool)) string {
	neg := false
	inner := g
	if strings.HasPrefix(g, "!(") && strings.HasSuffix(g, ")") {
		neg = true
		inner = g[2 : len(g)-1]
	}
	sep := " && "
	parts := strings.Split(inner, sep)
	if len(parts) == 1 {
		sep = " || "
		parts = strings.Split(inner, sep)
	}
	for k, part := range parts {
		m := cmpRe.FindStringSubmatch(part)
		if m == nil {
			continue
		}
		l := newAffEval(m[1], env, lets).expr()
		r := newAffEval(m[3], env, lets).expr()
		if !l.ok || !r.ok {
			continue
		}
		// bring to  (a*v) op c  with a > 0, v = i or n
		v := "i"
		a, cst, op := l.i-r.i, r.c-l.c, m[2]
		if a == 0 {
			v = "n"
			a = l.n - r.n
		} else if l.n-r.n != 0 {
			continue
		}
		if a == 0 {
			continue
		}
		if a < 0 {
			a, cst = -a, -cst
			op = map[string]string{">=": "<=", "<=": ">=", ">": "<", "<": ">", "==": "==", "!=": "!="}[op]
		}
		if a != 1 {
			continue
		}
		switch op {
		case ">":
			op, cst = ">=", cst+1
		case "<":
			op, cst = "<=", cst-1
		}
		parts[k] = fmt.Sprintf("%s %s %d", v, op, cst)
	}
	res := strings.Join(parts, sep)
	if neg {
		return "!(" + res + ")"
	}
	return res
}

func ruleStateMachine(c *core.Ctx) {
	const rule = "S1"
	c.Rule(rule, "every emitted state number of the generated writers/readers (C++, Python, MATLAB), reduced to an affine form over the step index i and the step count n, equals the reference state machine (refs/statemachine.json): guard G(i), advance to G(i+1) after a completed step, G(i)+1 inside/after an unobserved stream (stride 2), Close compares with G(n)", 40)
	type refRow struct {
		Chain  string   `json:"chain"`
		Guards []string `json:"guards"`
		Tmpl   string   `json:"tmpl"`
		Forms  []string `json:"forms"`
	}
	ref := map[string][]refRow{}
	var raw map[string]json.RawMessage
	if err := loadRef("statemachine.json", &raw); err != nil {
		c.Undecided(rule, "refs/statemachine.json", 0, "cannot load reference: "+err.Error())
	}
	for k, v := range raw {
		if strings.HasPrefix(k, "_") {
			continue
		}
		var rows []refRow
		if err := json.Unmarshal(v, &rows); err != nil {
			c.Undecided(rule, "refs/statemachine.json/"+k, 0, "malformed reference: "+err.Error())
		}
		ref[k] = rows
	}
	all := map[string][]stateRow{}
	for _, b := range smBackends {
		rows, problems := extractStateRows(c, b.name, b.pkg, b.roots)
		all[b.name] = rows
		for _, pr := range problems {
			c.Undecided(rule, b.name+"/extract", 0, pr)
		}
		want := map[string]int{}
		desc := map[string]string{}
		// rows are compared as a multiset of (guards, emitted text, state numbers): which function or
		// helper prints a line, and in which order independent guards are tested, does not matter
		for _, r := range ref[b.name] {
			gs := append([]string(nil), r.Guards...)
			sort.Strings(gs)
			k := strings.Join(gs, " ∧ ") + " | " + r.Tmpl + " | " + strings.Join(r.Forms, ",")
			want[k]++
		}
		got := map[string]int{}
		for _, r := range rows {
			k := strings.Join(r.Guards, " ∧ ") + " | " + r.Tmpl + " | " + strings.Join(r.Forms, ",")
			got[k]++
			desc[k] = r.pos.PosStr
			key := fmt.Sprintf("%s/%s [%s]", b.name, r.Tmpl, strings.Join(r.Guards, " ∧ "))
			if got[k] <= want[k] {
				c.OK(rule, key, r.pos.Pos, "state numbers "+strings.Join(r.Forms, ",")+" as in the reference state machine")
			} else {
				// find the nearest reference row with same chain+tmpl to explain
				near := ""
				for _, rr := range ref[b.name] {
					if rr.Tmpl == r.Tmpl {
						near = fmt.Sprintf(" (reference has forms %s under [%s])", strings.Join(rr.Forms, ","), strings.Join(rr.Guards, " ∧ "))
					}
				}
				c.Bad(rule, key, r.pos.Pos, "emission of state numbers "+strings.Join(r.Forms, ",")+" under these guards is not in the reference state machine"+near+": an illegal call sequence is accepted or a legal one rejected for some protocol shape")
			}
		}
		for k, n := range want {
			if got[k] < n {
				c.Bad(rule, b.name+"/missing/"+k, 0, "the reference state machine has this emission but the generator no longer produces it")
			}
		}
	}
	c.Tables["state_machine"] = all
	if dump := os.Getenv("VERIF_DUMP_STATEMACHINE"); dump != "" {
		// development aid: write the extracted table in the reference format (reviewed before it is adopted)
		outm := map[string]any{}
		for k, rows := range all {
			var rr []refRow
			for _, r := range rows {
				rr = append(rr, refRow{Chain: r.Chain, Guards: r.Guards, Tmpl: r.Tmpl, Forms: r.Forms})
			}
			outm[k] = rr
		}
		if b, err := json.MarshalIndent(outm, "", " "); err == nil {
			_ = os.WriteFile(dump, b, 0644)
		}
	}
}
