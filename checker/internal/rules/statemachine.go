package rules

import (
	"encoding/json"
	"fmt"
	"go/ast"
	"go/types"
	"regexp"
	"sort"
	"strconv"
	"strings"

	"verif/checker/internal/core"
	"verif/checker/internal/gee"
)

// ---------------------------------------------------------------------------
// C07: protocol state machines exist only as emitted text. Every emission that mentions
// the state variable is extracted together with its guards, and each %d argument is
// reduced to an affine form a*i + b*n + c over the step index i and the number of steps
// n (helper-function parameters are substituted from their call sites). The resulting
// table is compared with refs/statemachine.json, the state machine the design
// documents describe.
// ---------------------------------------------------------------------------

type affine struct {
	i, n, c int
	ok      bool
	why     string
}

func (a affine) String() string {
	if !a.ok {
		return "?(" + a.why + ")"
	}
	var parts []string
	if a.i != 0 {
		parts = append(parts, fmt.Sprintf("%d*i", a.i))
	}
	if a.n != 0 {
		parts = append(parts, fmt.Sprintf("%d*n", a.n))
	}
	if a.c != 0 || len(parts) == 0 {
		parts = append(parts, strconv.Itoa(a.c))
	}
	s := strings.Join(parts, "+")
	return strings.ReplaceAll(s, "+-", "-")
}

// tiny expression evaluator over canonical argument text
type affEval struct {
	toks []string
	pos  int
	env  map[string]affine
	lets func(name string) (string, bool)
}

var affTokRe = regexp.MustCompile(`\s*(len\([^()]*\)|\$?[A-Za-z_][\w.]*|\d+|[-+*()])`)

func newAffEval(s string, env map[string]affine, lets func(string) (string, bool)) *affEval {
	var toks []string
	rest := s
	for len(strings.TrimSpace(rest)) > 0 {
		m := affTokRe.FindStringSubmatchIndex(rest)
		if m == nil || m[0] != 0 {
			return &affEval{toks: []string{"?"}, env: env, lets: lets}
		}
		toks = append(toks, rest[m[2]:m[3]])
		rest = rest[m[1]:]
	}
	return &affEval{toks: toks, env: env, lets: lets}
}

func (e *affEval) peek() string {
	if e.pos < len(e.toks) {
		return e.toks[e.pos]
	}
	return ""
}
func (e *affEval) next() string { t := e.peek(); e.pos++; return t }

func (e *affEval) expr() affine {
	l := e.term()
	for e.peek() == "+" || e.peek() == "-" {
		op := e.next()
		r := e.term()
		if !l.ok || !r.ok {
			return affine{why: l.why + r.why}
		}
		if op == "+" {
			l = affine{l.i + r.i, l.n + r.n, l.c + r.c, true, ""}
		} else {
			l = affine{l.i - r.i, l.n - r.n, l.c - r.c, true, ""}
		}
	}
	return l
}

func (e *affEval) term() affine {
	l := e.factor()
	for e.peek() == "*" {
		e.next()
		r := e.factor()
		if !l.ok || !r.ok {
			return affine{why: l.why + r.why}
		}
		switch {
		case l.i == 0 && l.n == 0:
			l = affine{r.i * l.c, r.n * l.c, r.c * l.c, true, ""}
		case r.i == 0 && r.n == 0:
			l = affine{l.i * r.c, l.n * r.c, l.c * r.c, true, ""}
		default:
			return affine{why: "non-linear"}
		}
	}
	return l
}

func (e *affEval) factor() affine {
	t := e.next()
	switch {
	case t == "(":
		v := e.expr()
		if e.next() != ")" {
			return affine{why: "paren"}
		}
		return v
	case t == "-":
		v := e.factor()
		return affine{-v.i, -v.n, -v.c, v.ok, v.why}
	case t == "":
		return affine{why: "empty"}
	case t[0] >= '0' && t[0] <= '9':
		n, _ := strconv.Atoi(t)
		return affine{c: n, ok: true}
	case strings.HasPrefix(t, "len("):
		if strings.HasSuffix(t, ".Sequence)") {
			return affine{n: 1, ok: true}
		}
		return affine{why: t}
	case t == "i":
		if v, ok := e.env["i"]; ok {
			return v
		}
		return affine{i: 1, ok: true}
	default:
		if v, ok := e.env[t]; ok {
			return v
		}
		if strings.HasPrefix(t, "$") {
			if src, ok := e.lets(t); ok {
				sub := newAffEval(src, e.env, e.lets)
				return sub.expr()
			}
		}
		return affine{why: "unknown symbol " + t}
	}
}

type stateRow struct {
	Backend string   `json:"backend"`
	Chain   string   `json:"chain"`
	Guards  []string `json:"guards"`
	Tmpl    string   `json:"tmpl"`
	Forms   []string `json:"forms"`
	pos     gee.Row
}

var stateTmplRe = regexp.MustCompile(`state_?\b|_state\b|_raise_unexpected_state|final_state|_wrap_iterable|InvalidState|state == |%d, (true|false), state_|\bfinally\b|\btry\b|\bexcept\b|\bcatch\b`)

var smBackends = []struct {
	name, pkg string
	roots     []string
}{
	{"cpp", "internal/cpp/protocols", []string{"writeDefinitions"}},
	{"python", "internal/python/protocols", []string{"writeAbstractWriter", "writeAbstractReader"}},
	{"matlab", "internal/matlab/protocols", []string{"writeAbstractWriter", "writeAbstractReader"}},
}

func extractStateRows(c *core.Ctx, backendName, pkgRel string, roots []string) ([]stateRow, []string) {
	p := c.Pkg(pkgRel)
	var problems []string
	var out []stateRow
	if p == nil {
		return nil, []string{"package not found"}
	}
	rowsOf := map[string][]gee.Row{}
	exOf := map[string]*gee.Extractor{}
	declOf := map[string]*ast.FuncDecl{}
	for _, f := range p.Syntax {
		for _, dd := range f.Decls {
			if fd, ok := dd.(*ast.FuncDecl); ok && fd.Body != nil && fd.Recv == nil {
				x := &gee.Extractor{Info: p.TypesInfo, Fset: c.Fset}
				rowsOf[fd.Name.Name] = x.Extract(fd.Name.Name, fd)
				exOf[fd.Name.Name] = x
				declOf[fd.Name.Name] = fd
			}
		}
	}
	hasState := func(fn string) bool {
		for _, r := range rowsOf[fn] {
			if r.Kind == "emit" && stateTmplRe.MatchString(r.Tmpl) {
				return true
			}
		}
		return false
	}
	var visit func(fn string, env map[string]affine, chain string, depth int)
	visit = func(fn string, env map[string]affine, chain string, depth int) {
		if depth > 4 {
			return
		}
		rows := rowsOf[fn]
		lets := func(name string) (string, bool) {
			for _, r := range rows {
				if r.Kind == "let:"+name {
					return strings.TrimPrefix(r.Tmpl, "EXPR:"), true
				}
			}
			return "", false
		}
		for _, r := range rows {
			if r.Kind != "emit" || !stateTmplRe.MatchString(r.Tmpl) {
				continue
			}
			// only emissions with %d arguments or literal state numbers matter
			nd := strings.Count(r.Tmpl, "%d")
			var forms []string
			if nd > 0 {
				// positions of %d among the verbs
				verbs := regexp.MustCompile(`%[a-zA-Z]`).FindAllString(r.Tmpl, -1)
				for vi, v := range verbs {
					if v == "%d" && vi < len(r.Args) {
						a := newAffEval(r.Args[vi], env, lets).expr()
						forms = append(forms, a.String())
						if !a.ok {
							problems = append(problems, fmt.Sprintf("%s: cannot reduce %q to an affine form (%s)", r.PosStr, r.Args[vi], a.why))
						}
					}
				}
			}
			out = append(out, stateRow{Backend: backendName, Chain: chain, Guards: normGuards(r.Guards, r.Loop), Tmpl: strings.TrimSpace(r.Tmpl), Forms: forms, pos: r})
		}
		// descend into helpers that emit state text
		d := declOf[fn]
		x := exOf[fn]
		for _, cs := range c.Calls(d) {
			if cs.Callee == nil || cs.Callee.Pkg() != p.Types {
				continue
			}
			callee := cs.Callee.Name()
			if callee == fn || !hasStateDeep(callee, rowsOf, declOf, c, p.Types, map[string]bool{}) {
				continue
			}
			_ = hasState
			cd := declOf[callee]
			if cd == nil {
				continue
			}
			sub := map[string]affine{}
			pi := 0
			for _, fl := range cd.Type.Params.List {
				for _, nm := range fl.Names {
					if pi < len(cs.Call.Args) {
						if b, ok := p.TypesInfo.TypeOf(cs.Call.Args[pi]).Underlying().(*types.Basic); ok && b.Info()&types.IsInteger != 0 {
							sub[nm.Name] = newAffEval(x.Canon(cs.Call.Args[pi]), env, lets).expr()
						}
					}
					pi++
				}
			}
			visit(callee, sub, chain+">"+callee+"("+affEnvStr(sub)+")", depth+1)
		}
	}
	for _, r := range roots {
		if declOf[r] == nil {
			problems = append(problems, "root function "+r+" not found")
			continue
		}
		visit(r, map[string]affine{}, r, 0)
	}
	return out, problems
}

func hasStateDeep(fn string, rowsOf map[string][]gee.Row, declOf map[string]*ast.FuncDecl, c *core.Ctx, pkg *types.Package, seen map[string]bool) bool {
	if seen[fn] {
		return false
	}
	seen[fn] = true
	for _, r := range rowsOf[fn] {
		if r.Kind == "emit" && stateTmplRe.MatchString(r.Tmpl) {
			return true
		}
	}
	d := declOf[fn]
	if d == nil {
		return false
	}
	for _, cs := range c.Calls(d) {
		if cs.Callee != nil && cs.Callee.Pkg() == pkg && hasStateDeep(cs.Callee.Name(), rowsOf, declOf, c, pkg, seen) {
			return true
		}
	}
	return false
}

func affEnvStr(env map[string]affine) string {
	var ks []string
	for k := range env {
		ks = append(ks, k)
	}
	sort.Strings(ks)
	var parts []string
	for _, k := range ks {
		parts = append(parts, k+"="+env[k].String())
	}
	return strings.Join(parts, ",")
}

// normGuards keeps the guards that distinguish state-machine rows: stream/non-stream,
// batch overload, previous-step conditions, loop membership.
func normGuards(gs []string, loops []string) []string {
	var out []string
	for _, l := range loops {
		if strings.HasSuffix(l, ".Sequence") {
			out = append(out, "each step")
		}
	}
	for _, g := range gs {
		g = strings.ReplaceAll(g, "dsl.", "")
		out = append(out, g)
	}
	return out
}

func ruleStateMachine(c *core.Ctx) {
	const rule = "S1"
	c.Rule(rule, "every emitted state number of the generated writers/readers (C++, Python, MATLAB), reduced to an affine form over the step index i and the step count n, equals the reference state machine (refs/statemachine.json): guard G(i), advance to G(i+1) after a completed step, G(i)+1 inside/after an unobserved stream (stride 2), Close compares with G(n)", 40)
	type refRow struct {
		Chain  string   `json:"chain"`
		Guards []string `json:"guards"`
		Tmpl   string   `json:"tmpl"`
		Forms  []string `json:"forms"`
	}
	ref := map[string][]refRow{}
	var raw map[string]json.RawMessage
	if err := loadRef("statemachine.json", &raw); err != nil {
		c.Undecided(rule, "refs/statemachine.json", 0, "cannot load reference: "+err.Error())
	}
	for k, v := range raw {
		if strings.HasPrefix(k, "_") {
			continue
		}
		var rows []refRow
		if err := json.Unmarshal(v, &rows); err != nil {
			c.Undecided(rule, "refs/statemachine.json/"+k, 0, "malformed reference: "+err.Error())
		}
		ref[k] = rows
	}
	all := map[string][]stateRow{}
	for _, b := range smBackends {
		rows, problems := extractStateRows(c, b.name, b.pkg, b.roots)
		all[b.name] = rows
		for _, pr := range problems {
			c.Undecided(rule, b.name+"/extract", 0, pr)
		}
		want := map[string]int{}
		desc := map[string]string{}
		for _, r := range ref[b.name] {
			k := r.Chain + " | " + strings.Join(r.Guards, " ∧ ") + " | " + r.Tmpl + " | " + strings.Join(r.Forms, ",")
			want[k]++
		}
		got := map[string]int{}
		for _, r := range rows {
			k := r.Chain + " | " + strings.Join(r.Guards, " ∧ ") + " | " + r.Tmpl + " | " + strings.Join(r.Forms, ",")
			got[k]++
			desc[k] = r.pos.PosStr
			key := fmt.Sprintf("%s/%s/%s [%s]", b.name, r.Chain, r.Tmpl, strings.Join(r.Guards, " ∧ "))
			if got[k] <= want[k] {
				c.OK(rule, key, r.pos.Pos, "state numbers "+strings.Join(r.Forms, ",")+" as in the reference state machine")
			} else {
				// find the nearest reference row with same chain+tmpl to explain
				near := ""
				for _, rr := range ref[b.name] {
					if rr.Tmpl == r.Tmpl && rr.Chain == r.Chain {
						near = fmt.Sprintf(" (reference has forms %s under [%s])", strings.Join(rr.Forms, ","), strings.Join(rr.Guards, " ∧ "))
					}
				}
				c.Bad(rule, key, r.pos.Pos, "emission of state numbers "+strings.Join(r.Forms, ",")+" under these guards is not in the reference state machine"+near+": an illegal call sequence is accepted or a legal one rejected for some protocol shape")
			}
		}
		for k, n := range want {
			if got[k] < n {
				c.Bad(rule, b.name+"/missing/"+k, 0, "the reference state machine has this emission but the generator no longer produces it")
			}
		}
	}
	c.Tables["state_machine"] = all
}
