package rules

// Rules about alternative spellings of one model (C13).
//
//  Q1  the primitive alias table equals the documented one (refs/aliases.json)
//  Q2  resolveType erases the spelling: SimpleType.Name is overwritten with the qualified
//      name of the resolved definition on every successful path
//  Q3  shorthand/expanded constructor twins: every field the type parser produces is
//      consumed by convertType/applyTypeTail; both constructors write the same fields of
//      the dimensionality structs; `T?` puts the null case first
//  Q4  normalizeComment keeps only the trailing run of '#' lines
//  Q5  the tag dispatch of UnmarshalTypeYAML / UnmarshalTypeDefinition covers the documented tags

import (
	"fmt"
	"go/ast"
	"go/constant"
	"go/token"
	"go/types"
	"sort"
	"strings"

	"verif/checker/internal/core"
)

// Q1
func ruleAliasTable(c *core.Ctx) {
	const rule = "Q1"
	c.Rule(rule, "the primitive name table built by the primitiveTypes initialiser maps each of the 18 primitives to itself and each documented alias to its documented primitive (refs/aliases.json), and nothing else", 27)
	var ref struct {
		Aliases map[string]string `json:"aliases"`
	}
	if err := loadRef("aliases.json", &ref); err != nil {
		c.Undecided(rule, "refs/aliases.json", 0, "cannot load reference table: "+err.Error())
		return
	}
	p := c.Pkg("pkg/dsl")
	var call *ast.CallExpr
	var lit *ast.FuncLit
	for _, f := range p.Syntax {
		for _, d := range f.Decls {
			gd, ok := d.(*ast.GenDecl)
			if !ok || gd.Tok != token.VAR {
				continue
			}
			for _, s := range gd.Specs {
				vs := s.(*ast.ValueSpec)
				for i, n := range vs.Names {
					if n.Name == "primitiveTypes" && i < len(vs.Values) {
						if ce, ok := vs.Values[i].(*ast.CallExpr); ok {
							call = ce
							lit, _ = ce.Fun.(*ast.FuncLit)
						}
					}
				}
			}
		}
	}
	if call == nil || lit == nil {
		c.Undecided(rule, "anchor/primitiveTypes", 0, "primitiveTypes is no longer an immediately-invoked initialiser over literal names")
		return
	}
	// the initialiser must split on "=": a name without "=" maps to itself
	splits := false
	ast.Inspect(lit.Body, func(n ast.Node) bool {
		if ce, ok := n.(*ast.CallExpr); ok {
			if f := core.Callee(p.TypesInfo, ce); f != nil && core.FullName(f) == "strings.Split" && len(ce.Args) == 2 {
				if tv := p.TypesInfo.Types[ce.Args[1]]; tv.Value != nil && constant.StringVal(tv.Value) == "=" {
					splits = true
				}
			}
		}
		return true
	})
	if !splits {
		c.Undecided(rule, "anchor/primitiveTypes/split", lit.Pos(), "initialiser does not split its arguments on \"=\"; table cannot be evaluated")
		return
	}
	table := map[string]string{}
	for _, a := range call.Args {
		tv := p.TypesInfo.Types[a]
		if tv.Value == nil || tv.Value.Kind() != constant.String {
			c.Undecided(rule, "arg/"+types.ExprString(a), a.Pos(), "argument is not a constant string")
			continue
		}
		v := constant.StringVal(tv.Value)
		k, t := v, v
		if i := strings.Index(v, "="); i >= 0 {
			k, t = v[:i], v[i+1:]
		}
		if old, dup := table[k]; dup {
			c.Bad(rule, "name/"+k, a.Pos(), fmt.Sprintf("%q is listed twice (%s, %s)", k, old, t))
			continue
		}
		table[k] = t
	}
	c.Tables["primitive_names"] = table
	want := map[string]string{}
	for _, pr := range primitives18 {
		want[pr] = pr
	}
	for a, t := range ref.Aliases {
		want[a] = t
	}
	var names []string
	for k := range want {
		names = append(names, k)
	}
	for k := range table {
		if _, ok := want[k]; !ok {
			names = append(names, k)
		}
	}
	sort.Strings(names)
	for _, k := range names {
		got, has := table[k]
		w, wanted := want[k]
		switch {
		case !has:
			c.Bad(rule, "name/"+k, call.Pos(), fmt.Sprintf("documented name %q (= %s) is not in the table: a model spelled with it is rejected while the canonical spelling is accepted", k, w))
		case !wanted:
			c.Bad(rule, "name/"+k, call.Pos(), fmt.Sprintf("undocumented primitive name %q (= %s)", k, got))
		case got != w:
			c.Bad(rule, "name/"+k, call.Pos(), fmt.Sprintf("%q maps to %s, documented as %s: the two spellings denote different wire types", k, got, w))
		default:
			c.OK(rule, "name/"+k, call.Pos(), k+" = "+got)
		}
	}
}

// Q2
func ruleSpellingErased(c *core.Ctx) {
	const rule = "Q2"
	c.Rule(rule, "resolveType overwrites SimpleType.Name with the qualified name of the resolved definition before any successful return, and looks primitive names up in primitiveTypes: after resolution nothing marshalled or emitted holds the user's spelling (alias or unqualified name)", 3)
	_, d, p := c.Func("pkg/dsl", "resolveType")
	if d == nil {
		c.Undecided(rule, "anchor/resolveType", 0, "not found")
		return
	}
	info := p.TypesInfo
	var assign *ast.AssignStmt
	for _, s := range d.Body.List {
		if as, ok := s.(*ast.AssignStmt); ok && len(as.Lhs) == 1 && len(as.Rhs) == 1 {
			if se, ok := as.Lhs[0].(*ast.SelectorExpr); ok {
				if k, ok := fieldOf(info, se); ok && k.typ == "SimpleType" && k.field == "Name" {
					assign = as
				}
			}
		}
	}
	if assign == nil {
		c.Bad(rule, "pkg/dsl.resolveType/Name canonicalised", d.Pos(), "SimpleType.Name is not overwritten at the top level of resolveType: `int` and `int32`, `Foo` and `Ns.Foo` stay distinguishable in the schema JSON and in TypeToShortSyntax output")
		return
	}
	rhs := types.ExprString(assign.Rhs[0])
	c.Check(strings.Contains(rhs, "GetQualifiedName"), rule, "pkg/dsl.resolveType/Name canonicalised", assign.Pos(), "Name = "+rhs, "Name is assigned "+rhs+", not the qualified name of the resolved definition")
	// every return before the assignment returns a non-nil error
	early := true
	ast.Inspect(d.Body, func(n ast.Node) bool {
		if r, ok := n.(*ast.ReturnStmt); ok && r.Pos() < assign.Pos() {
			if len(r.Results) != 1 {
				early = false
			} else if tv, ok := info.Types[r.Results[0]]; ok && tv.IsNil() {
				early = false
			}
		}
		return true
	})
	c.Check(early, rule, "pkg/dsl.resolveType/no success return before", assign.Pos(), "only error returns precede the assignment", "a successful return precedes the assignment: some resolved types keep their spelling")
	// primitive lookup goes through primitiveTypes
	_, rd, _ := c.Func("pkg/dsl", "resolveTypeByName")
	uses := false
	if rd != nil {
		ast.Inspect(rd.Body, func(n ast.Node) bool {
			if ix, ok := n.(*ast.IndexExpr); ok {
				if id, ok := ix.X.(*ast.Ident); ok && id.Name == "primitiveTypes" {
					uses = true
				}
			}
			return true
		})
	}
	c.Check(uses, rule, "pkg/dsl.resolveTypeByName/primitive table", d.Pos(), "primitive names are looked up in primitiveTypes", "resolveTypeByName does not consult primitiveTypes")
}

// Q3
var parserStructsConsumed = []string{"Type", "TypeName", "TypeTail", "Vector", "Array", "ArrayDimension"}

// fields of the dsl structs that only the expanded syntax can set (no shorthand exists), with the reason
var expandedOnlyFields = map[fieldKey]string{
	{"ArrayDimension", "Comment"}: "documentation comment of a dimension: comments cannot be attached inside a one-line type string",
	{"TypeCase", "Tag"}:           "explicit union tags exist only in the !union syntax",
	{"TypeCase", "ExplicitTag"}:   "explicit union tags exist only in the !union syntax",
}

func ruleShorthandTwins(c *core.Ctx) {
	const rule = "Q3"
	c.Rule(rule, "shorthand and expanded type syntax build the same tree: convertType/applyTypeTail read every field the type parser fills; for Vector, Map, Array, ArrayDimension, GeneralizedType and TypeCase the shorthand constructors and the Unmarshal*YAML constructors write the same set of fields; the optional tail prepends the null case", 30)
	p := c.Pkg("pkg/dsl")
	pp := c.Pkg("pkg/dsl/parser")
	if p == nil || pp == nil {
		c.Undecided(rule, "anchor/packages", 0, "pkg/dsl or pkg/dsl/parser not loaded")
		return
	}
	info := p.TypesInfo
	short := map[string]bool{"convertType": true, "applyTypeTail": true}
	expanded := map[string]bool{"UnmarshalVectorYAML": true, "UnmarshalArrayYAML": true, "UnmarshalMapYAML": true, "UnmarshalStreamYAML": true,
		"UnmarshalTypeCases": true, "UnmarshalTypeYAML": true, "UnmarshalUnionYAML": true, "UnmarshalGenericNode": true, "UnmarshalYAML": true}
	parserReads := map[fieldKey]bool{}
	written := map[bool]map[fieldKey]token.Pos{true: {}, false: {}}
	nShort := 0
	for _, d := range c.AllDecls() {
		if c.DeclPkg(d) != p || !strings.HasSuffix(c.Fset.Position(d.Pos()).Filename, "/yaml.go") {
			continue
		}
		isShort := short[d.Name.Name] && d.Recv == nil
		isExp := expanded[d.Name.Name]
		if d.Name.Name == "UnmarshalYAML" {
			isExp = d.Recv != nil && strings.Contains(types.ExprString(d.Recv.List[0].Type), "ArrayDimension")
		}
		if !isShort && !isExp {
			continue
		}
		if isShort {
			nShort++
		}
		ast.Inspect(d.Body, func(n ast.Node) bool {
			switch x := n.(type) {
			case *ast.SelectorExpr:
				if s, ok := info.Selections[x]; ok && s.Kind() == types.FieldVal && isShort {
					if v := s.Obj().(*types.Var); v.Pkg() == pp.Types {
						if k, ok := fieldOf(info, x); ok {
							parserReads[k] = true
						}
					}
				}
			case *ast.CompositeLit:
				n := core.NamedOf(info.TypeOf(x))
				if n == nil || n.Obj().Pkg() != p.Types {
					return true
				}
				if _, ok := n.Underlying().(*types.Struct); !ok {
					return true
				}
				for _, e := range x.Elts {
					if kv, ok := e.(*ast.KeyValueExpr); ok {
						if id, ok := kv.Key.(*ast.Ident); ok {
							written[isShort][fieldKey{n.Obj().Name(), id.Name}] = kv.Pos()
						}
					}
				}
			case *ast.AssignStmt:
				for _, l := range x.Lhs {
					if se, ok := l.(*ast.SelectorExpr); ok {
						if k, ok := fieldOf(info, se); ok {
							written[isShort][k] = se.Pos()
						}
					}
				}
			}
			return true
		})
	}
	if nShort != 2 {
		c.Undecided(rule, "anchor/convertType+applyTypeTail", 0, fmt.Sprintf("found %d of the 2 shorthand constructors in pkg/dsl/yaml.go", nShort))
		return
	}
	// (a) parser fields consumed
	for _, sn := range parserStructsConsumed {
		tn, _ := pp.Types.Scope().Lookup(sn).(*types.TypeName)
		if tn == nil {
			c.Undecided(rule, "parser/"+sn, 0, "parser struct not found")
			continue
		}
		st, _ := tn.Type().Underlying().(*types.Struct)
		if st == nil {
			continue
		}
		for i := 0; i < st.NumFields(); i++ {
			f := st.Field(i)
			// grammar fields carry a parser tag; ArrayDimension has a hand-written Parse and no tags
			if !f.Exported() || f.Name() == "Pos" || (sn != "ArrayDimension" && !strings.Contains(st.Tag(i), "parser:")) {
				continue
			}
			k := fieldKey{sn, f.Name()}
			c.Check(parserReads[k], rule, "parser field read/"+sn+"."+f.Name(), f.Pos(), "read by convertType/applyTypeTail",
				fmt.Sprintf("the type parser fills %s.%s but the shorthand constructors never read it: that part of a type string is dropped while the expanded syntax keeps it", sn, f.Name()))
		}
	}
	// (b) written field sets agree
	twinTypes := []string{"Vector", "Map", "Array", "ArrayDimension", "GeneralizedType", "TypeCase", "SimpleType"}
	for _, tn := range twinTypes {
		fields := map[string]bool{}
		for k := range written[true] {
			if k.typ == tn {
				fields[k.field] = true
			}
		}
		for k := range written[false] {
			if k.typ == tn {
				fields[k.field] = true
			}
		}
		var fs []string
		for f := range fields {
			fs = append(fs, f)
		}
		sort.Strings(fs)
		for _, f := range fs {
			k := fieldKey{tn, f}
			ps, inShort := written[true][k]
			pe, inExp := written[false][k]
			key := "twin/" + tn + "." + f
			switch {
			case inShort && inExp:
				c.OK(rule, key, ps, "written by both constructors")
			case inExp:
				if why, ok := expandedOnlyFields[k]; ok {
					c.OK(rule, key, pe, "expanded syntax only: "+why)
				} else {
					c.Bad(rule, key, pe, fmt.Sprintf("%s.%s is set by the expanded syntax but never by convertType/applyTypeTail: the shorthand spelling of the same type builds a different tree", tn, f))
				}
			default:
				c.Bad(rule, key, ps, fmt.Sprintf("%s.%s is set by the shorthand constructors but never by the Unmarshal*YAML constructors", tn, f))
			}
		}
	}
	// (c) optional tail puts the null case first
	_, ad, _ := c.Func("pkg/dsl", "applyTypeTail")
	found := false
	// isNullCase: a TypeCase literal (or &literal) without a Type, possibly through an explaining local
	var isNullCase func(e ast.Expr) bool
	isNullCase = func(e ast.Expr) bool {
		e = ast.Unparen(core.InlineLocals(info, ad.Body, e))
		for {
			if pe, ok := e.(*ast.ParenExpr); ok {
				e = pe.X
				continue
			}
			break
		}
		if u, ok := e.(*ast.UnaryExpr); ok && u.Op == token.AND {
			e = ast.Unparen(u.X)
		}
		cl, ok := e.(*ast.CompositeLit)
		if !ok {
			return false
		}
		if nt := core.NamedOf(info.TypeOf(cl)); nt == nil || nt.Obj().Name() != "TypeCase" {
			return false
		}
		for _, el := range cl.Elts {
			if kv, ok := el.(*ast.KeyValueExpr); ok && types.ExprString(kv.Key) == "Type" {
				return false
			}
		}
		return true
	}
	checkAssign := func(as *ast.AssignStmt) {
		if len(as.Rhs) != 1 || len(as.Lhs) != 1 {
			return
		}
		if se, ok := as.Lhs[0].(*ast.SelectorExpr); !ok || se.Sel.Name != "Cases" {
			return
		}
		rhs := ast.Unparen(as.Rhs[0])
		nullFirst := false
		switch x := rhs.(type) {
		case *ast.CallExpr: // append(TypeCases{null}, cases...)
			if types.ExprString(x.Fun) == "append" && len(x.Args) == 2 && x.Ellipsis.IsValid() {
				if first, ok := x.Args[0].(*ast.CompositeLit); ok && len(first.Elts) == 1 {
					nullFirst = isNullCase(first.Elts[0])
				}
			}
		case *ast.CompositeLit: // TypeCases{null, inner}
			if len(x.Elts) == 2 {
				nullFirst = isNullCase(x.Elts[0]) && !isNullCase(x.Elts[1])
			}
		}
		found = true
		c.Check(nullFirst, rule, "applyTypeTail/optional: null case first", as.Pos(), "Cases = [null case, T]", "`T?` does not build [null, T] (null case first), which is what the expanded spelling and every back end expect")
	}
	isOptionalCond := func(e ast.Expr) bool { return strings.HasSuffix(types.ExprString(ast.Unparen(e)), ".Optional") }
	ast.Inspect(ad.Body, func(n ast.Node) bool {
		switch x := n.(type) {
		case *ast.IfStmt:
			if isOptionalCond(x.Cond) {
				for _, s := range x.Body.List {
					if as, ok := s.(*ast.AssignStmt); ok {
						checkAssign(as)
					}
				}
			}
		case *ast.CaseClause: // tagless switch { case tail.Optional: ... }
			if len(x.List) == 1 && isOptionalCond(x.List[0]) {
				for _, s := range x.Body {
					if as, ok := s.(*ast.AssignStmt); ok {
						checkAssign(as)
					}
				}
			}
		}
		return true
	})
	if !found {
		c.Undecided(rule, "applyTypeTail/optional: null case first", ad.Pos(), "optional branch not recognised")
	}
}

// Q4
func ruleDocCommentSuffix(c *core.Ctx) {
	const rule = "Q4"
	c.Rule(rule, "normalizeComment keeps exactly the trailing run of '#' lines of a head comment (the block attached to the element): the cut is found scanning backwards from the last line and everything up to and including the last non-'#' line is dropped, so free-standing comment blocks above never reach generated code", 2)
	_, d, p := c.Func("pkg/dsl", "normalizeComment")
	if d == nil {
		c.Undecided(rule, "anchor/normalizeComment", 0, "not found")
		return
	}
	info := p.TypesInfo
	key := "pkg/dsl.normalizeComment/trailing block"
	// A backward scan: an integer variable v that is only ever decremented, starting at len(lines)-1-c0,
	// with the '#'-prefix test applied to lines[v+c0] deciding whether the scan goes on, and the result
	// being lines[v+c0+1:] — the maximal run of '#' lines at the end. (c0 = 0 for `i := len-1 … lines[i]
	// … lines[i+1:]`, c0 = -1 for `k := len … lines[k-1] … lines[k:]`.)
	type scan struct {
		v    types.Object
		c0   int
		loop ast.Stmt
	}
	var scans []scan
	offsetOf := func(e ast.Expr) (types.Object, int, bool) { // ident, ident+k, ident-k
		e = ast.Unparen(e)
		if id, ok := e.(*ast.Ident); ok {
			return info.Uses[id], 0, info.Uses[id] != nil
		}
		if be, ok := e.(*ast.BinaryExpr); ok && (be.Op == token.ADD || be.Op == token.SUB) {
			if id, ok := ast.Unparen(be.X).(*ast.Ident); ok {
				if k, isK := constInt(info, be.Y); isK {
					if be.Op == token.SUB {
						k = -k
					}
					return info.Uses[id], k, info.Uses[id] != nil
				}
			}
		}
		return nil, 0, false
	}
	prefixTestIndex := func(n ast.Node) (types.Object, int, bool) { // HasPrefix(lines[v+c0], "#") inside n
		var ro types.Object
		rc, found := 0, false
		ast.Inspect(n, func(m ast.Node) bool {
			if y, ok := m.(*ast.CallExpr); ok {
				if f := core.Callee(info, y); f != nil && core.FullName(f) == "strings.HasPrefix" && len(y.Args) == 2 {
					if tv := info.Types[y.Args[1]]; tv.Value != nil && constant.StringVal(tv.Value) == "#" {
						if ix, ok := ast.Unparen(y.Args[0]).(*ast.IndexExpr); ok {
							if o, k, ok := offsetOf(ix.Index); ok {
								ro, rc, found = o, k, true
							}
						}
					}
				}
			}
			return true
		})
		return ro, rc, found
	}
	ast.Inspect(d.Body, func(n ast.Node) bool {
		fs, ok := n.(*ast.ForStmt)
		if !ok {
			return true
		}
		// the '#' test: in the loop condition (scan while it holds) or in the body with a break
		var o types.Object
		c0 := 0
		found := false
		if fs.Cond != nil {
			o, c0, found = prefixTestIndex(fs.Cond)
		}
		if !found {
			hasBreak := false
			ast.Inspect(fs.Body, func(m ast.Node) bool {
				if b, ok := m.(*ast.BranchStmt); ok && b.Tok == token.BREAK {
					hasBreak = true
				}
				return true
			})
			if hasBreak {
				o, c0, found = prefixTestIndex(fs.Body)
			}
		}
		if !found {
			return true
		}
		scans = append(scans, scan{o, c0, fs})
		return true
	})
	// a range loop with the test is a forward scan
	forward := false
	ast.Inspect(d.Body, func(n ast.Node) bool {
		if rs, ok := n.(*ast.RangeStmt); ok {
			hasBreak := false
			ast.Inspect(rs.Body, func(m ast.Node) bool {
				if b, ok := m.(*ast.BranchStmt); ok && b.Tok == token.BREAK {
					hasBreak = true
				}
				return true
			})
			if _, _, found := prefixTestIndex(rs.Body); found && hasBreak {
				forward = true
			}
			if id, ok := rs.Value.(*ast.Ident); ok && hasBreak { // HasPrefix(line, "#") on the range value
				ast.Inspect(rs.Body, func(m ast.Node) bool {
					if y, ok := m.(*ast.CallExpr); ok && len(y.Args) == 2 {
						if f := core.Callee(info, y); f != nil && core.FullName(f) == "strings.HasPrefix" && identObj(info, y.Args[0]) == info.Defs[id] {
							forward = true
						}
					}
					return true
				})
			}
		}
		return true
	})
	if forward {
		c.Bad(rule, key, d.Pos(), "the scan for the first non-'#' line runs forwards: with two or more blank-line-separated comment blocks the free-standing ones are kept as documentation (models that differ only in such comments generate different code)")
		return
	}
	if len(scans) != 1 {
		c.Undecided(rule, key, d.Pos(), "no single loop that scans for the '#' prefix found: shape not recognised")
		return
	}
	sc := scans[0]
	// v only decreases: its writes are the initialisation, v-- / v -= k / v = v - k
	decOnly, initOK := true, false
	ast.Inspect(d.Body, func(n ast.Node) bool {
		switch x := n.(type) {
		case *ast.IncDecStmt:
			if identObj(info, x.X) == sc.v && x.Tok != token.DEC {
				decOnly = false
			}
		case *ast.AssignStmt:
			for i, l := range x.Lhs {
				if identObj(info, l) != sc.v {
					continue
				}
				if x.Tok == token.DEFINE || (x.Tok == token.ASSIGN && x.Pos() < sc.loop.Pos()) {
					// initial value len(lines) - 1 - c0
					if i < len(x.Rhs) {
						rhs := ast.Unparen(x.Rhs[i])
						base, k := rhs, 0
						if be, ok := rhs.(*ast.BinaryExpr); ok && be.Op == token.SUB {
							if kk, isK := constInt(info, be.Y); isK {
								base, k = ast.Unparen(be.X), kk
							}
						}
						if strings.HasPrefix(types.ExprString(base), "len(") && k == 1+sc.c0 {
							initOK = true
						}
					}
					continue
				}
				if x.Tok != token.SUB_ASSIGN {
					decOnly = false
				}
			}
		}
		return true
	})
	// the slice after the loop: lines[v + c0 + 1 :]
	sliced := false
	ast.Inspect(d.Body, func(n ast.Node) bool {
		if se, ok := n.(*ast.SliceExpr); ok && se.Pos() > sc.loop.End() && se.High == nil && se.Low != nil {
			if o, k, ok := offsetOf(se.Low); ok && o == sc.v && k == sc.c0+1 {
				sliced = true
			}
		}
		return true
	})
	c.Check(decOnly && initOK && sliced, rule, key, sc.loop.Pos(), "backward scan from the last line; the result starts right after the last line that is not a '#' line",
		"the scan does not start at the last line, does not only move backwards, or the result does not start right behind the line the scan stopped at")
	// every producer of a Comment field passes through normalizeComment
	n := 0
	for _, fd := range c.AllDecls() {
		if c.DeclPkg(fd) != p || c.IsTestFile(fd.Pos()) {
			continue
		}
		ast.Inspect(fd.Body, func(x ast.Node) bool {
			check := func(field string, val ast.Expr, pos token.Pos) {
				if field != "Comment" {
					return
				}
				if !strings.Contains(types.ExprString(val), "Comment") { // copies of HeadComment/LineComment only
					return
				}
				if !strings.Contains(types.ExprString(val), "HeadComment") && !strings.Contains(types.ExprString(val), "LineComment") && !strings.Contains(types.ExprString(val), "FootComment") {
					return
				}
				n++
				ok := false
				if call, isCall := val.(*ast.CallExpr); isCall {
					if f := core.Callee(info, call); f != nil && f.Name() == "normalizeComment" {
						ok = true
					}
				}
				c.Check(ok, rule, c.FuncName(fd)+"/Comment from yaml comment", pos, "through normalizeComment", "a yaml comment is stored as documentation without normalizeComment")
			}
			switch y := x.(type) {
			case *ast.KeyValueExpr:
				if id, ok := y.Key.(*ast.Ident); ok {
					check(id.Name, y.Value, y.Pos())
				}
			case *ast.AssignStmt:
				if len(y.Lhs) == 1 && len(y.Rhs) == 1 {
					if se, ok := y.Lhs[0].(*ast.SelectorExpr); ok {
						check(se.Sel.Name, y.Rhs[0], y.Pos())
					}
				}
			}
			return true
		})
	}
	c.Stats["comment_producers"] = n
}

// Q5
func ruleTypeTags(c *core.Ctx) {
	const rule = "Q5"
	c.Rule(rule, "the yaml tag dispatch of UnmarshalTypeYAML and UnmarshalTypeDefinition has a case for every documented type tag (refs/aliases.json: type_tags, definition_tags): each expanded spelling that the documentation pairs with a shorthand is accepted", 12)
	var ref struct {
		TypeTags       []string `json:"type_tags"`
		DefinitionTags []string `json:"definition_tags"`
	}
	if err := loadRef("aliases.json", &ref); err != nil {
		c.Undecided(rule, "refs/aliases.json", 0, "cannot load reference table: "+err.Error())
		return
	}
	for _, it := range []struct {
		fn   string
		tags []string
	}{{"UnmarshalTypeYAML", ref.TypeTags}, {"UnmarshalTypeDefinition", ref.DefinitionTags}} {
		_, d, p := c.Func("pkg/dsl", it.fn)
		if d == nil {
			c.Undecided(rule, "anchor/"+it.fn, 0, "not found")
			continue
		}
		have := map[string]bool{}
		for tag := range tagActions(c, p, d) { // switch cases, if-chains, predicates, lookups and tables alike
			have[tag] = true
		}
		for _, t := range it.tags {
			c.Check(have[t], rule, it.fn+"/"+t, d.Pos(), "has a case", fmt.Sprintf("no case for the documented tag %s", t))
		}
	}
}
