package rules

import (
	"encoding/json"
	"fmt"
	"go/ast"
	"go/token"
	"go/types"
	"os"
	"path/filepath"
	"regexp"
	"sort"
	"strconv"
	"strings"

	"verif/checker/internal/core"
	"verif/checker/internal/gee"
)

var kindBits = []string{"null", "boolean", "number", "string", "array", "object"}

func decodeKinds(mask int) []string {
	var out []string
	for i, k := range kindBits {
		if mask&(1<<i) != 0 {
			out = append(out, k)
		}
	}
	return out
}

func verifRoot() string {
	exe, err := os.Executable()
	if err == nil {
		// <verif>/checker/bin/yardlcheck
		return filepath.Dir(filepath.Dir(filepath.Dir(exe)))
	}
	return "/verif"
}

func loadRef(name string, v any) error {
	b, err := os.ReadFile(filepath.Join(verifRoot(), "refs", name))
	if err != nil {
		return err
	}
	return json.Unmarshal(b, v)
}

// J1: the JSON-kind table of ndjsoncommon.GetJsonDataType covers every primitive and
// definition kind and contains, for each, at least the kinds the documented mapping
// (refs/jsonkinds.json) writes. A missing kind makes an ambiguous union go untagged.
func ruleJsonKinds(c *core.Ctx) {
	const rule = "J1"
	c.Rule(rule, "ndjsoncommon.GetJsonDataType assigns every primitive / definition kind / container at least the JSON kinds the documented mapping writes (otherwise a union whose cases share a JSON kind is written untagged and read back as the wrong case)", 25)
	var ref struct {
		Primitives  map[string][]string `json:"primitives"`
		Definitions map[string][]string `json:"definitions"`
		Containers  map[string][]string `json:"containers"`
	}
	if err := loadRef("jsonkinds.json", &ref); err != nil {
		c.Undecided(rule, "refs/jsonkinds.json", 0, "cannot load reference table: "+err.Error())
		return
	}
	_, d, p := c.Func("internal/ndjsoncommon", "GetJsonDataType")
	if d == nil {
		c.Undecided(rule, "anchor/GetJsonDataType", 0, "anchor function not found")
		return
	}
	// the six kind constants have the expected bit positions
	sc := p.Types.Scope()
	for i, n := range []string{"JsonNull", "JsonBoolean", "JsonNumber", "JsonString", "JsonArray", "JsonObject"} {
		k, _ := sc.Lookup(n).(*types.Const)
		ok := k != nil && k.Val().ExactString() == strconv.Itoa(1<<i)
		c.Check(ok, rule, "const/"+n, d.Pos(), "kind bit "+strconv.Itoa(1<<i), "JSON kind constant missing or renumbered")
	}
	x := &gee.Extractor{Info: p.TypesInfo, Fset: c.Fset, AllReturns: true}
	rows := x.Extract("GetJsonDataType", d)
	got := map[string][]string{}
	tbl := map[string]string{}
	// the table is evaluated for each type shape: the atoms of the function's guards get the values
	// that describe the shape, and the return rows whose guards hold give the kinds
	const dimAtom = "type(ToGeneralizedType(Type).Dimensionality)"
	const defAtom = "type(SimpleType.ResolvedDefinition)"
	const keyOk = "GetPrimitiveType(Map.KeyType)#ok"
	const keyIsString = "PrimitiveDefinition == \"string\""
	scalar := func(extra map[string]string) map[string]string {
		m := map[string]string{"Type != nil": "true", dimAtom: "nil", "len(ToGeneralizedType(Type).Cases) > 1": "false"}
		for k, v := range extra {
			m[k] = v
		}
		return m
	}
	type shape struct {
		key string
		asg map[string]string
	}
	shapes := []shape{
		{"cont:null", map[string]string{"Type != nil": "false"}},
		{"cont:vector", map[string]string{"Type != nil": "true", dimAtom: "Vector"}},
		{"cont:array,fixed", map[string]string{"Type != nil": "true", dimAtom: "Array", "Array.IsFixed()": "true"}},
		{"cont:array,!fixed", map[string]string{"Type != nil": "true", dimAtom: "Array", "Array.IsFixed()": "false"}},
		{"cont:map,stringkey", map[string]string{"Type != nil": "true", dimAtom: "Map", keyOk: "true", keyIsString: "true"}},
		{"cont:map,otherkey", map[string]string{"Type != nil": "true", dimAtom: "Map", keyOk: "true", keyIsString: "false"}},
		{"cont:map,otherkey", map[string]string{"Type != nil": "true", dimAtom: "Map", keyOk: "false", keyIsString: "false"}},
		{"def:flags", scalar(map[string]string{defAtom: "EnumDefinition", "EnumDefinition.IsFlags": "true"})},
		{"def:enum", scalar(map[string]string{defAtom: "EnumDefinition", "EnumDefinition.IsFlags": "false"})},
		{"def:record", scalar(map[string]string{defAtom: "RecordDefinition"})},
	}
	for _, prim := range primitives18 {
		shapes = append(shapes, shape{"prim:" + prim, scalar(map[string]string{defAtom: "PrimitiveDefinition", "PrimitiveDefinition": prim})})
	}
	for _, sh := range shapes {
		mask := 0
		n := 0
		for _, r := range rows {
			if r.Kind != "return" || !strings.HasPrefix(r.Tmpl, "VAL:") {
				continue
			}
			// PrimitiveComplexFloat64 is the one primitive some switches spell by its variable
			gs := make([]string, len(r.Guards))
			for i, g := range r.Guards {
				gs[i] = strings.ReplaceAll(strings.ReplaceAll(g, "dsl.PrimitiveComplexFloat64", "\"complexfloat64\""), "PrimitiveComplexFloat64", "\"complexfloat64\"")
			}
			sat, unknown := guardSat(gs, sh.asg)
			if !sat {
				continue
			}
			vtxt := strings.TrimPrefix(r.Tmpl, "VAL:")
			m, err := strconv.Atoi(vtxt)
			if err != nil {
				if k, isConst := sc.Lookup(vtxt).(*types.Const); isConst {
					m, err = strconv.Atoi(k.Val().ExactString())
				}
			}
			if err != nil {
				continue // recursive call for aliases
			}
			if len(unknown) > 0 {
				c.Undecided(rule, "kinds/"+sh.key+"/condition", r.Pos, "the row for this type also depends on "+strings.Join(unknown, ", "))
			}
			mask |= m
			n++
		}
		if n == 0 {
			continue
		}
		kinds := decodeKinds(mask)
		if old, dup := got[sh.key]; dup {
			// two assignments of one shape (map with a non-primitive / a primitive non-string key): the kinds any of them yields
			kinds = uniq(append(append([]string(nil), old...), kinds...))
		}
		got[sh.key] = kinds
		tbl[sh.key] = strings.Join(kinds, "|")
	}
	// second engine: the function evaluated over the finite domain of type shapes (helper functions, literal lookup
	// tables and (value, ok) results followed); where it decides every shape its table is taken
	{
		tshapes := map[string][]tshape{
			"cont:null":          {{null: true}},
			"cont:vector":        {{dim: "Vector"}},
			"cont:array,fixed":   {{dim: "Array", fixed: true}},
			"cont:array,!fixed":  {{dim: "Array", fixed: false}},
			"cont:map,stringkey": {{dim: "Map", keyPrim: "string"}},
			"cont:map,otherkey":  {{dim: "Map", keyPrim: "int32"}, {dim: "Map", keyPrim: ""}},
			"def:flags":          {{def: "EnumDefinition", flags: true}},
			"def:enum":           {{def: "EnumDefinition", flags: false}},
			"def:record":         {{def: "RecordDefinition"}},
		}
		for _, prim := range primitives18 {
			tshapes["prim:"+prim] = []tshape{{def: "PrimitiveDefinition", prim: prim}}
		}
		got2 := map[string][]string{}
		allDecided := true
		whyNot := ""
		for key, shs := range tshapes {
			var mask int64
			for _, sh := range shs {
				m, decided, why := kindDecisions(c, p.TypesInfo, d, sh)
				if !decided {
					allDecided = false
					whyNot = key + ": " + why
				}
				mask |= m
			}
			if mask != 0 {
				got2[key] = decodeKinds(int(mask))
			}
		}
		if allDecided {
			c.Tables["J1_engine"] = "finite-domain evaluation"
			got = got2
			tbl = map[string]string{}
			for k, v := range got2 {
				tbl[k] = strings.Join(v, "|")
			}
		} else {
			c.Tables["J1_engine"] = "row extraction (finite-domain evaluation undecided: " + whyNot + ")"
		}
	}
	c.Tables["json_kind_table"] = tbl
	check := func(prefix string, want map[string][]string) {
		var names []string
		for n := range want {
			names = append(names, n)
		}
		sort.Strings(names)
		for _, n := range names {
			g, ok := got[prefix+n]
			key := "kinds/" + prefix + n
			if !ok {
				c.Bad(rule, key, d.Pos(), "GetJsonDataType has no row for this type; documented kinds: "+strings.Join(want[n], "|"))
				continue
			}
			var missing []string
			for _, k := range want[n] {
				found := false
				for _, h := range g {
					if h == k {
						found = true
					}
				}
				if !found {
					missing = append(missing, k)
				}
			}
			c.Check(len(missing) == 0, rule, key, d.Pos(), "table: "+strings.Join(g, "|")+" ⊇ documented "+strings.Join(want[n], "|"),
				fmt.Sprintf("table says %s but the documented mapping (and the runtimes) also write %s: a union of this type with a %s-kind case is written untagged and cannot be read back", strings.Join(g, "|"), strings.Join(missing, "|"), strings.Join(missing, "|")))
		}
	}
	check("prim:", ref.Primitives)
	check("def:", ref.Definitions)
	check("cont:", ref.Containers)
}

// J2: both NDJSON generators decide tagged/untagged from GetJsonDataType with the
// overlap test `this & seen != 0`, accumulating `seen |= this` afterwards.
func ruleUnionTagDecision(c *core.Ctx) {
	const rule = "J2"
	c.Rule(rule, "python/ndjson and cpp/ndjson decide whether a union is written untagged with the same procedure: kinds := GetJsonDataType(case); if kinds & seen != 0 → tagged; seen |= kinds (in case order)", 2)
	gj, _, _ := c.Func("internal/ndjsoncommon", "GetJsonDataType")
	for _, site := range [][2]string{{"internal/python/ndjson", "typeConverter"}, {"internal/cpp/ndjson", "writeUnionConverters"}} {
		sf, sd, p := c.Func(site[0], site[1])
		key := site[0] + "." + site[1]
		if sd == nil || gj == nil {
			c.Undecided(rule, "anchor/"+key, 0, "anchor function not found")
			continue
		}
		info := p.TypesInfo
		found := false
		// the procedure may live in the generator function itself or in a helper of the package it reaches
		reach := c.Reachable([]*types.Func{sf}, func(f *types.Func) bool { return f.Pkg() != p.Types })
		for f := range reach {
			if f.Pkg() != p.Types {
				continue
			}
			d := c.Decl(f)
			if d == nil {
				continue
			}
			ast.Inspect(d.Body, func(n ast.Node) bool {
				var body *ast.BlockStmt
				switch l := n.(type) {
				case *ast.RangeStmt:
					body = l.Body
				case *ast.ForStmt:
					body = l.Body
				default:
					return true
				}
				// this := GetJsonDataType(c.Type)
				var this types.Object
				ast.Inspect(body, func(m ast.Node) bool {
					if as, ok := m.(*ast.AssignStmt); ok && len(as.Rhs) == 1 && len(as.Lhs) == 1 {
						if ce, ok := as.Rhs[0].(*ast.CallExpr); ok {
							if f := core.Callee(info, ce); f != nil && f.Origin() == gj {
								this = identObj(info, as.Lhs[0])
							}
						}
					}
					return true
				})
				if this == nil {
					return true
				}
				var seen types.Object
				testOK, accAfter := false, false
				var testPos token.Pos
				// the overlap test `kinds & seen != 0` (or `== 0`), wherever it is evaluated: an if condition, an explaining
				// local, a conjunct of an accumulated flag (`distinct = distinct && kinds&seen == 0`)
				ast.Inspect(body, func(m ast.Node) bool {
					be, ok := m.(*ast.BinaryExpr)
					if !ok || (be.Op != token.NEQ && be.Op != token.EQL) || testOK {
						return true
					}
					var and *ast.BinaryExpr
					var zeroSide ast.Expr
					if a, ok := ast.Unparen(be.X).(*ast.BinaryExpr); ok && a.Op == token.AND {
						and, zeroSide = a, be.Y
					} else if a, ok := ast.Unparen(be.Y).(*ast.BinaryExpr); ok && a.Op == token.AND {
						and, zeroSide = a, be.X
					}
					if and == nil {
						return true
					}
					a, b := identObj(info, and.X), identObj(info, and.Y)
					zero, isZero := constInt(info, zeroSide)
					if isZero && zero == 0 && (a == this || b == this) && a != b {
						other := a
						if a == this {
							other = b
						}
						if v, ok := other.(*types.Var); ok && !strings.HasPrefix(v.Name(), "Json") && other.Pkg() == p.Types {
							seen = other
							testOK = true
							testPos = be.Pos()
						}
					}
					return true
				})
				for _, st := range flattenStmts(body.List) {
					switch s := st.(type) {
					case *ast.AssignStmt:
						if len(s.Lhs) == 1 && len(s.Rhs) == 1 && seen != nil && identObj(info, s.Lhs[0]) == seen {
							acc := false
							if s.Tok == token.OR_ASSIGN && identObj(info, s.Rhs[0]) == this {
								acc = true // seen |= kinds
							}
							if s.Tok == token.ASSIGN { // seen = seen | kinds (either operand order)
								if or, ok := ast.Unparen(s.Rhs[0]).(*ast.BinaryExpr); ok && or.Op == token.OR {
									a, b := identObj(info, or.X), identObj(info, or.Y)
									acc = (a == seen && b == this) || (a == this && b == seen)
								}
							}
							if acc && testOK && s.Pos() > testPos {
								accAfter = true
							}
						}
					}
				}
				if testOK {
					found = true
					c.Check(accAfter, rule, key+"/overlap test then accumulate", n.Pos(), "`kinds & seen != 0` is tested before `seen |= kinds`", "the overlap test is not followed by `seen |= kinds`: later cases are never compared with earlier ones")
				}
				return true
			})
		}
		c.Check(found, rule, key+"/overlap test", sd.Pos(), "decides tagged/untagged by `GetJsonDataType(case) & seen != 0`", "no `GetJsonDataType(case) & seen != 0` test found over the union cases: the tagged/untagged decision no longer follows the shared rule")
	}
}

// singleDefRHS returns the right-hand side of the only definition of a local in the block (an explaining
// local), or the identifier itself.
func singleDefRHS(info *types.Info, body ast.Node, id *ast.Ident) ast.Expr {
	obj := info.ObjectOf(id)
	var rhs ast.Expr
	n := 0
	ast.Inspect(body, func(m ast.Node) bool {
		if as, ok := m.(*ast.AssignStmt); ok && len(as.Lhs) == len(as.Rhs) {
			for i, l := range as.Lhs {
				if li, ok := l.(*ast.Ident); ok && info.ObjectOf(li) == obj {
					n++
					rhs = as.Rhs[i]
				}
			}
		}
		return true
	})
	if n == 1 && rhs != nil {
		return rhs
	}
	return id
}

func flattenStmts(list []ast.Stmt) []ast.Stmt {
	var out []ast.Stmt
	for _, s := range list {
		out = append(out, s)
		switch x := s.(type) {
		case *ast.IfStmt:
			if eb, ok := x.Else.(*ast.BlockStmt); ok {
				out = append(out, flattenStmts(eb.List)...)
			}
		case *ast.BlockStmt:
			out = append(out, flattenStmts(x.List)...)
		}
	}
	return out
}

// J3: the reader-side type tests enumerate the same six kinds: each `x & JsonK != 0`
// branch pairs the kind constant with the right target-language test.
// per generator package: JSON kind -> tokens of the reader-side test for that kind
var kindNames = map[string]map[string][]string{
	"internal/python/ndjson": {
		"JsonNull": {"None"}, "JsonBoolean": {"bool"}, "JsonNumber": {"int", "float"}, "JsonString": {"str"}, "JsonArray": {"list"}, "JsonObject": {"dict"},
	},
	"internal/cpp/ndjson": {
		"JsonNull": {"is_null"}, "JsonBoolean": {"is_boolean"}, "JsonNumber": {"is_number"}, "JsonString": {"is_string"}, "JsonArray": {"is_array"}, "JsonObject": {"is_object"},
	},
}

var wordRe = regexp.MustCompile(`[A-Za-z_]+`)

// J3: wherever a generator pairs a JSON kind bit with text of the target language — the body of
// `if kinds&JsonX != 0 { ... "text" ... }`, or a table row `{JsonX, "text"}` that a loop tests with
// `kinds&row.kind != 0` — the text is the test for that kind.
func ruleKindTests(c *core.Ctx) {
	const rule = "J3"
	c.Rule(rule, "the emitted reader-side type tests pair each JSON kind bit with the matching test of the target language (python: None/bool/int,float/str/list/dict; C++: is_null/is_boolean/is_number/is_string/is_array/is_object)", 12)
	for pkgRel, want := range kindNames {
		p := c.Pkg(pkgRel)
		if p == nil {
			c.Undecided(rule, "anchor/"+pkgRel, 0, "package not found")
			continue
		}
		info := p.TypesInfo
		kindOf := func(e ast.Expr) string {
			k := ""
			ast.Inspect(e, func(n ast.Node) bool {
				if sel, ok := n.(*ast.SelectorExpr); ok {
					if kc, ok := info.Uses[sel.Sel].(*types.Const); ok && strings.HasPrefix(kc.Name(), "Json") && kc.Pkg() != nil && strings.HasSuffix(kc.Pkg().Path(), "/ndjsoncommon") {
						k = kc.Name()
					}
				}
				return true
			})
			return k
		}
		litsOf := func(n ast.Node) []string {
			var lits []string
			ast.Inspect(n, func(m ast.Node) bool {
				if bl, ok := m.(*ast.BasicLit); ok && bl.Kind == token.STRING {
					if s, err := strconv.Unquote(bl.Value); err == nil {
						lits = append(lits, wordRe.FindAllString(s, -1)...)
					}
				}
				return true
			})
			sort.Strings(lits)
			return lits
		}
		seen := map[string]bool{}
		check := func(kind string, lits []string, pos token.Pos, where string) {
			w := append([]string(nil), want[kind]...)
			sort.Strings(w)
			// words such as the receiver placeholder are ignored: the test tokens must all be present and no
			// token of another kind may be
			var got []string
			for _, l := range lits {
				for _, toks := range want {
					for _, t := range toks {
						if l == t {
							got = append(got, l)
						}
					}
				}
			}
			got = uniq(got)
			sort.Strings(got)
			seen[kind] = true
			c.Check(strings.Join(got, ",") == strings.Join(w, ","), rule, pkgRel+"/"+kind, pos, kind+" → "+strings.Join(got, ",")+" ("+where+")",
				fmt.Sprintf("kind %s is paired with %v, expected %v: values of that kind are dispatched to the wrong union case", kind, got, want[kind]))
		}
		for _, f := range p.Syntax {
			if c.IsTestFile(f.Pos()) {
				continue
			}
			ast.Inspect(f, func(n ast.Node) bool {
				switch x := n.(type) {
				case *ast.IfStmt:
					be, ok := ast.Unparen(x.Cond).(*ast.BinaryExpr)
					if !ok || (be.Op != token.NEQ && be.Op != token.EQL) {
						return true
					}
					var and *ast.BinaryExpr
					for _, side := range []ast.Expr{be.X, be.Y} {
						if a, ok := ast.Unparen(side).(*ast.BinaryExpr); ok && a.Op == token.AND {
							and = a
						}
					}
					if and == nil {
						return true
					}
					kind := kindOf(and)
					if kind == "" {
						return true
					}
					body := ast.Node(x.Body)
					if be.Op == token.EQL { // `if kinds&K == 0 { continue }` style: the text follows in the else branch / is not here
						if x.Else == nil {
							return true
						}
						body = x.Else
					}
					if lits := litsOf(body); len(lits) > 0 {
						check(kind, lits, x.Pos(), "if")
					}
				case *ast.CompositeLit:
					// a table row: exactly one kind constant next to string literals, directly among the elements
					if len(x.Elts) < 2 {
						return true
					}
					kind, nk := "", 0
					for _, el := range x.Elts {
						v := el
						if kv, ok := el.(*ast.KeyValueExpr); ok {
							v = kv.Value
						}
						if _, isLit := v.(*ast.CompositeLit); isLit && kindOf(v) != "" {
							return true // an outer literal (the table itself); a nested list of strings belongs to the row
						}
						if k := kindOf(v); k != "" {
							kind = k
							nk++
						}
					}
					if nk != 1 {
						return true
					}
					if lits := litsOf(x); len(lits) > 0 {
						check(kind, lits, x.Pos(), "table row")
					}
				}
				return true
			})
		}
		for k := range want {
			if !seen[k] {
				c.Bad(rule, pkgRel+"/"+k, 0, "no test text paired with JSON kind "+k)
			}
		}
	}
}

// O1/O2: record fields that may be null are omitted when writing and tolerated as absent
// when reading under the same guard, and that guard looks through aliases.
func ruleOptionalFieldSymmetry(c *core.Ctx) {
	const rule = "O1"
	c.Rule(rule, "python/ndjson.writeRecordConverter: the guard under which to_json/numpy_to_json omit a null field equals the guard under which from_json/from_json_to_numpy use `.get(...)`, and every nullability test on a field type in the NDJSON generators goes through dsl.GetUnderlyingType", 4)
	_, d, p := c.Func("internal/python/ndjson", "writeRecordConverter")
	if d == nil {
		c.Undecided(rule, "anchor/python/ndjson.writeRecordConverter", 0, "anchor function not found")
		return
	}
	x := &gee.Extractor{Info: p.TypesInfo, Fset: c.Fset}
	rows := x.Extract("writeRecordConverter", d)
	groups := map[string][]string{} // group -> guard strings
	for _, r := range rows {
		if r.Kind != "emit" {
			continue
		}
		g := strings.Join(r.Guards, " ∧ ")
		switch {
		case strings.HasPrefix(r.Tmpl, "if value.%s is not None:"):
			groups["to_json/omit"] = append(groups["to_json/omit"], g)
		case strings.HasPrefix(r.Tmpl, "if (field_val := value[\"%s\"]) is not None:"):
			groups["numpy_to_json/omit"] = append(groups["numpy_to_json/omit"], g)
		case strings.Contains(r.Tmpl, ".from_json(json_object.get(\"%s\"))"):
			groups["from_json/get"] = append(groups["from_json/get"], g)
		case strings.Contains(r.Tmpl, ".from_json_to_numpy(json_object.get(\"%s\"))"):
			groups["from_json_to_numpy/get"] = append(groups["from_json_to_numpy/get"], g)
		}
	}
	names := []string{"to_json/omit", "numpy_to_json/omit", "from_json/get", "from_json_to_numpy/get"}
	ref := ""
	for _, n := range names {
		gs := groups[n]
		if len(gs) != 1 {
			c.Undecided(rule, "writeRecordConverter/"+n, d.Pos(), fmt.Sprintf("expected exactly one emission for %s, found %d", n, len(gs)))
			continue
		}
		if ref == "" {
			ref = gs[0]
		}
		c.Check(gs[0] == ref, rule, "writeRecordConverter/"+n+"/same guard", d.Pos(), "guard: "+gs[0], "guard differs from the to_json omission guard: `"+gs[0]+"` vs `"+ref+"` — a field omitted on write is required on read (KeyError) or vice versa")
	}
	// the omission guard itself: a field is left out exactly when its (underlying) type has a null case and no
	// dimensionality — an optional AND a union with a null case ([null, A, B]); the C++ runtime's
	// ShouldSerializeFieldValue omits both (std::optional without value, std::variant holding a leading monostate)
	for _, n := range names {
		gs := groups[n]
		if len(gs) != 1 {
			continue
		}
		conj := strings.Split(gs[0], " ∧ ")
		eval := func(hasNull, isOptional, hasDim string) bool {
			asg := map[string]string{
				"type(GetUnderlyingType(Field.Type))":   "GeneralizedType",
				"GeneralizedType.Cases.HasNullOption()": hasNull,
				"GeneralizedType.Cases.IsOptional()":    isOptional,
				"GeneralizedType.Dimensionality != nil": hasDim,
				"GeneralizedType.Dimensionality == nil": map[string]string{"true": "false", "false": "true"}[hasDim],
			}
			sat, unk := guardSat(mapStrings(conj, stripDsl), asg)
			if sat && len(unk) > 0 {
				// a predicate of the package around the test: evaluate its returns under the same assignment
				for _, u := range unk {
					neg := false
					for _, cj := range conj {
						if stripDsl(cj) == "!("+u+")" {
							neg = true
						}
					}
					v, known := evalBoolHelper(c, "internal/python/ndjson", u, asg)
					if !known {
						return false
					}
					if v == neg {
						return false
					}
				}
				return true
			}
			return sat && len(unk) == 0
		}
		okAll := eval("true", "true", "false") && eval("true", "false", "false") && !eval("false", "false", "false") && !eval("true", "true", "true")
		c.Check(okAll, rule, "writeRecordConverter/"+n+"/omitted iff nullable scalar", d.Pos(), "omitted exactly for optionals and unions with a null case, without dimensionality",
			"the omission guard `"+gs[0]+"` is not `has a null case and no dimensionality`: a record field of type [null, A, B] holding null is written as an explicit null (or required on reading) where the C++ side omits it / accepts its absence, so documents of one language are rejected by the other")
	}
	// O2: alias transparency of nullability tests in the NDJSON generators
	for _, pkg := range []string{"internal/python/ndjson", "internal/cpp/ndjson"} {
		pp := c.Pkg(pkg)
		if pp == nil {
			continue
		}
		for _, f := range pp.Syntax {
			ast.Inspect(f, func(n ast.Node) bool {
				ta, ok := n.(*ast.TypeAssertExpr)
				if !ok || ta.Type == nil || types.ExprString(ta.Type) != "*dsl.GeneralizedType" {
					return true
				}
				// subject mentions a field's/step's/case's Type?
				subj := types.ExprString(ta.X)
				fd := enclosingFuncDecl(f, ta)
				if fd == nil {
					return true
				}
				// ... or is a dsl.Type parameter of a helper (isNullable(t dsl.Type))
				isTypeParam := false
				inner := ast.Unparen(ta.X)
				if ce, ok := inner.(*ast.CallExpr); ok && len(ce.Args) == 1 {
					inner = ast.Unparen(ce.Args[0])
				}
				if id, ok := inner.(*ast.Ident); ok {
					if v, ok := pp.TypesInfo.Uses[id].(*types.Var); ok && fd.Type.Params != nil {
						for _, fl := range fd.Type.Params.List {
							for _, nm := range fl.Names {
								if pp.TypesInfo.Defs[nm] == types.Object(v) && types.ExprString(fl.Type) == "dsl.Type" {
									isTypeParam = true
								}
							}
						}
					}
				}
				if !strings.HasSuffix(subj, ".Type") && !strings.Contains(subj, ".Type)") && !isTypeParam {
					return true
				}
				// is the asserted value used for a null-option test?
				uses := false
				ast.Inspect(fd.Body, func(m ast.Node) bool {
					if sel, ok := m.(*ast.SelectorExpr); ok && (sel.Sel.Name == "HasNullOption" || sel.Sel.Name == "IsOptional") {
						uses = true
					}
					return true
				})
				if !uses {
					return true
				}
				key := fmt.Sprintf("%s.%s/nullability test on %s", pkg, fd.Name.Name, exprShapeOf(ta.X))
				c.Check(strings.Contains(subj, "GetUnderlyingType("), rule, key, ta.Pos(), "looks through aliases (dsl.GetUnderlyingType)",
					"nullability of a field type is decided on the declared type, not the underlying one: a field whose optional/union-with-null type is reached through an alias is written as `null` instead of omitted and required on read")
				return true
			})
		}
	}
}

func enclosingFuncDecl(f *ast.File, n ast.Node) *ast.FuncDecl {
	for _, d := range f.Decls {
		if fd, ok := d.(*ast.FuncDecl); ok && fd.Body != nil && fd.Pos() <= n.Pos() && n.End() <= fd.End() {
			return fd
		}
	}
	return nil
}

func exprShapeOf(e ast.Expr) string {
	s := types.ExprString(e)
	if len(s) > 60 {
		s = s[:60]
	}
	return s
}

// evalBoolHelper evaluates `helper(arg)` — a function of the package returning bool — under an assignment of model
// atoms: the helper's parameter is renamed to the argument, its return rows are extracted, and the first return whose
// guards hold gives the value.
func evalBoolHelper(c *core.Ctx, pkgRel, call string, asg map[string]string) (bool, bool) {
	i := strings.Index(call, "(")
	if i <= 0 || !strings.HasSuffix(call, ")") {
		return false, false
	}
	name, arg := call[:i], call[i+1:len(call)-1]
	_, d, p := c.Func(pkgRel, name)
	if d == nil || len(d.Type.Params.List) != 1 || len(d.Type.Params.List[0].Names) != 1 {
		return false, false
	}
	prm := d.Type.Params.List[0].Names[0].Name
	x := &gee.Extractor{Info: p.TypesInfo, Fset: c.Fset, AllReturns: true}
	sub := func(s string) string {
		s = stripDsl(s)
		// the parameter is rendered by its type name; the argument at the call site by its own
		pt := typeLabel(p.TypesInfo.TypeOf(d.Type.Params.List[0].Type))
		pt = strings.TrimPrefix(pt, "*")
		s = replaceIdent(s, prm, arg)
		if strings.Contains(arg, ".") {
			s = strings.ReplaceAll(s, "GetUnderlyingType("+pt+")", "GetUnderlyingType("+arg+")")
		}
		return s
	}
	for _, r := range x.Extract(name, d) {
		if r.Kind != "return" {
			continue
		}
		gs := mapStrings(r.Guards, sub)
		sat, unk := guardSat(gs, asg)
		if !sat {
			continue
		}
		if len(unk) > 0 {
			return false, false
		}
		val := strings.TrimPrefix(r.Tmpl, "VAL:")
		switch val {
		case "true":
			return true, true
		case "false":
			return false, true
		}
		v, known, _ := boolExprValue(sub(val), asg)
		return v, known
	}
	return false, false
}
