package rules

import (
	"fmt"
	"go/ast"
	"go/constant"
	"go/token"
	"go/types"
	"regexp/syntax"
	"strings"

	"verif/checker/internal/core"
)

// ---------------------------------------------------------------------------
// E1: an error returned by a call is dropped.
//
// Candidates: every call in a non-test module function whose callee's last result is
// `error` and whose error result is discarded (expression statement, defer/go, or `_`).
// Accepted idioms (enumerated from the tree, one reason each) are in e1Accepted*.
// ---------------------------------------------------------------------------

// receivers / first arguments whose writes are in-memory and cannot fail
var inMemoryWriters = map[string]string{
	core.Mod + "/internal/formatting.IndentedWriter": "in-memory writer over a bytes.Buffer/strings.Builder",
	"bytes.Buffer":          "in-memory buffer: Write never returns an error",
	"strings.Builder":       "in-memory builder: Write never returns an error",
	"text/tabwriter.Writer": "n/a",
}

// callee full name -> reason the dropped error cannot hide a property-relevant failure
var e1AcceptedCallees = map[string]string{
	"fmt.Printf":      "console output; failure to print a banner is not a validation or generation error",
	"fmt.Println":     "console output",
	"fmt.Print":       "console output",
	"(os.File).Close": "deferred close of a file opened read-only: no buffered data can be lost",
	"os.Chdir":        "deferred restore of the working directory (accepted only as `defer os.Chdir(prev)`)",
	"(github.com/fsnotify/fsnotify.Watcher).Close": "deferred close of the watcher at process exit",
	"(github.com/knadh/koanf/v2.Koanf).Set":        "koanf.Set on a key tested with Exists just before: can only fail on a type clash reported by the following Unmarshal",
}

func isInMemoryWriter(t types.Type) (string, bool) {
	n := core.NamedOf(t)
	if n == nil || n.Obj().Pkg() == nil {
		return "", false
	}
	r, ok := inMemoryWriters[n.Obj().Pkg().Path()+"."+n.Obj().Name()]
	return r, ok
}

type droppedCall struct {
	call *ast.CallExpr
	how  string // stmt | defer | go | blank
}

func lastResultIsError(sig *types.Signature) bool {
	if sig == nil || sig.Results().Len() == 0 {
		return false
	}
	return core.IsErrorType(sig.Results().At(sig.Results().Len() - 1).Type())
}

func callSig(info *types.Info, call *ast.CallExpr) *types.Signature {
	tv, ok := info.Types[call.Fun]
	if !ok || tv.IsType() {
		return nil
	}
	sig, _ := tv.Type.Underlying().(*types.Signature)
	return sig
}

func findDropped(info *types.Info, body ast.Node) []droppedCall {
	var out []droppedCall
	ast.Inspect(body, func(n ast.Node) bool {
		switch s := n.(type) {
		case *ast.ExprStmt:
			if c, ok := ast.Unparen(s.X).(*ast.CallExpr); ok && lastResultIsError(callSig(info, c)) {
				out = append(out, droppedCall{c, "stmt"})
			}
		case *ast.DeferStmt:
			if lastResultIsError(callSig(info, s.Call)) {
				out = append(out, droppedCall{s.Call, "defer"})
			}
		case *ast.GoStmt:
			if lastResultIsError(callSig(info, s.Call)) {
				out = append(out, droppedCall{s.Call, "go"})
			}
		case *ast.AssignStmt:
			if len(s.Rhs) == 1 {
				if c, ok := ast.Unparen(s.Rhs[0]).(*ast.CallExpr); ok {
					sig := callSig(info, c)
					if lastResultIsError(sig) && len(s.Lhs) == sig.Results().Len() {
						if id, ok := s.Lhs[len(s.Lhs)-1].(*ast.Ident); ok && id.Name == "_" {
							out = append(out, droppedCall{c, "blank"})
						}
					}
				}
			}
		}
		return true
	})
	return out
}

// alwaysNilError: an in-module function all of whose return statements give the nil
// constant for the error result (and that has no named error result assigned).
func alwaysNilError(c *core.Ctx, f *types.Func) bool {
	d := c.Decl(f)
	if d == nil {
		return false
	}
	p := c.DeclPkg(d)
	ok := true
	nret := 0
	var visit func(n ast.Node) bool
	visit = func(n ast.Node) bool {
		switch x := n.(type) {
		case *ast.FuncLit:
			return false
		case *ast.ReturnStmt:
			nret++
			if len(x.Results) == 0 {
				ok = false
				return true
			}
			last := x.Results[len(x.Results)-1]
			if tv, found := p.TypesInfo.Types[last]; !found || !tv.IsNil() {
				ok = false
			}
		}
		return true
	}
	ast.Inspect(d.Body, visit)
	return ok && nret > 0
}

func ruleE1(scope func(pkgPath string) bool, ruleID string) func(c *core.Ctx) {
	return func(c *core.Ctx) {
		c.Rule(ruleID, "no error returned by a call is silently dropped (accepted idioms enumerated in errflow.go)", 5)
		nfun := 0
		for _, d := range c.AllDecls() {
			p := c.DeclPkg(d)
			if !scope(p.PkgPath) {
				continue
			}
			if _, skip := outOfScopeFuncs[c.FuncName(d)]; skip {
				continue
			}
			nfun++
			info := p.TypesInfo
			for _, dc := range findDropped(info, d.Body) {
				callee := core.Callee(info, dc.call)
				name := core.FullName(callee)
				if callee == nil {
					name = "dynamic:" + types.ExprString(dc.call.Fun)
				}
				key := fmt.Sprintf("%s/%s", c.FuncName(d), name)
				// in-memory writers: method receiver or first argument of fmt.Fprint*
				if sel, ok := ast.Unparen(dc.call.Fun).(*ast.SelectorExpr); ok && callee != nil {
					if sig := callee.Type().(*types.Signature); sig.Recv() != nil {
						if r, ok := isInMemoryWriter(info.TypeOf(sel.X)); ok {
							c.Stats[ruleID+"_inmemory_write_sites"]++
							_ = r
							continue
						}
					}
				}
				if callee != nil && callee.Pkg() != nil && callee.Pkg().Path() == "fmt" && strings.HasPrefix(callee.Name(), "Fprint") && len(dc.call.Args) > 0 {
					if _, ok := isInMemoryWriter(info.TypeOf(dc.call.Args[0])); ok {
						c.Stats[ruleID+"_inmemory_write_sites"]++
						continue
					}
				}
				if callee != nil && callee.Pkg() != nil && callee.Pkg().Path() == "io" && callee.Name() == "WriteString" && len(dc.call.Args) > 0 {
					if _, ok := isInMemoryWriter(info.TypeOf(dc.call.Args[0])); ok {
						c.Stats[ruleID+"_inmemory_write_sites"]++
						continue
					}
				}
				if reason, ok := e1SiteExceptions[key]; ok {
					c.OK(ruleID, key, dc.call.Pos(), "site exception: "+reason)
					continue
				}
				if name == "strconv.Atoi" && len(dc.call.Args) == 1 {
					if pat, grp, ok := digitsOnlySubmatch(c, info, d.Body, dc.call.Args[0]); ok {
						c.OK(ruleID, key, dc.call.Pos(), fmt.Sprintf("the argument is capture group %d of the constant regexp `%s`, which matches decimal digits only: Atoi can fail on overflow alone", grp, pat))
						continue
					}
				}
				if reason, ok := e1AcceptedCallees[name]; ok {
					if name == "os.Chdir" && dc.how != "defer" {
						c.Bad(ruleID, key, dc.call.Pos(), "os.Chdir result dropped outside the deferred-restore idiom")
						continue
					}
					if name == "(os.File).Close" && dc.how != "defer" {
						c.Bad(ruleID, key, dc.call.Pos(), "(*os.File).Close result dropped outside a defer")
						continue
					}
					c.OK(ruleID, key, dc.call.Pos(), "accepted idiom: "+reason)
					continue
				}
				if core.InModule(callee) && alwaysNilError(c, callee) {
					c.OK(ruleID, key, dc.call.Pos(), "callee returns the nil constant as error on every return statement")
					continue
				}
				c.Bad(ruleID, key, dc.call.Pos(), fmt.Sprintf("error result of %s is dropped (%s)", name, dc.how))
			}
		}
		c.Stats[ruleID+"_functions_scanned"] = nfun
	}
}

var _ = token.NoPos

// per-site exceptions to E1: enclosing function + callee -> reason
var e1SiteExceptions = map[string]string{
	"internal/formatting.delimitWithUnderscores/strconv.Atoi": "digits matched by digitGroupSnakeCaseRegex; a failure yields 0 which takes the non-power-of-two branch",
	"internal/cmd.newInitCommand/fmt.Fprintf":                 "error text to stderr immediately before os.Exit(1)",
}

// functions outside the claimed properties (scaffold command): not scanned
var outOfScopeFuncs = map[string]string{
	"internal/cmd.initImpl":       "`yardl init` scaffold writer; validate/generate properties do not cover it",
	"internal/cmd.newInitCommand": "`yardl init` scaffold writer",
}

// ---------------------------------------------------------------------------
// E2: an error is tested and then swallowed.
// Obligation: every `if e != nil {body}` on an error-typed identifier e. Discharged when
// the body uses e (returned, wrapped, logged, added to a sink, inspected), or leaves
// with a non-nil error / panic / exit. Violated when the body neither uses e nor
// produces another error: the failure is invisible to the caller.
// ---------------------------------------------------------------------------

func usesObj(info *types.Info, n ast.Node, obj types.Object) bool {
	found := false
	ast.Inspect(n, func(x ast.Node) bool {
		if id, ok := x.(*ast.Ident); ok && info.Uses[id] == obj {
			found = true
		}
		return !found
	})
	return found
}

func ruleE2(scope func(pkgPath string) bool, ruleID string) func(c *core.Ctx) {
	return func(c *core.Ctx) {
		c.Rule(ruleID, "an error tested with `!= nil` is propagated, reported or otherwise used on that branch; never replaced by success", 20)
		for _, d := range c.AllDecls() {
			p := c.DeclPkg(d)
			if !scope(p.PkgPath) {
				continue
			}
			if _, skip := outOfScopeFuncs[c.FuncName(d)]; skip {
				continue
			}
			info := p.TypesInfo
			// stack of enclosing function types to know the result signature
			var visit func(n ast.Node, sig *types.Signature)
			visit = func(n ast.Node, sig *types.Signature) {
				ast.Inspect(n, func(x ast.Node) bool {
					switch s := x.(type) {
					case *ast.FuncLit:
						ls, _ := info.TypeOf(s).(*types.Signature)
						visit(s.Body, ls)
						return false
					case *ast.IfStmt:
						obj, neq, ok := core.IsNilTest(info, s.Cond)
						if !ok || !core.IsErrorType(obj.Type()) {
							return true
						}
						var branch ast.Node = s.Body
						if !neq {
							if s.Else == nil {
								return true
							}
							branch = s.Else
						}
						key := fmt.Sprintf("%s/if %s", c.FuncName(d), types.ExprString(s.Cond))
						if usesObj(info, branch, obj) {
							c.OK(ruleID, key, s.Pos(), "error value is used on the failure branch")
							return true
						}
						// captured error variable returned by the enclosing declaration
						if obj.Pos() < s.Pos() && sig != nil && !lastResultIsError(sig) && returnsObj(info, d.Body, obj) {
							c.OK(ruleID, key, s.Pos(), "captured error variable is returned by the enclosing function")
							return true
						}
						// deliberate recovery: the branch sets state and falls through
						if fallsThrough(branch) && hasAssignment(branch) {
							c.OK(ruleID, key, s.Pos(), "recovery idiom: the failure branch records state and execution continues on the fallback path")
							return true
						}
						// the error becomes the function's negative answer: a function without an error result returns
						// its zero value (false, nil, "", 0) on the failure branch and something else on another path
						if sig != nil && !lastResultIsError(sig) && sig.Results().Len() >= 1 && returnsZeroOnly(info, branch) && returnsNonZero(info, n) {
							c.OK(ruleID, key, s.Pos(), "the failure is turned into the function's negative answer (zero value returned; the function has no error result and other paths return a different value)")
							return true
						}
						// other ways out: non-nil error return, panic, exit, error added to a sink
						leaves := false
						ast.Inspect(branch, func(y ast.Node) bool {
							switch z := y.(type) {
							case *ast.FuncLit:
								return false
							case *ast.ReturnStmt:
								if sig != nil && lastResultIsError(sig) && len(z.Results) == sig.Results().Len() {
									last := z.Results[len(z.Results)-1]
									if tv, f := info.Types[last]; f && !tv.IsNil() {
										leaves = true
									}
								}
							case *ast.CallExpr:
								if core.NoReturn(info, z) {
									leaves = true
								}
								if f := core.Callee(info, z); f != nil && core.FullName(f) == "("+core.Mod+"/internal/validation.ErrorSink).Add" {
									leaves = true
								}
							}
							return true
						})
						if leaves {
							c.OK(ruleID, key, s.Pos(), "failure branch leaves with another non-nil error, panic or exit")
						} else {
							c.Bad(ruleID, key, s.Pos(), fmt.Sprintf("error %s is tested but the failure branch neither uses it nor reports another error: the failure is swallowed", obj.Name()))
						}
					}
					return true
				})
			}
			fsig, _ := info.Defs[d.Name].Type().(*types.Signature)
			visit(d.Body, fsig)
		}
	}
}

// ---------------------------------------------------------------------------
// E3: a zerolog event chain used as a statement without Msg/Msgf/Send does nothing:
// `log.Panic().Err(err)` neither logs nor panics.
// ---------------------------------------------------------------------------

func ruleE3(scope func(pkgPath string) bool, ruleID string) func(c *core.Ctx) {
	return func(c *core.Ctx) {
		c.Rule(ruleID, "every zerolog event chain used as a statement ends in Msg/Msgf/Send (otherwise it is a no-op: nothing logged, no panic)", 10)
		for _, d := range c.AllDecls() {
			p := c.DeclPkg(d)
			if !scope(p.PkgPath) {
				continue
			}
			info := p.TypesInfo
			ast.Inspect(d.Body, func(n ast.Node) bool {
				es, ok := n.(*ast.ExprStmt)
				if !ok {
					return true
				}
				call, ok := ast.Unparen(es.X).(*ast.CallExpr)
				if !ok {
					return true
				}
				f := core.Callee(info, call)
				if f == nil || f.Pkg() == nil || f.Pkg().Path() != "github.com/rs/zerolog" {
					return true
				}
				key := fmt.Sprintf("%s/%s", c.FuncName(d), chainText(call))
				t := info.TypeOf(call)
				if t != nil && core.TypeIs(t, "github.com/rs/zerolog", "Event") {
					c.Bad(ruleID, key, call.Pos(), "zerolog event chain is never terminated with Msg/Msgf/Send: the statement has no effect")
				} else {
					c.OK(ruleID, key, call.Pos(), "chain terminated by "+f.Name())
				}
				return true
			})
		}
	}
}

// chainText renders a zerolog chain as method names only (stable under message edits).
func chainText(call *ast.CallExpr) string {
	var names []string
	cur := ast.Expr(call)
	for {
		ce, ok := ast.Unparen(cur).(*ast.CallExpr)
		if !ok {
			break
		}
		sel, ok := ast.Unparen(ce.Fun).(*ast.SelectorExpr)
		if !ok {
			break
		}
		names = append([]string{sel.Sel.Name}, names...)
		cur = sel.X
	}
	if id, ok := ast.Unparen(cur).(*ast.Ident); ok {
		names = append([]string{id.Name}, names...)
	}
	return strings.Join(names, ".")
}

func isZeroExpr(info *types.Info, e ast.Expr) bool {
	tv, ok := info.Types[ast.Unparen(e)]
	if !ok {
		return false
	}
	if tv.IsNil() {
		return true
	}
	if tv.Value != nil {
		switch tv.Value.Kind() {
		case constant.Bool:
			return !constant.BoolVal(tv.Value)
		case constant.String:
			return constant.StringVal(tv.Value) == ""
		case constant.Int, constant.Float:
			return constant.Sign(tv.Value) == 0
		}
	}
	return false
}

// returnsZeroOnly: the branch ends in a return statement all of whose results are zero values.
func returnsZeroOnly(info *types.Info, branch ast.Node) bool {
	b, ok := branch.(*ast.BlockStmt)
	if !ok || len(b.List) == 0 {
		return false
	}
	r, ok := b.List[len(b.List)-1].(*ast.ReturnStmt)
	if !ok || len(r.Results) == 0 {
		return false
	}
	for _, e := range r.Results {
		if !isZeroExpr(info, e) {
			return false
		}
	}
	return true
}

// returnsNonZero: some return statement of the function body (closures excluded) has a result that is not a
// constant zero value.
func returnsNonZero(info *types.Info, body ast.Node) bool {
	found := false
	ast.Inspect(body, func(n ast.Node) bool {
		switch x := n.(type) {
		case *ast.FuncLit:
			return false
		case *ast.ReturnStmt:
			for _, e := range x.Results {
				if !isZeroExpr(info, e) {
					found = true
				}
			}
		}
		return !found
	})
	return found
}

func returnsObj(info *types.Info, body ast.Node, obj types.Object) bool {
	found := false
	ast.Inspect(body, func(n ast.Node) bool {
		if r, ok := n.(*ast.ReturnStmt); ok {
			for _, e := range r.Results {
				if id, ok := ast.Unparen(e).(*ast.Ident); ok && info.Uses[id] == obj {
					found = true
				}
			}
		}
		return !found
	})
	return found
}

func fallsThrough(n ast.Node) bool {
	leaves := false
	ast.Inspect(n, func(x ast.Node) bool {
		switch x.(type) {
		case *ast.FuncLit:
			return false
		case *ast.ReturnStmt, *ast.BranchStmt:
			leaves = true
		}
		return true
	})
	return !leaves
}

func hasAssignment(n ast.Node) bool {
	has := false
	ast.Inspect(n, func(x ast.Node) bool {
		switch x.(type) {
		case *ast.FuncLit:
			return false
		case *ast.AssignStmt, *ast.IncDecStmt:
			has = true
		}
		return true
	})
	return has
}

// ---------------------------------------------------------------------------
// E5: dead error store. An error returned by a call is stored in a variable and no path
// reads that variable before it is overwritten or goes out of scope (typically a
// shadowed `err` inside a block, tested by an outer `if err != nil` on another variable).
// ---------------------------------------------------------------------------

func ruleE5(scope func(pkgPath string) bool, ruleID string) func(c *core.Ctx) {
	return func(c *core.Ctx) {
		c.Rule(ruleID, "every error stored from a call into a local variable is read on some path before being overwritten or dropped (no dead error store / shadowed err)", 50)
		for _, d := range c.AllDecls() {
			p := c.DeclPkg(d)
			if !scope(p.PkgPath) {
				continue
			}
			if _, skip := outOfScopeFuncs[c.FuncName(d)]; skip {
				continue
			}
			info := p.TypesInfo
			// all function bodies: the declaration and every literal
			type fb struct {
				body *ast.BlockStmt
				typ  *ast.FuncType
			}
			bodies := []fb{{d.Body, d.Type}}
			ast.Inspect(d.Body, func(n ast.Node) bool {
				if fl, ok := n.(*ast.FuncLit); ok {
					bodies = append(bodies, fb{fl.Body, fl.Type})
				}
				return true
			})
			// objects used inside any function literal (captured) are not tracked
			captured := map[types.Object]bool{}
			for _, b := range bodies[1:] {
				ast.Inspect(b.body, func(n ast.Node) bool {
					if id, ok := n.(*ast.Ident); ok {
						if o := info.Uses[id]; o != nil && (o.Pos() < b.body.Pos() || o.Pos() > b.body.End()) {
							captured[o] = true
						}
					}
					return true
				})
			}
			for _, b := range bodies {
				named := map[types.Object]bool{}
				if b.typ.Results != nil {
					for _, f := range b.typ.Results.List {
						for _, n := range f.Names {
							named[info.Defs[n]] = true
						}
					}
				}
				var fc *core.FuncCFG
				// assignments directly in this body (not in nested literals)
				var visit func(n ast.Node) bool
				visit = func(n ast.Node) bool {
					if _, ok := n.(*ast.FuncLit); ok {
						return false
					}
					as, ok := n.(*ast.AssignStmt)
					if !ok || len(as.Rhs) != 1 {
						return true
					}
					call, ok := ast.Unparen(as.Rhs[0]).(*ast.CallExpr)
					if !ok || !lastResultIsError(callSig(info, call)) {
						return true
					}
					id, ok := as.Lhs[len(as.Lhs)-1].(*ast.Ident)
					if !ok || id.Name == "_" {
						return true
					}
					obj := info.Defs[id]
					if obj == nil {
						obj = info.Uses[id]
					}
					if obj == nil || captured[obj] || !core.IsErrorType(obj.Type()) {
						return true
					}
					if v, ok := obj.(*types.Var); !ok || v.IsField() || v.Parent() == v.Pkg().Scope() {
						return true
					}
					if fc == nil {
						fc = core.NewCFG(b.body, info)
					}
					callee := core.FullName(core.Callee(info, call))
					if callee == "" {
						callee = "dynamic:" + types.ExprString(call.Fun)
					}
					key := fmt.Sprintf("%s/%s<-%s", c.FuncName(d), obj.Name(), callee)
					if errStoreIsRead(fc, info, as, obj, named[obj]) {
						c.OK(ruleID, key, as.Pos(), "stored error is read on a following path")
					} else {
						c.Bad(ruleID, key, as.Pos(), fmt.Sprintf("error stored in %s is never read before it is overwritten or goes out of scope: a failure of %s is invisible (shadowed or dead error variable)", obj.Name(), callee))
					}
					return true
				}
				ast.Inspect(b.body, visit)
			}
		}
	}
}

// errStoreIsRead: is there a path from the assignment to a read of obj?
func errStoreIsRead(fc *core.FuncCFG, info *types.Info, as *ast.AssignStmt, obj types.Object, namedResult bool) bool {
	b := fc.BlockOf(as)
	if b == nil {
		return true // not in the CFG (unreachable code): nothing to claim
	}
	start := fc.NodeIndex(b, as)
	// scan returns: 1 read found, 2 killed, 0 continue
	scan := func(n ast.Node) int {
		res := 0
		ast.Inspect(n, func(x ast.Node) bool {
			if res == 1 {
				return false
			}
			switch y := x.(type) {
			case *ast.FuncLit:
				return false
			case *ast.AssignStmt:
				for _, r := range y.Rhs {
					if usesObj(info, r, obj) {
						res = 1
						return false
					}
				}
				for _, l := range y.Lhs {
					if id, ok := l.(*ast.Ident); ok {
						if info.Uses[id] == obj || info.Defs[id] == obj {
							if res == 0 {
								res = 2
							}
							continue
						}
					}
					if usesObj(info, l, obj) {
						res = 1
						return false
					}
				}
				return false
			case *ast.ReturnStmt:
				if namedResult && len(y.Results) == 0 {
					res = 1
					return false
				}
			case *ast.Ident:
				if info.Uses[y] == obj {
					res = 1
					return false
				}
			}
			return true
		})
		return res
	}
	type blk = *struct{}
	_ = blk(nil)
	seen := map[int32]bool{}
	var walk func(bi int32, from int) bool
	blocks := fc.G.Blocks
	walk = func(bi int32, from int) bool {
		bb := blocks[bi]
		for _, n := range bb.Nodes[from:] {
			switch scan(n) {
			case 1:
				return true
			case 2:
				return false
			}
		}
		for _, s := range bb.Succs {
			if !seen[s.Index] {
				seen[s.Index] = true
				if walk(s.Index, 0) {
					return true
				}
			}
		}
		return false
	}
	// a function exit with a named result is a read
	if namedResult {
		return true
	}
	return walk(b.Index, start+1)
}

// digitsOnlySubmatch: e is `m[k]` where m is the single-definition result of FindStringSubmatch on a regexp compiled
// from a constant, and capture group k of that regexp matches only decimal digits (at least one).
func digitsOnlySubmatch(c *core.Ctx, info *types.Info, body *ast.BlockStmt, e ast.Expr) (string, int, bool) {
	ix, ok := ast.Unparen(e).(*ast.IndexExpr)
	if !ok {
		return "", 0, false
	}
	k, ok := constInt(info, ix.Index)
	id, isID := ast.Unparen(ix.X).(*ast.Ident)
	if !ok || !isID || k < 1 {
		return "", 0, false
	}
	rhs := singleDefRHS(info, body, id)
	ce, ok := ast.Unparen(rhs).(*ast.CallExpr)
	if !ok {
		return "", 0, false
	}
	f := core.Callee(info, ce)
	if f == nil || core.FullName(f) != "(regexp.Regexp).FindStringSubmatch" {
		return "", 0, false
	}
	recv := ast.Unparen(ce.Fun).(*ast.SelectorExpr).X
	var localInit ast.Expr
	if rid, ok := ast.Unparen(recv).(*ast.Ident); ok {
		if o := info.ObjectOf(rid); o != nil && o.Parent() != o.Pkg().Scope() {
			if r := singleDefRHS(info, body, rid); r != ast.Expr(rid) {
				localInit = r
			}
		}
	}
	pat, ok := regexpPattern(c, info, recv, localInit)
	if !ok {
		return "", 0, false
	}
	re, err := syntax.Parse(pat, syntax.Perl)
	if err != nil {
		return "", 0, false
	}
	var grp *syntax.Regexp
	var find func(r *syntax.Regexp)
	find = func(r *syntax.Regexp) {
		if r.Op == syntax.OpCapture && r.Cap == k {
			grp = r
		}
		for _, s := range r.Sub {
			find(s)
		}
	}
	find(re)
	if grp == nil || len(grp.Sub) != 1 {
		return "", 0, false
	}
	var digits func(r *syntax.Regexp, needOne bool) bool
	digits = func(r *syntax.Regexp, needOne bool) bool {
		switch r.Op {
		case syntax.OpCharClass:
			for i := 0; i+1 < len(r.Rune); i += 2 {
				if r.Rune[i] < '0' || r.Rune[i+1] > '9' {
					return false
				}
			}
			return len(r.Rune) > 0
		case syntax.OpLiteral:
			for _, ch := range r.Rune {
				if ch < '0' || ch > '9' {
					return false
				}
			}
			return len(r.Rune) > 0
		case syntax.OpPlus:
			return digits(r.Sub[0], true)
		case syntax.OpRepeat:
			return r.Min >= 1 && digits(r.Sub[0], true)
		case syntax.OpConcat:
			for _, s := range r.Sub {
				if !digits(s, true) {
					return false
				}
			}
			return len(r.Sub) > 0
		}
		return false
	}
	return pat, k, digits(grp.Sub[0], true)
}
