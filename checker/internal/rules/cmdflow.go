package rules

import (
	"fmt"
	"go/ast"
	"go/token"
	"go/types"
	"strings"

	"golang.org/x/tools/go/ssa"

	"verif/checker/internal/core"
)

// File-system mutation primitives (standard library).
var writePrims = map[string]string{
	"os.WriteFile": "content", "os.Create": "content", "os.OpenFile": "content", "os.CreateTemp": "content",
	"(os.File).Write": "content", "(os.File).WriteString": "content", "(os.File).WriteAt": "content", "(os.File).Truncate": "content",
	"(os.File).ReadFrom":  "content",
	"io/ioutil.WriteFile": "content", "os.Truncate": "content",
	"os.Mkdir": "dir", "os.MkdirAll": "dir", "os.MkdirTemp": "dir",
	"os.Remove": "remove", "os.RemoveAll": "remove",
	"os.Rename": "rename", "os.Symlink": "link", "os.Link": "link", "os.Chmod": "meta", "os.Chtimes": "meta", "os.Chown": "meta",
	"(os/exec.Cmd).Run": "exec", "(os/exec.Cmd).Start": "exec", "(os/exec.Cmd).Output": "exec", "(os/exec.Cmd).CombinedOutput": "exec",
}

// functions whose writes are deliberately outside the all-or-nothing claim
var writeStops = map[string]string{
	core.Mod + "/pkg/packaging.runGit":        "git package cache under ~/.yardl/cache: not an output directory",
	core.Mod + "/pkg/packaging.initCacheDir":  "creates ~/.yardl/cache at start-up: not an output directory",
	core.Mod + "/internal/cmd.newInitCommand": "`yardl init` writes the scaffold by design; it is not validate/generate",
}

func isWritePrim(f *types.Func) bool { _, ok := writePrims[core.FullName(f)]; return ok }

// C11a: no write primitive is reachable from the validate/generate command roots except
// through a call edge that is dominated by the success edge of validatePackage.
func ruleValidateBeforeWrite(c *core.Ctx) {
	const rule = "W1"
	c.Rule(rule, "every call edge in the validate/generate commands through which a file-system write primitive is reachable lies behind the err==nil edge of validatePackage", 6)
	vp, _, _ := c.Func("internal/cmd", "validatePackage")
	if vp == nil {
		c.Undecided(rule, "anchor/internal/cmd.validatePackage", 0, "anchor function not found")
		return
	}
	// per-function: which sites are guarded
	type site struct {
		d      *ast.FuncDecl
		node   ast.Node // call or reference position
		target *types.Func
	}
	guardedCache := map[*ast.FuncDecl]func(n ast.Node) bool{}
	guarded := func(d *ast.FuncDecl, n ast.Node) bool {
		g, ok := guardedCache[d]
		if !ok {
			p := c.DeclPkg(d)
			var edges []core.Edge
			var fc *core.FuncCFG
			for _, cs := range c.Calls(d) {
				if cs.Callee == vp && cs.InLit == nil {
					if fc == nil {
						fc = core.NewCFG(d.Body, p.TypesInfo)
					}
					if e, _, ok := fc.SuccessEdge(cs.Call); ok {
						edges = append(edges, e)
					}
				}
			}
			g = func(n ast.Node) bool {
				for _, e := range edges {
					if fc.OnlyVia(e, n) {
						return true
					}
				}
				return false
			}
			guardedCache[d] = g
		}
		return g(n)
	}
	// sites per function
	sitesOf := func(d *ast.FuncDecl) []site {
		var out []site
		for _, cs := range c.Calls(d) {
			if cs.Callee != nil {
				var n ast.Node = cs.Call
				if cs.InLit != nil {
					n = outermostLit(d, cs.Call)
				}
				out = append(out, site{d, n, cs.Callee.Origin()})
			}
		}
		for _, r := range c.Refs(d) {
			out = append(out, site{d, nil, r.Origin()})
		}
		return out
	}
	unsafe := map[*types.Func]*site{} // function -> witnessing unguarded site
	stop := func(f *types.Func) bool { _, ok := writeStops[core.FullName(f)]; return ok }
	changed := true
	decls := c.AllDecls()
	for changed {
		changed = false
		for _, d := range decls {
			p := c.DeclPkg(d)
			fobj, _ := p.TypesInfo.Defs[d.Name].(*types.Func)
			if fobj == nil || unsafe[fobj] != nil || stop(fobj) {
				continue
			}
			for _, s := range sitesOf(d) {
				if stop(s.target) {
					continue
				}
				if isWritePrim(s.target) || unsafe[s.target] != nil {
					if s.node != nil && guarded(d, s.node) {
						continue
					}
					ss := s
					unsafe[fobj] = &ss
					changed = true
					break
				}
			}
		}
	}
	witness := func(f *types.Func) string {
		var parts []string
		for i := 0; f != nil && i < 12; i++ {
			s := unsafe[f]
			if s == nil {
				break
			}
			parts = append(parts, core.FullName(f))
			if isWritePrim(s.target) {
				parts = append(parts, core.FullName(s.target))
				break
			}
			f = s.target
		}
		return strings.Join(parts, " -> ")
	}
	roots := []string{"Execute", "generateImpl", "validateImpl", "validatePackage", "generateInWatchMode", "dedupLoop", "newGenerateCommand", "newValidateCommand", "updatePackageInfoFromArgs"}
	for _, r := range roots {
		f, d, _ := c.Func("internal/cmd", r)
		if f == nil || d == nil {
			c.Undecided(rule, "root/internal/cmd."+r, 0, "anchor function not found")
			continue
		}
		if unsafe[f] != nil {
			c.Bad(rule, "root/internal/cmd."+r, d.Pos(), "a write primitive is reachable without passing the success edge of validatePackage: "+witness(f))
		} else {
			c.OK(rule, "root/internal/cmd."+r, d.Pos(), "no unguarded path to a file-system write primitive")
		}
	}
	lp, lpd, _ := c.Func("pkg/packaging", "LoadPackage")
	if lp == nil {
		c.Undecided(rule, "root/pkg/packaging.LoadPackage", 0, "anchor function not found")
	} else if unsafe[lp] != nil {
		c.Bad(rule, "root/pkg/packaging.LoadPackage", lpd.Pos(), "package loading reaches a write primitive: "+witness(lp))
	} else {
		c.OK(rule, "root/pkg/packaging.LoadPackage", lpd.Pos(), "package loading reaches no write primitive (git cache excepted by table)")
	}
	// the guarded sites themselves, as instances
	cmdPkg := c.Pkg("internal/cmd")
	nGuarded := 0
	for _, d := range decls {
		if c.DeclPkg(d) != cmdPkg {
			continue
		}
		if _, skip := outOfScopeFuncs[c.FuncName(d)]; skip {
			continue
		}
		for _, s := range sitesOf(d) {
			if s.node == nil || stop(s.target) {
				continue
			}
			if isWritePrim(s.target) || unsafe[s.target] != nil {
				key := fmt.Sprintf("%s/call %s", c.FuncName(d), core.FullName(s.target))
				if guarded(d, s.node) {
					nGuarded++
					c.OK(rule, key, s.node.Pos(), "dominated by the err==nil edge of validatePackage; reaches "+witness(s.target))
				}
			}
		}
	}
	c.Stats["W1_guarded_write_reaching_sites"] = nGuarded
	c.Stats["W1_unsafe_functions"] = len(unsafe)
}

// outermostLit returns the outermost function literal of d containing n.
func outermostLit(d *ast.FuncDecl, n ast.Node) ast.Node {
	var out ast.Node = n
	var stack []ast.Node
	ast.Inspect(d.Body, func(x ast.Node) bool {
		if x == nil {
			stack = stack[:len(stack)-1]
			return true
		}
		stack = append(stack, x)
		if x == n {
			for _, s := range stack {
				if _, ok := s.(*ast.FuncLit); ok {
					out = s
					break
				}
			}
		}
		return true
	})
	return out
}

// C11d / C12: who may write. In the back ends file contents are written only through
// iocommon.WriteFileIfNeeded; the only direct primitives are directory creation and the
// audited stale-file removal.
var backendDirectPrims = map[string]string{
	"os.MkdirAll": "idempotent creation of an output directory",
}
var backendPrimSites = map[string]string{
	"internal/matlab/common.(*MatlabFileWriter).RemoveStaleFiles/os.Remove": "removes files of the +package directory that this run did not write (MATLAB package semantics)",
	"internal/iocommon.WriteFileIfNeeded/os.WriteFile":                      "the single content writer",
	"internal/iocommon.symLinkEmbeddedDir/os.Remove":                        "internal symlink mode for static files (developer option)",
	"internal/iocommon.symLinkEmbeddedDir/os.Symlink":                       "internal symlink mode for static files (developer option)",
	"internal/iocommon.copyEmbeddedDir/os.MkdirAll":                         "creates the static-files directory",
	"internal/cmd.outputJson/os.MkdirAll":                                   "creates the json output directory",
}

func ruleWhoMayWrite(c *core.Ctx) {
	const rule = "W2"
	c.Rule(rule, "generated file contents are written only via iocommon.WriteFileIfNeeded; every other direct file-system primitive in the generators is an audited table entry", 15)
	for _, d := range c.AllDecls() {
		p := c.DeclPkg(d)
		rel := strings.TrimPrefix(p.PkgPath, core.Mod+"/")
		if !(strings.HasPrefix(rel, "internal/cpp") || strings.HasPrefix(rel, "internal/python") || strings.HasPrefix(rel, "internal/matlab") ||
			strings.HasPrefix(rel, "internal/iocommon") || rel == "internal/cmd" || strings.HasPrefix(rel, "internal/formatting") || strings.HasPrefix(rel, "internal/ndjsoncommon")) {
			continue
		}
		if _, skip := outOfScopeFuncs[c.FuncName(d)]; skip {
			continue
		}
		for _, cs := range c.Calls(d) {
			if cs.Callee == nil || !isWritePrim(cs.Callee) {
				continue
			}
			name := core.FullName(cs.Callee)
			key := fmt.Sprintf("%s/%s", c.FuncName(d), name)
			// an audit of a site also covers an unexported helper that only the audited function calls
			inherited := ""
			if _, ok := backendPrimSites[key]; !ok {
				for up, hop := d, 0; hop < 2 && inherited == ""; hop++ {
					up = soleCaller(c, up)
					if up == nil {
						break
					}
					if r, ok := backendPrimSites[fmt.Sprintf("%s/%s", c.FuncName(up), name)]; ok {
						inherited = r
					}
				}
			}
			if r, ok := backendPrimSites[key]; ok {
				c.OK(rule, key, cs.Call.Pos(), "audited site: "+r)
			} else if inherited != "" {
				c.OK(rule, key, cs.Call.Pos(), "helper of an audited site: "+inherited)
			} else if r, ok := backendDirectPrims[name]; ok {
				c.OK(rule, key, cs.Call.Pos(), r)
			} else {
				c.Bad(rule, key, cs.Call.Pos(), fmt.Sprintf("direct %s (%s) in a generator: bypasses WriteFileIfNeeded (idempotence) and the audited writer set", name, writePrims[name]))
			}
		}
	}
}

// C12: WriteFileIfNeeded skips the write only when the whole existing content equals
// the new content, and writes otherwise.
func ruleWriteIfNeeded(c *core.Ctx) {
	const rule = "W3"
	c.Rule(rule, "WriteFileIfNeeded returns without writing only on the true edge of bytes.Equal(existing, contents) over the whole file, and every other path ends in os.WriteFile(filename, contents, perm)", 3)
	f, d, _ := c.Func("internal/iocommon", "WriteFileIfNeeded")
	if f == nil || d == nil {
		c.Undecided(rule, "anchor/internal/iocommon.WriteFileIfNeeded", 0, "anchor function not found")
		return
	}
	sf := c.SSAFunc(f)
	if sf == nil || len(sf.Params) != 3 {
		c.Undecided(rule, "anchor/internal/iocommon.WriteFileIfNeeded/signature", d.Pos(), "expected (filename, contents, perm)")
		return
	}
	filename, contents, perm := ssa.Value(sf.Params[0]), ssa.Value(sf.Params[1]), ssa.Value(sf.Params[2])
	// decided on SSA so that `a && b`, nested ifs, else-branches, explaining locals and a predicate
	// helper around the comparison are all the same thing
	usesRead := false
	nret := 0
	for _, b := range sf.Blocks {
		for _, ins := range b.Instrs {
			ret, ok := ins.(*ssa.Return)
			if !ok || len(ret.Results) != 1 {
				continue
			}
			nret++
			key := fmt.Sprintf("WriteFileIfNeeded/return#%d", nret)
			var check func(v ssa.Value, origin *ssa.BasicBlock, depth int) string
			check = func(v ssa.Value, origin *ssa.BasicBlock, depth int) string {
				if phi, ok := v.(*ssa.Phi); ok && depth < 4 {
					for i, e := range phi.Edges {
						if why := check(e, phi.Block().Preds[i], depth+1); why != "" {
							return why
						}
					}
					return ""
				}
				if call, ok := v.(*ssa.Call); ok {
					if cf := call.Common().StaticCallee(); cf != nil && cf.Object() != nil && core.FullName(cf.Object().(*types.Func)) == "os.WriteFile" {
						a := call.Common().Args
						if len(a) == 3 && a[0] == filename && a[1] == contents && a[2] == perm {
							return ""
						}
						return "os.WriteFile is not called with (filename, contents, perm)"
					}
				}
				if k, ok := v.(*ssa.Const); ok && k.IsNil() {
					// success without writing: only where the file is known to hold `contents`
					if guardedByEquality(sf, origin, filename, contents, &usesRead) {
						return ""
					}
					return "returns success without writing, not guarded by err==nil && bytes.Equal(existing, contents): a stale file can be kept"
				}
				return "return is neither the os.WriteFile(filename, contents, perm) call nor the guarded skip"
			}
			why := check(ret.Results[0], b, 0)
			c.Check(why == "", rule, key, ret.Pos(), "writes the new contents, or skips the write only where the existing contents were read and are equal", why)
		}
	}
	// and the converse, which is what makes regeneration idempotent: once the existing contents are known to be equal,
	// nothing is written — no further condition (mode, mtime, size) may send an unchanged file to os.WriteFile
	nEq, rewrites := 0, false
	for _, ib := range sf.Blocks {
		if len(ib.Instrs) == 0 {
			continue
		}
		ifi, ok := ib.Instrs[len(ib.Instrs)-1].(*ssa.If)
		if !ok {
			continue
		}
		cond, neg := stripNot(ifi.Cond)
		succ := ib.Succs[0]
		if neg {
			succ = ib.Succs[1]
		}
		dummy := false
		if !trueImpliesEqual(cond, filename, contents, 0, &dummy) {
			continue
		}
		nEq++
		seen := map[*ssa.BasicBlock]bool{succ: true}
		work := []*ssa.BasicBlock{succ}
		for len(work) > 0 {
			b := work[len(work)-1]
			work = work[:len(work)-1]
			for _, ins := range b.Instrs {
				if call, ok := ins.(*ssa.Call); ok {
					if cf := call.Common().StaticCallee(); cf != nil && cf.Object() != nil {
						switch core.FullName(cf.Object().(*types.Func)) {
						case "os.WriteFile", "os.Create", "os.OpenFile", "os.Remove", "os.Rename", "os.Chmod":
							rewrites = true
						}
					}
				}
			}
			for _, s2 := range b.Succs {
				if !seen[s2] {
					seen[s2] = true
					work = append(work, s2)
				}
			}
		}
	}
	c.Check(nEq > 0 && !rewrites, rule, "WriteFileIfNeeded/equal contents are never rewritten", d.Pos(), "no file-system write is reachable once the existing contents are known to equal the new ones",
		"a file whose contents already equal the new contents can still be written (a further condition stands between the comparison and the skip): regenerating an unchanged package touches files, so output is not idempotent and dependent builds re-run")
	c.Check(usesRead, rule, "WriteFileIfNeeded/existing<-os.ReadFile(filename)", d.Pos(), "existing content is read from the target path", "the existing content is not obtained by os.ReadFile(filename)")
}

// guardedByEquality: block b is reached only through the true outcome of a condition that implies
// "os.ReadFile(filename) succeeded and its result equals contents".
func guardedByEquality(fn *ssa.Function, b *ssa.BasicBlock, filename, contents ssa.Value, usesRead *bool) bool {
	for _, ib := range fn.Blocks {
		if len(ib.Instrs) == 0 {
			continue
		}
		ifi, ok := ib.Instrs[len(ib.Instrs)-1].(*ssa.If)
		if !ok {
			continue
		}
		cond, neg := stripNot(ifi.Cond)
		succ := ib.Succs[0]
		if neg {
			succ = ib.Succs[1]
		}
		if len(succ.Preds) != 1 || !succ.Dominates(b) {
			continue
		}
		if trueImpliesEqual(cond, filename, contents, 0, usesRead) {
			return true
		}
	}
	return false
}

func stripNot(v ssa.Value) (ssa.Value, bool) {
	neg := false
	for {
		if u, ok := v.(*ssa.UnOp); ok && u.Op == token.NOT {
			neg = !neg
			v = u.X
			continue
		}
		return v, neg
	}
}

// trueImpliesEqual: whenever v is true, os.ReadFile(filename) returned no error and bytes equal to contents.
func trueImpliesEqual(v ssa.Value, filename, contents ssa.Value, depth int, usesRead *bool) bool {
	if depth > 3 {
		return false
	}
	switch x := v.(type) {
	case *ssa.Phi: // value form of `a && b`
		some := false
		for _, e := range x.Edges {
			if k, ok := e.(*ssa.Const); ok && k.Value != nil && k.Value.String() == "false" {
				continue
			}
			if !trueImpliesEqual(e, filename, contents, depth, usesRead) {
				return false
			}
			some = true
		}
		return some
	case *ssa.Call:
		cf := x.Common().StaticCallee()
		if cf == nil {
			return false
		}
		if cf.Object() != nil && core.FullName(cf.Object().(*types.Func)) == "bytes.Equal" && len(x.Common().Args) == 2 {
			a, b := x.Common().Args[0], x.Common().Args[1]
			other := ssa.Value(nil)
			if a == contents {
				other = b
			} else if b == contents {
				other = a
			}
			ex, ok := other.(*ssa.Extract)
			if !ok || ex.Index != 0 {
				return false
			}
			rd, ok := ex.Tuple.(*ssa.Call)
			if !ok || rd.Common().StaticCallee() == nil || rd.Common().StaticCallee().Object() == nil || core.FullName(rd.Common().StaticCallee().Object().(*types.Func)) != "os.ReadFile" || len(rd.Common().Args) != 1 || rd.Common().Args[0] != filename {
				return false
			}
			*usesRead = true
			// the comparison is evaluated only where the read error is nil
			return errNilDominates(rd, x.Block())
		}
		// a predicate helper of the module: every return is `false` or implies equality in the helper
		if !core.InModule(funcObj(cf)) || len(cf.Blocks) == 0 {
			return false
		}
		var pf, pc ssa.Value
		for i, a := range x.Common().Args {
			if a == filename && i < len(cf.Params) {
				pf = cf.Params[i]
			}
			if a == contents && i < len(cf.Params) {
				pc = cf.Params[i]
			}
		}
		if pf == nil || pc == nil {
			return false
		}
		some := false
		for _, b := range cf.Blocks {
			for _, ins := range b.Instrs {
				r, ok := ins.(*ssa.Return)
				if !ok || len(r.Results) != 1 {
					continue
				}
				if k, ok := r.Results[0].(*ssa.Const); ok && k.Value != nil && k.Value.String() == "false" {
					continue
				}
				if !trueImpliesEqual(r.Results[0], pf, pc, depth+1, usesRead) {
					return false
				}
				some = true
			}
		}
		return some
	}
	return false
}

func funcObj(f *ssa.Function) *types.Func {
	if f == nil || f.Object() == nil {
		return nil
	}
	fo, _ := f.Object().(*types.Func)
	return fo
}

// errNilDominates: block b is reached only where the error result of call rd was nil.
func errNilDominates(rd *ssa.Call, b *ssa.BasicBlock) bool {
	fn := rd.Parent()
	for _, ib := range fn.Blocks {
		if len(ib.Instrs) == 0 {
			continue
		}
		ifi, ok := ib.Instrs[len(ib.Instrs)-1].(*ssa.If)
		if !ok {
			continue
		}
		cond, neg := stripNot(ifi.Cond)
		be, ok := cond.(*ssa.BinOp)
		if !ok || (be.Op != token.EQL && be.Op != token.NEQ) {
			continue
		}
		isErr := func(v ssa.Value) bool {
			ex, ok := v.(*ssa.Extract)
			return ok && ex.Index == 1 && ex.Tuple == ssa.Value(rd)
		}
		isNil := func(v ssa.Value) bool { k, ok := v.(*ssa.Const); return ok && k.IsNil() }
		if !((isErr(be.X) && isNil(be.Y)) || (isErr(be.Y) && isNil(be.X))) {
			continue
		}
		nilOnTrue := (be.Op == token.EQL) != neg
		succ := ib.Succs[1]
		if nilOnTrue {
			succ = ib.Succs[0]
		}
		if len(succ.Preds) == 1 && (succ == b || succ.Dominates(b)) {
			return true
		}
	}
	return false
}

func identObj(info *types.Info, e ast.Expr) types.Object {
	id, ok := ast.Unparen(e).(*ast.Ident)
	if !ok {
		return nil
	}
	if o := info.Uses[id]; o != nil {
		return o
	}
	return info.Defs[id]
}

// enclosingIfCond returns the condition of the innermost if whose *body* directly or
// indirectly contains n (not its else branch), or nil.
func enclosingIfCond(body *ast.BlockStmt, n ast.Node) ast.Expr {
	var cond ast.Expr
	ast.Inspect(body, func(x ast.Node) bool {
		if is, ok := x.(*ast.IfStmt); ok {
			if is.Body.Pos() <= n.Pos() && n.End() <= is.Body.End() {
				cond = is.Cond
			}
		}
		return true
	})
	return cond
}

// enclosingIfConds returns the conjunction of the conditions of every if whose then-branch
// contains n (nested ifs are a spelled-out &&), or nil.
func enclosingIfConds(body *ast.BlockStmt, n ast.Node) ast.Expr {
	var cond ast.Expr
	ast.Inspect(body, func(x ast.Node) bool {
		if is, ok := x.(*ast.IfStmt); ok {
			if is.Body.Pos() <= n.Pos() && n.End() <= is.Body.End() {
				if cond == nil {
					cond = is.Cond
				} else {
					cond = &ast.BinaryExpr{X: cond, Op: token.LAND, Y: is.Cond}
				}
			} else if is.Else != nil && is.Else.Pos() <= n.Pos() && n.End() <= is.Else.End() {
				var neg ast.Expr = &ast.UnaryExpr{Op: token.NOT, X: &ast.ParenExpr{X: is.Cond}}
				if cond == nil {
					cond = neg
				} else {
					cond = &ast.BinaryExpr{X: cond, Op: token.LAND, Y: neg}
				}
			}
		}
		return true
	})
	return cond
}

func condIsFullEquality(info *types.Info, cond ast.Expr, errObj, existing, contents types.Object) bool {
	// conjunction containing `err == nil` and bytes.Equal(existing, contents) (either order), nothing negated
	var conj []ast.Expr
	var split func(e ast.Expr)
	split = func(e ast.Expr) {
		if be, ok := ast.Unparen(e).(*ast.BinaryExpr); ok && be.Op.String() == "&&" {
			split(be.X)
			split(be.Y)
			return
		}
		conj = append(conj, ast.Unparen(e))
	}
	split(cond)
	hasErr, hasEq := false, false
	for _, e := range conj {
		if o, neq, ok := core.IsNilTest(info, e); ok && o == errObj && !neq {
			hasErr = true
			continue
		}
		if u, ok := e.(*ast.UnaryExpr); ok && u.Op == token.NOT { // else-branch of `if err != nil`
			if o, neq, ok := core.IsNilTest(info, ast.Unparen(u.X)); ok && o == errObj && neq {
				hasErr = true
				continue
			}
		}
		if call, ok := e.(*ast.CallExpr); ok {
			if cf := core.Callee(info, call); cf != nil && core.FullName(cf) == "bytes.Equal" && len(call.Args) == 2 {
				a, b := identObj(info, call.Args[0]), identObj(info, call.Args[1])
				if (a == existing && b == contents) || (a == contents && b == existing) {
					hasEq = true
					continue
				}
			}
		}
	}
	return hasErr && hasEq && existing != nil
}
