package rules

import (
	"fmt"
	"go/ast"
	"go/token"
	"go/types"
	"strings"

	"verif/checker/internal/core"
	"verif/checker/internal/gee"
)

// ---------------------------------------------------------------------------
// C01 / C16 / C17: step-level framing in the C++ binary generator.
// ---------------------------------------------------------------------------

func geeRows(c *core.Ctx, pkgRel, fn string) ([]gee.Row, *ast.FuncDecl, *types.Info) {
	_, d, p := c.Func(pkgRel, fn)
	if d == nil {
		return nil, nil, nil
	}
	x := &gee.Extractor{Info: p.TypesInfo, Fset: c.Fset}
	return x.Extract(fn, d), d, p.TypesInfo
}

func guardKey(r gee.Row) string { return strings.Join(r.Guards, " ∧ ") }

// B2: the four (direction × single/batch) combinations of a stream step pair up.
func ruleStepFraming(c *core.Ctx) {
	const rule = "B2"
	c.Rule(rule, "cpp/binary.writeStepRw pairs the stream framing routines: single write WriteBlock ↔ single read ReadBlock, batch write = the items as one length-prefixed vector block ↔ batch read ReadBlocksIntoVector, non-stream steps use the plain type routine; the element routine is typeRwFunction of the step's item type in every row", 7)
	rows, d, info := geeRows(c, "internal/cpp/binary", "writeStepRw")
	if d == nil {
		c.Undecided(rule, "anchor/cpp/binary.writeStepRw", 0, "anchor not found")
		return
	}
	// the pairing table as a function of the three flags; the generator's table is evaluated for
	// each of the eight assignments, so that it does not matter how the tests are nested, ordered
	// or combined (`if write { if isPlural`, a tagless switch, `case write && isPlural`, ...)
	type cell struct {
		tmpl string
		elem string // what the element routine is instantiated with
	}
	prescribed := func(isStream, write, isPlural bool) cell {
		switch {
		case !isStream:
			return cell{"%s(stream_, %s);\n", "step"}
		case write && isPlural:
			return cell{"%s(stream_, %s);\n", "vector"}
		case write:
			return cell{"yardl::binary::WriteBlock<%s, %s>(stream_, %s);\n", "step"}
		case isPlural:
			return cell{"yardl::binary::ReadBlocksIntoVector<%s, %s>(stream_, current_block_remaining_, %s);\n", "scalar"}
		default:
			return cell{"read_block_successful = yardl::binary::ReadBlock<%s, %s>(stream_, current_block_remaining_, %s);\n", "step"}
		}
	}
	src := nodeSrcDeep(c, d, 2)
	for _, isStream := range []bool{false, true} {
		for _, write := range []bool{true, false} {
			for _, isPlural := range []bool{true, false} {
				asg := map[string]bool{"isStream": isStream, "write": write, "isPlural": isPlural}
				key := fmt.Sprintf("writeStepRw/[isStream=%v write=%v isPlural=%v]", isStream, write, isPlural)
				var hit []gee.Row
				undecided := ""
				for _, r := range rows {
					if r.Kind != "emit" {
						continue
					}
					sat, unknown := evalGuards(r.Guards, asg)
					if len(unknown) > 0 {
						undecided = strings.Join(unknown, ", ")
						continue
					}
					if sat {
						hit = append(hit, r)
					}
				}
				want := prescribed(isStream, write, isPlural)
				switch {
				case undecided != "":
					c.Undecided(rule, key, d.Pos(), "an emission depends on a condition other than isStream/write/isPlural: "+undecided)
				case len(hit) != 1:
					c.Bad(rule, key, d.Pos(), fmt.Sprintf("%d emissions for this combination of isStream/write/isPlural (expected exactly one)", len(hit)))
				default:
					r := hit[0]
					c.Check(r.Tmpl == want.tmpl, rule, key+"/routine", r.Pos, strings.TrimSpace(r.Tmpl), fmt.Sprintf("emits %q, the pairing table prescribes %q", r.Tmpl, want.tmpl))
					// the element routine argument is typeRwFunction(<type>, write)
					elemArg := ""
					for _, a := range r.Args {
						if strings.HasPrefix(a, "typeRwFunction(") && strings.HasSuffix(a, ", write)") {
							elemArg = a
						}
					}
					okElem := elemArg != ""
					why := "the framing routine is not instantiated with typeRwFunction(<type>, write)"
					if okElem {
						switch want.elem {
						case "scalar":
							okElem = strings.Contains(elemArg, ".ToScalar()") || strings.Contains(src, ".ToScalar()")
							why = "ReadBlocksIntoVector must be instantiated with the routine of the scalar item type (ToScalar())"
						case "vector":
							okElem = strings.Contains(src, "Dimensionality = &dsl.Vector{}")
							why = "the batch write no longer rewrites the step type to an unbounded vector: the block has no item count"
						}
					}
					c.Check(okElem, rule, key+"/element routine", r.Pos, "element routine = typeRwFunction("+want.elem+" type, write)", why)
				}
			}
		}
	}
	_ = info
}

// evalGuards evaluates a conjunction of guard literals (`a`, `!(a)`) under an assignment of the
// atoms; atoms without a value are returned as unknown.
func evalGuards(guards []string, asg map[string]bool) (bool, []string) {
	sat := true
	var unknown []string
	for _, g := range guards {
		atom, neg := g, false
		if strings.HasPrefix(g, "!(") && strings.HasSuffix(g, ")") {
			atom, neg = g[2:len(g)-1], true
		}
		v, ok := asg[atom]
		if !ok {
			// conjunctions / disjunctions of known atoms
			if val, known := evalBoolText(atom, asg); known {
				v, ok = val, true
			}
		}
		if !ok {
			unknown = append(unknown, atom)
			continue
		}
		if v == neg {
			sat = false
		}
	}
	if !sat {
		return false, nil // a falsified literal decides the row whatever the unknown atoms are
	}
	return sat, unknown
}

func evalBoolText(e string, asg map[string]bool) (bool, bool) {
	e = strings.TrimSpace(e)
	if parts := strings.Split(e, " || "); len(parts) > 1 {
		res, known := false, true
		for _, p := range parts {
			v, k := evalBoolText(p, asg)
			if k && v {
				return true, true
			}
			known = known && k
		}
		return res, known
	}
	if parts := strings.Split(e, " && "); len(parts) > 1 {
		res, known := true, true
		for _, p := range parts {
			v, k := evalBoolText(p, asg)
			if k && !v {
				return false, true
			}
			known = known && k
		}
		return res, known
	}
	if strings.HasPrefix(e, "!") {
		v, k := evalBoolText(strings.Trim(e[1:], "()"), asg)
		return !v, k
	}
	v, ok := asg[e]
	return v, ok
}

// nodeSrcDeep: assignments of d and of the same-package functions it calls (to the given depth).
func nodeSrcDeep(c *core.Ctx, d *ast.FuncDecl, depth int) string {
	out := nodeSrc(c, d)
	if depth == 0 {
		return out
	}
	p := c.DeclPkg(d)
	for _, cs := range c.Calls(d) {
		if cs.Callee != nil && p != nil && cs.Callee.Pkg() == p.Types {
			if cd := c.Decl(cs.Callee); cd != nil && cd != d {
				out += nodeSrcDeep(c, cd, depth-1)
			}
		}
	}
	return out
}

func nodeSrc(c *core.Ctx, d *ast.FuncDecl) string {
	var sb strings.Builder
	ast.Inspect(d.Body, func(n ast.Node) bool {
		if as, ok := n.(*ast.AssignStmt); ok {
			for i := range as.Lhs {
				if i < len(as.Rhs) {
					sb.WriteString(types.ExprString(as.Lhs[i]) + " = " + types.ExprString(as.Rhs[i]) + "\n")
				}
			}
		}
		return true
	})
	return sb.String()
}

// B1: an empty batch writes nothing (a block count of 0 is the end-of-stream marker).
func ruleEmptyBatchGuard(c *core.Ctx) {
	const rule = "B1"
	c.Rule(rule, "cpp/binary.writeProtocolMethods emits the batch write of a stream step only inside `if (!values.empty()) { ... }`: a zero block count is the end-of-stream marker", 2)
	_, d, p := c.Func("internal/cpp/binary", "writeProtocolMethods")
	wps, _, _ := c.Func("internal/cpp/binary", "writeProtocolStep")
	if d == nil || wps == nil {
		c.Undecided(rule, "anchor/cpp/binary.writeProtocolMethods", 0, "anchor not found")
		return
	}
	info := p.TypesInfo
	// every call writeProtocolStep(w, step, changes, true /*isPlural*/, true /*write*/)
	n := 0
	ast.Inspect(d.Body, func(x ast.Node) bool {
		ce, ok := x.(*ast.CallExpr)
		if !ok {
			return true
		}
		if f := core.Callee(info, ce); f == nil || f.Origin() != wps || len(ce.Args) != 5 {
			return true
		}
		if types.ExprString(ce.Args[3]) != "true" || types.ExprString(ce.Args[4]) != "true" {
			return true
		}
		n++
		// enclosing w.Indented(func(){...}) whose previous sibling statement writes `if (!values.empty()) {`
		guarded := false
		ast.Inspect(d.Body, func(y ast.Node) bool {
			blk, ok := y.(*ast.BlockStmt)
			if !ok {
				return true
			}
			for i, st := range blk.List {
				if !(st.Pos() <= ce.Pos() && ce.End() <= st.End()) || i == 0 {
					continue
				}
				es, ok := st.(*ast.ExprStmt)
				if !ok {
					continue
				}
				call, ok := es.X.(*ast.CallExpr)
				if !ok || !strings.HasSuffix(types.ExprString(call.Fun), ".Indented") {
					continue
				}
				if prev, ok := blk.List[i-1].(*ast.ExprStmt); ok {
					if pc, ok := prev.X.(*ast.CallExpr); ok && len(pc.Args) == 1 {
						if tv, ok := info.Types[pc.Args[0]]; ok && tv.Value != nil && strings.Contains(tv.Value.ExactString(), "if (!values.empty()) {") {
							guarded = true
						}
					}
				}
			}
			return true
		})
		c.Check(guarded, rule, "writeProtocolMethods/batch write of a stream step", ce.Pos(), "emitted inside `if (!values.empty()) { ... }`",
			"the batch write is emitted without the `if (!values.empty())` guard: WriteVector of an empty batch writes the count 0, which readers take for the end of the stream — later items are lost")
		return true
	})
	c.Check(n >= 1, rule, "writeProtocolMethods/batch write present", d.Pos(), fmt.Sprintf("%d batch write emission(s)", n), "no batch write emission found")
}

// B3: the stream terminator goes through the per-version switch: it is written for the
// current version and for versions in which the step exists, and NOT for a version to
// which the step was added later.
func ruleEndStream(c *core.Ctx) {
	const rule = "B3"
	c.Rule(rule, "cpp/binary.writeEndStream writes the terminator `WriteInteger(stream_, 0U)` through writeChangeSwitchCase: emitted for the current version and unchanged/changed steps, nothing for versions in which the step did not exist", 3)
	_, d, p := c.Func("internal/cpp/binary", "writeEndStream")
	wsc, _, _ := c.Func("internal/cpp/binary", "writeChangeSwitchCase")
	if d == nil || wsc == nil {
		c.Undecided(rule, "anchor/cpp/binary.writeEndStream", 0, "anchor not found")
		return
	}
	info := p.TypesInfo
	calls := callsIn(info, d.Body, wsc)
	c.Check(len(calls) == 1, rule, "writeEndStream/per-version switch", d.Pos(), "the terminator is emitted through writeChangeSwitchCase", "writeEndStream no longer goes through the per-version switch: a writer targeting an older version in which the stream step does not exist emits a stray 0 byte")
	if len(calls) != 1 {
		return
	}
	args := calls[0].Args
	lits := 0
	var bodies []string
	// closures bound to locals (`writeTerminator := func(...) {...}`) count like literals passed in place
	bound := map[types.Object]*ast.FuncLit{}
	ast.Inspect(d.Body, func(n ast.Node) bool {
		if as, ok := n.(*ast.AssignStmt); ok && len(as.Lhs) == 1 && len(as.Rhs) == 1 {
			if fl, ok := as.Rhs[0].(*ast.FuncLit); ok {
				if o := identObj(info, as.Lhs[0]); o != nil {
					bound[o] = fl
				}
			}
		}
		return true
	})
	for _, a := range args {
		fl, ok := ast.Unparen(a).(*ast.FuncLit)
		if !ok {
			fl, ok = bound[identObj(info, a)]
		}
		if ok && fl != nil {
			lits++
			txt := ""
			ast.Inspect(fl.Body, func(n ast.Node) bool {
				if bl, ok := n.(*ast.BasicLit); ok {
					txt += bl.Value
				}
				return true
			})
			bodies = append(bodies, txt)
		}
	}
	c.Check(lits >= 2 && strings.Contains(bodies[0], "WriteInteger(stream_, 0U)"), rule, "writeEndStream/terminator", d.Pos(), "default case writes WriteInteger(stream_, 0U)", "the default case does not write the 0 terminator")
	c.Check(lits >= 2 && strings.TrimSpace(bodies[1]) == "", rule, "writeEndStream/added step writes nothing", d.Pos(), "the added-step case emits nothing", "the case for versions that lack the step emits something")
}

// G2: one plan for both directions. In the C++ generators that take a `write` flag the
// table under write equals the table under !write after renaming Write<->Read.
func ruleDirectionDuality(c *core.Ctx) {
	const rule = "G2"
	c.Rule(rule, "cpp/binary typeRwFunction / typeDefinitionRwFunction / writeSerializers: rows that depend on the `write` flag come in Write/Read pairs with identical guards and arguments; all other rows take the direction only through verb(write); every call inside a function with a `write` flag passes that flag on", 50)
	for _, fn := range []string{"typeRwFunction", "typeDefinitionRwFunction", "writeSerializers"} {
		rows, d, _ := geeRows(c, "internal/cpp/binary", fn)
		if d == nil {
			c.Undecided(rule, "anchor/cpp/binary."+fn, 0, "anchor not found")
			continue
		}
		type half struct{ w, r *gee.Row }
		pairs := map[string]*half{}
		for i := range rows {
			r := rows[i]
			if r.Kind != "return" && r.Kind != "emit" {
				continue
			}
			dir := ""
			var rest []string
			for _, g := range r.Guards {
				switch g {
				case "write":
					dir = "w"
				case "!(write)":
					dir = "r"
				default:
					rest = append(rest, g)
				}
			}
			key := fmt.Sprintf("%s/%s [%s]", fn, r.In, strings.Join(rest, " ∧ "))
			if dir == "" {
				// direction must come from verb(write) if the template names a routine
				if strings.Contains(r.Tmpl, "yardl::binary::%s") || strings.HasPrefix(r.Tmpl, "%sUnion") {
					ok := len(r.Args) > 0 && (r.Args[0] == "verb(write)" || r.Args[0] == "$verb" || r.Args[0] == "verb")
					c.Check(ok, rule, key+"/"+r.Tmpl, r.Pos, "direction comes from verb(write)", "the routine name is not derived from verb(write): reader and writer can pick different routines")
				}
				continue
			}
			if pairs[key] == nil {
				pairs[key] = &half{}
			}
			if dir == "w" {
				pairs[key].w = &rows[i]
			} else {
				pairs[key].r = &rows[i]
			}
		}
		for key, h := range pairs {
			if h.w == nil || h.r == nil {
				var pos = d.Pos()
				c.Bad(rule, key, pos, "a row exists for one direction only: the other direction falls through to a different routine")
				continue
			}
			wt := strings.ReplaceAll(strings.ReplaceAll(h.w.Tmpl, "Write", "X"), "Writer", "Xer")
			rt := strings.ReplaceAll(strings.ReplaceAll(h.r.Tmpl, "Read", "X"), "Reader", "Xer")
			same := wt == rt && strings.Join(h.w.Args, ",") == strings.Join(h.r.Args, ",")
			c.Check(same, rule, key, h.w.Pos, fmt.Sprintf("%q ↔ %q", h.w.Tmpl, h.r.Tmpl), fmt.Sprintf("write emits %q %v but read emits %q %v: the two directions use different encodings", h.w.Tmpl, h.w.Args, h.r.Tmpl, h.r.Args))
		}
	}
	// direction threading: inside a function that has a `write bool` parameter, every call of a
	// function with such a parameter passes the caller's own flag (or its negation, next to Inverse())
	for _, d := range c.AllDecls() {
		p := c.DeclPkg(d)
		if !backendFiles(c.Fset.Position(d.Pos()).Filename) {
			continue
		}
		own := writeParam(p.TypesInfo, d)
		if own == nil {
			continue
		}
		for _, cs := range c.Calls(d) {
			if cs.Callee == nil {
				continue
			}
			cd := c.Decl(cs.Callee)
			if cd == nil {
				continue
			}
			idx := writeParamIndex(cd)
			if idx < 0 || idx >= len(cs.Call.Args) {
				continue
			}
			arg := ast.Unparen(cs.Call.Args[idx])
			if u, ok := arg.(*ast.UnaryExpr); ok && u.Op == token.NOT {
				arg = ast.Unparen(u.X)
			}
			id, isId := arg.(*ast.Ident)
			ok := isId && p.TypesInfo.Uses[id] == own
			c.Check(ok, rule, fmt.Sprintf("%s/direction passed to %s", c.FuncName(d), cs.Callee.Name()), cs.Call.Args[idx].Pos(),
				"the caller's own write flag", fmt.Sprintf("%s passes %s as the direction of %s instead of its own write flag: one direction is generated with the other direction's routines", d.Name.Name, types.ExprString(cs.Call.Args[idx]), cs.Callee.Name()))
		}
	}
}

func writeParamIndex(d *ast.FuncDecl) int {
	i := 0
	for _, fl := range d.Type.Params.List {
		for _, n := range fl.Names {
			if n.Name == "write" && types.ExprString(fl.Type) == "bool" {
				return i
			}
			i++
		}
		if len(fl.Names) == 0 {
			i++
		}
	}
	return -1
}

func writeParam(info *types.Info, d *ast.FuncDecl) types.Object {
	for _, fl := range d.Type.Params.List {
		for _, n := range fl.Names {
			if n.Name == "write" && types.ExprString(fl.Type) == "bool" {
				return info.Defs[n]
			}
		}
	}
	return nil
}

// G4: the C++ primitive → routine family table equals refs/wire.json.
func ruleCppPrimitiveFamilies(c *core.Ctx) {
	const rule = "G4"
	c.Rule(rule, "cpp/binary.typeDefinitionRwFunction maps each of the 18 primitives to the routine family the wire format reference prescribes (Integer / FloatingPoint / String / Date / Time / DateTime)", 18)
	var ref struct {
		Cpp map[string]string `json:"cpp_family"`
	}
	if err := loadRef("wire.json", &ref); err != nil {
		c.Undecided(rule, "refs/wire.json", 0, err.Error())
		return
	}
	_, d, p := c.Func("internal/cpp/binary", "typeDefinitionRwFunction")
	if d == nil {
		c.Undecided(rule, "anchor", 0, "typeDefinitionRwFunction not found")
		return
	}
	fams := map[string]bool{}
	for _, f := range ref.Cpp {
		fams[f] = true
	}
	got := map[string]string{}
	// the table may be a closure of the function or a helper of the package it calls: every `return "<family>"`
	// guarded by a test on a PrimitiveDefinition value is a row
	for _, fd := range declsCalledInPkg(c, d, 2) {
		x := &gee.Extractor{Info: p.TypesInfo, Fset: c.Fset}
		for _, r := range x.Extract(fd.Name.Name, fd) {
			if r.Kind != "return" || !fams[r.Tmpl] {
				continue
			}
			for _, g := range r.Guards {
				if strings.HasPrefix(g, "PrimitiveDefinition∈{") {
					for _, prim := range strings.Split(g[len("PrimitiveDefinition∈{"):len(g)-1], "|") {
						prim = strings.Trim(prim, "\"")
						if strings.HasPrefix(prim, "dsl.") {
							prim = "complexfloat64" // dsl.PrimitiveComplexFloat64 is the only primitive spelled by identifier in that switch
						}
						if old, dup := got[prim]; dup && old != r.Tmpl {
							got[prim] = old + "|" + r.Tmpl
						} else {
							got[prim] = r.Tmpl
						}
					}
				}
			}
		}
	}
	for prim, fam := range ref.Cpp {
		c.Check(got[prim] == fam, rule, "cpp family/"+prim, d.Pos(), prim+" → "+got[prim], fmt.Sprintf("%s is mapped to the %q routines, the reference says %q", prim, got[prim], fam))
	}
}

// H1 (C15/C04): generated readers hand the schema they read / their own schema to the
// checking routine, and the emitted VersionFromSchema ends in an unconditional throw.
func ruleStateMachineSchemaCheck(c *core.Ctx) {
	const rule = "H1"
	c.Rule(rule, "generated readers check the schema: C++ binary reader constructors initialise version_ with VersionFromSchema(schema_read_); the emitted VersionFromSchema compares with the current and every previous schema and ends in an unconditional throw; generated Python readers pass <Reader>.schema (never None) to the runtime reader, whose schema comparison is then active", 8)
	// C++ constructors: every emitted `version_(...)` initialiser of a generated binary reader is
	// VersionFromSchema(schema_read_), and both BinaryReader base initialisers exist — decided on the
	// text constants of writeHeaderFile and the helpers it calls, however the constructor is assembled
	_, d, _ := c.Func("internal/cpp/binary", "writeHeaderFile")
	if d == nil {
		c.Undecided(rule, "anchor/cpp/binary.writeHeaderFile", 0, "anchor not found")
	} else {
		nVersion, nBase, badInit := 0, 0, ""
		for _, s := range stringConstantsDeep(c, "internal/cpp/binary", "writeHeaderFile") {
			if strings.Contains(s, "yardl::binary::BinaryReader(") {
				nBase++
			}
			if strings.Contains(s, "version_(") {
				if strings.Contains(s, "version_(version)") && !strings.Contains(s, "BinaryReader(") {
					continue // the writers' initialiser: the version is a constructor parameter there
				}
				nVersion++
				if !strings.Contains(s, "::VersionFromSchema(schema_read_)") {
					badInit = s
				}
			}
		}
		c.Check(nVersion > 0 && badInit == "", rule, "cpp reader constructor", d.Pos(), "version_ = VersionFromSchema(schema_read_)",
			"a generated binary reader constructor does not pass the schema read from the stream to VersionFromSchema: a foreign stream is decoded as if it were its own ("+strings.TrimSpace(badInit)+")")
		// writers: the header of a stream written for version v carries version v's schema in EVERY constructor
		nW, badW := 0, ""
		for _, s := range stringConstantsDeep(c, "internal/cpp/binary", "writeHeaderFile") {
			if strings.Contains(s, "yardl::binary::BinaryWriter(") {
				nW++
				if !strings.Contains(s, "::SchemaFromVersion(version)") {
					badW = s
				}
			}
		}
		c.Check(nW >= 1 && badW == "", rule, "cpp writer constructors pass SchemaFromVersion(version)", d.Pos(), fmt.Sprintf("%d writer constructor initialiser(s) hand SchemaFromVersion(version) to the BinaryWriter base", nW),
			"a generated binary writer constructor does not pass SchemaFromVersion(version) to the BinaryWriter base ("+strings.TrimSpace(badW)+"): a stream written for an older version carries another version's schema in its header, so readers of that older version refuse it and the current reader decodes it with the wrong layout")
		c.Check(nBase >= 1, rule, "cpp reader constructors found", d.Pos(), "the generated readers initialise their yardl::binary::BinaryReader base (which reads the header)", "no generated reader constructor initialises the BinaryReader base")
	}
	// VersionFromSchema body (helpers expanded in place)
	prow, pd := flatRows(c, "internal/cpp/protocols", "writeDefinitions")
	if pd == nil {
		c.Undecided(rule, "anchor/cpp/protocols.writeDefinitions", 0, "anchor not found")
	} else {
		var seq []gee.Row
		var hdr gee.Row
		in := false
		for _, r := range prow {
			if r.Kind != "emit" {
				continue
			}
			if strings.HasPrefix(r.Tmpl, "Version %s::VersionFromSchema(") {
				in = true
				hdr = r // the guards and loops the whole function body is emitted under
				continue
			}
			if in {
				if strings.Contains(r.Tmpl, "::%s(%s& value) {") || strings.HasPrefix(r.Tmpl, "%s %s::%s(") {
					break
				}
				seq = append(seq, r)
			}
		}
		hasCur, hasPrev, lastThrow := false, false, false
		for _, r := range seq {
			if strings.HasPrefix(r.Tmpl, "if (schema == %s::schema_)") {
				hasCur = true
			}
			if strings.HasPrefix(r.Tmpl, "else if (schema == previous_schemas_[%d])") && len(r.Loop) > len(hdr.Loop) {
				hasPrev = true
			}
			if strings.HasPrefix(strings.TrimSpace(r.Tmpl), "throw std::runtime_error(") {
				lastThrow = strings.Join(r.Guards, "∧") == strings.Join(hdr.Guards, "∧") && strings.Join(r.Loop, "/") == strings.Join(hdr.Loop, "/")
			} else if strings.TrimSpace(r.Tmpl) != "}" && !strings.HasPrefix(r.Tmpl, "return Version::") {
				if lastThrow {
					lastThrow = false
				}
			}
		}
		c.Check(hasCur, rule, "VersionFromSchema/current schema", pd.Pos(), "compares with the current schema", "the emitted VersionFromSchema does not compare with the current schema")
		c.Check(hasPrev, rule, "VersionFromSchema/previous schemas", pd.Pos(), "compares with every previous schema (loop over ns.Versions)", "the emitted VersionFromSchema does not loop over the previous versions")
		c.Check(lastThrow, rule, "VersionFromSchema/unconditional throw", pd.Pos(), "falls through to an unconditional throw", "the emitted VersionFromSchema does not end in an unconditional throw: an unknown schema yields some version")
	}
	// Python generated readers/writers
	for _, site := range [][2]string{{"internal/python/binary", "writeProtocols"}, {"internal/python/ndjson", "writeProtocols"}} {
		rows, d, _ := geeRows(c, site[0], site[1])
		if d == nil {
			c.Undecided(rule, "anchor/"+site[0]+"."+site[1], 0, "anchor not found")
			continue
		}
		n := 0
		for _, r := range rows {
			if r.Kind == "emit" && strings.Contains(r.Tmpl, "ProtocolReader.__init__(self, stream, ") {
				n++
				c.Check(strings.Contains(r.Tmpl, "ProtocolReader.__init__(self, stream, %s.schema)") && len(r.Args) == 1 && strings.Contains(r.Args[0], "AbstractReaderName"), rule,
					site[0]+"/reader passes its schema", r.Pos, "runtime reader receives <Reader>.schema", "the generated Python reader does not pass its own schema to the runtime reader: the schema comparison is skipped (expected_schema None) or made against the wrong text")
			}
		}
		c.Check(n == 1, rule, site[0]+"/reader constructor found", d.Pos(), "1 reader constructor", fmt.Sprintf("expected 1 generated reader constructor emission, found %d", n))
	}
}
