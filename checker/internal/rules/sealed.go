package rules

import (
	"fmt"
	"go/ast"
	"go/types"
	"sort"
	"strings"

	"verif/checker/internal/core"
)

// implementers returns the concrete named types of pkg/dsl (as T or *T, whichever has
// the methods) implementing the named interface of pkg/dsl. Types whose method set only
// satisfies the interface through an embedded *interface-typed* field are excluded.
func implementers(c *core.Ctx, ifaceName string) []types.Type {
	p := c.Pkg("pkg/dsl")
	tn, _ := p.Types.Scope().Lookup(ifaceName).(*types.TypeName)
	if tn == nil {
		return nil
	}
	iface, _ := tn.Type().Underlying().(*types.Interface)
	if iface == nil {
		return nil
	}
	return implementersOf(c, iface)
}

func implementersOf(c *core.Ctx, iface *types.Interface) []types.Type {
	p := c.Pkg("pkg/dsl")
	var out []types.Type
	sc := p.Types.Scope()
	for _, n := range sc.Names() {
		o, ok := sc.Lookup(n).(*types.TypeName)
		if !ok || o.IsAlias() || c.IsTestFile(o.Pos()) {
			continue
		}
		t := o.Type()
		if _, isIface := t.Underlying().(*types.Interface); isIface {
			continue
		}
		if nt, ok := t.(*types.Named); ok && nt.TypeParams().Len() > 0 {
			continue
		}
		var impl types.Type
		_, isStruct := t.Underlying().(*types.Struct)
		if types.Implements(t, iface) && !isStruct {
			impl = t
		} else if types.Implements(types.NewPointer(t), iface) {
			impl = types.NewPointer(t) // struct nodes are always handled by pointer
		}
		if o.Name() == "NodeMeta" {
			continue // position carrier embedded in every node, not a node of the tree
		}
		if impl == nil {
			continue
		}
		if viaEmbeddedInterface(impl, iface) {
			continue
		}
		out = append(out, impl)
	}
	sort.Slice(out, func(i, j int) bool { return typeLabel(out[i]) < typeLabel(out[j]) })
	return out
}

// viaEmbeddedInterface: some method of iface is reached through an embedded field whose
// type is an interface (the struct "implements" by delegation only).
func viaEmbeddedInterface(t types.Type, iface *types.Interface) bool {
	ms := types.NewMethodSet(t)
	for i := 0; i < iface.NumMethods(); i++ {
		sel := ms.Lookup(iface.Method(i).Pkg(), iface.Method(i).Name())
		if sel == nil {
			continue
		}
		idx := sel.Index()
		if len(idx) <= 1 {
			continue
		}
		cur := t
		for _, k := range idx[:len(idx)-1] {
			st := structOf(cur)
			if st == nil {
				break
			}
			f := st.Field(k)
			if _, isIface := f.Type().Underlying().(*types.Interface); isIface && f.Embedded() {
				return true
			}
			cur = f.Type()
		}
	}
	return false
}

func typeLabel(t types.Type) string {
	return types.TypeString(t, func(p *types.Package) string { return "" })
}

// typeSwitchInfo describes one type switch.
type typeSwitchInfo struct {
	stmt        *ast.TypeSwitchStmt
	subject     ast.Expr
	cases       []tsCase
	hasDefault  bool
	defaultBody []ast.Stmt
}
type tsCase struct {
	types []types.Type // nil entry = `case nil`
	body  []ast.Stmt
	cc    *ast.CaseClause
}

func parseTypeSwitch(info *types.Info, ts *ast.TypeSwitchStmt) typeSwitchInfo {
	r := typeSwitchInfo{stmt: ts}
	switch a := ts.Assign.(type) {
	case *ast.AssignStmt:
		r.subject = a.Rhs[0].(*ast.TypeAssertExpr).X
	case *ast.ExprStmt:
		r.subject = a.X.(*ast.TypeAssertExpr).X
	}
	for _, s := range ts.Body.List {
		cc := s.(*ast.CaseClause)
		if cc.List == nil {
			r.hasDefault = true
			r.defaultBody = cc.Body
			continue
		}
		c := tsCase{body: cc.Body, cc: cc}
		for _, e := range cc.List {
			if tv, ok := info.Types[e]; ok && tv.IsNil() {
				c.types = append(c.types, nil)
			} else {
				c.types = append(c.types, info.TypeOf(e))
			}
		}
		r.cases = append(r.cases, c)
	}
	return r
}

// covers reports whether concrete type t is matched by some case of the switch.
func (ts typeSwitchInfo) covers(t types.Type) (int, bool) {
	for i, c := range ts.cases {
		for _, ct := range c.types {
			if ct == nil {
				continue
			}
			if types.Identical(ct, t) {
				return i, true
			}
			if iface, ok := ct.Underlying().(*types.Interface); ok && types.Implements(t, iface) {
				return i, true
			}
		}
	}
	return -1, false
}

func bodyAborts(info *types.Info, body []ast.Stmt) bool {
	aborts := false
	for _, s := range body {
		ast.Inspect(s, func(n ast.Node) bool {
			if ce, ok := n.(*ast.CallExpr); ok && core.NoReturn(info, ce) {
				aborts = true
			}
			return !aborts
		})
	}
	return aborts
}

// findTypeSwitchOn returns the outermost type switches in body whose subject is the identifier obj.
func findTypeSwitches(info *types.Info, body ast.Node, pred func(typeSwitchInfo) bool) []typeSwitchInfo {
	var out []typeSwitchInfo
	ast.Inspect(body, func(n ast.Node) bool {
		if ts, ok := n.(*ast.TypeSwitchStmt); ok {
			ti := parseTypeSwitch(info, ts)
			if pred == nil || pred(ti) {
				out = append(out, ti)
			}
		}
		return true
	})
	return out
}

// ---- V1/V2: the visitor and the rewriter reach every node and every child ----

// fields that are cross references or metadata, not children of the tree
var nonChildFields = map[string]string{
	"SimpleType.ResolvedDefinition":               "cross reference to the definition, not a child (visiting it would loop)",
	"DefinitionMeta.TypeParameters":               "declared generic parameters: leaf nodes handled by the pass that needs them",
	"DefinitionMeta.TypeArguments":                "type arguments of an instantiated generic definition; visited through the referencing SimpleType",
	"Namespace.References":                        "imported namespaces are separate roots of Environment.Namespaces",
	"UnaryExpression.ResolvedType":                "inferred type annotation, not a child",
	"BinaryExpression.ResolvedType":               "inferred type annotation, not a child",
	"IntegerLiteralExpression.ResolvedType":       "inferred type annotation, not a child",
	"FloatingPointLiteralExpression.ResolvedType": "inferred type annotation, not a child",
	"StringLiteralExpression.ResolvedType":        "inferred type annotation, not a child",
	"MemberAccessExpression.ResolvedType":         "inferred type annotation, not a child",
	"SubscriptExpression.ResolvedType":            "inferred type annotation, not a child",
	"FunctionCallExpression.ResolvedType":         "inferred type annotation, not a child",
	"TypeConversionExpression.ResolvedType":       "inferred type annotation, not a child",
	"SwitchExpression.ResolvedType":               "inferred type annotation, not a child",
}

// node types that legitimately have no case in a traversal switch
var uncasedNodeTypes = map[string]string{
	"VisitorWithContext.VisitChildren/*SubscriptArgument": "never passed to Visit: the *SubscriptExpression case visits arg.Value directly",
}

func isNodeish(t types.Type, node *types.Interface, depth int) bool {
	if depth > 3 {
		return false
	}
	switch x := t.(type) {
	case *types.Slice:
		return isNodeish(x.Elem(), node, depth+1)
	case *types.Pointer:
		if types.Implements(x, node) {
			return true
		}
		return isNodeish(x.Elem(), node, depth+1)
	case *types.Named:
		if x.Obj().Name() == "NodeMeta" {
			return false
		}
		if types.Implements(x, node) || types.Implements(types.NewPointer(x), node) {
			if _, isStr := x.Underlying().(*types.Basic); isStr {
				return false // PrimitiveDefinition-like leaf
			}
			return true
		}
		if _, ok := x.Underlying().(*types.Slice); ok {
			return isNodeish(x.Underlying(), node, depth+1)
		}
		if st, ok := x.Underlying().(*types.Struct); ok {
			// plain struct holding nodes (SubscriptArgument)
			for i := 0; i < st.NumFields(); i++ {
				if isNodeish(st.Field(i).Type(), node, depth+1) {
					return true
				}
			}
		}
		return false
	case *types.Alias:
		return isNodeish(types.Unalias(x), node, depth)
	}
	return false
}

func ruleVisitorCoverage(funcName, ruleTot, ruleChild string, minCases int) func(c *core.Ctx) {
	return func(c *core.Ctx) {
		c.Rule(ruleTot, funcName+": the node type switch has a case for every concrete Node implementer of pkg/dsl", minCases)
		c.Rule(ruleChild, funcName+": the case for struct T passes every Node-typed field of T on (child coverage), cross-reference fields excepted by table", minCases)
		_, d, p := c.Func("pkg/dsl", funcName)
		if d == nil {
			c.Undecided(ruleTot, "anchor/pkg/dsl."+funcName, 0, "anchor function not found")
			return
		}
		info := p.TypesInfo
		nodeTN, _ := p.Types.Scope().Lookup("Node").(*types.TypeName)
		nodeIface := nodeTN.Type().Underlying().(*types.Interface)
		// the switch on the `node` parameter
		var sw *typeSwitchInfo
		for _, ts := range findTypeSwitches(info, d.Body, nil) {
			if id, ok := ast.Unparen(ts.subject).(*ast.Ident); ok && id.Name == "node" && len(ts.cases) >= 20 {
				t := ts
				sw = &t
				break
			}
		}
		if sw == nil {
			c.Undecided(ruleTot, funcName+"/switch node.(type)", d.Pos(), "the type switch over the node parameter was not found")
			return
		}
		impls := implementers(c, "Node")
		c.Stats[ruleTot+"_node_implementers"] = len(impls)
		for _, t := range impls {
			lbl := typeLabel(t)
			if r, ok := uncasedNodeTypes[funcName+"/"+lbl]; ok {
				c.OK(ruleTot, funcName+"/case "+lbl, sw.stmt.Pos(), "table exception: "+r)
				continue
			}
			_, ok := sw.covers(t)
			c.Check(ok, ruleTot, funcName+"/case "+lbl, sw.stmt.Pos(), "has a case", "no case for Node implementer "+lbl+": the traversal aborts (or silently stops) when it meets one")
		}
		// child coverage per struct case
		for _, cs := range sw.cases {
			for _, ct := range cs.types {
				if ct == nil {
					continue
				}
				st := structOf(ct)
				nt := core.NamedOf(ct)
				if st == nil || nt == nil {
					continue
				}
				// a field is "passed on" when it occurs inside an argument of a traversal call
				// (Visit / Rewrite / rewriteSlice / rewriteInterfaceSlice of pkg/dsl), or is
				// ranged over by a loop whose body makes such a call.
				mentioned := map[string]bool{}
				isTraversalCall := func(ce *ast.CallExpr) bool {
					f := core.Callee(info, ce)
					if f == nil || f.Pkg() == nil || f.Pkg().Path() != core.Mod+"/pkg/dsl" {
						return false
					}
					switch f.Name() {
					case "Visit", "Rewrite", "rewriteSlice", "rewriteInterfaceSlice":
						return true
					}
					return false
				}
				markFields := func(n ast.Node) {
					ast.Inspect(n, func(x ast.Node) bool {
						if se, ok := x.(*ast.SelectorExpr); ok {
							if k, ok := fieldOf(info, se); ok {
								mentioned[k.typ+"."+k.field] = true
							}
						}
						return true
					})
				}
				for _, s := range cs.body {
					ast.Inspect(s, func(n ast.Node) bool {
						switch x := n.(type) {
						case *ast.CallExpr:
							if isTraversalCall(x) {
								for _, a := range x.Args {
									markFields(a)
								}
							}
						case *ast.RangeStmt:
							has := false
							ast.Inspect(x.Body, func(y ast.Node) bool {
								if ce, ok := y.(*ast.CallExpr); ok && isTraversalCall(ce) {
									has = true
								}
								return !has
							})
							if has {
								markFields(x.X)
							}
						}
						return true
					})
				}
				var walk func(s *types.Struct, owner string)
				walk = func(s *types.Struct, owner string) {
					for i := 0; i < s.NumFields(); i++ {
						f := s.Field(i)
						fk := owner + "." + f.Name()
						if f.Embedded() {
							// embedded *DefinitionMeta / NodeMeta: treated as one child reference
							if est := structOf(f.Type()); est != nil && !isNodeish(f.Type(), nodeIface, 0) {
								continue
							}
						}
						if !isNodeish(f.Type(), nodeIface, 0) {
							continue
						}
						key := fmt.Sprintf("%s/case %s/field %s", funcName, typeLabel(ct), f.Name())
						if r, ok := nonChildFields[fk]; ok {
							c.OK(ruleChild, key, cs.cc.Pos(), "not a child: "+r)
							continue
						}
						if mentioned[fk] {
							c.OK(ruleChild, key, cs.cc.Pos(), "field is passed on in the case body")
						} else {
							c.Bad(ruleChild, key, cs.cc.Pos(), fmt.Sprintf("Node-typed field %s is not touched in the case for %s: nodes below it are never visited, so no rule can fire there", fk, typeLabel(ct)))
						}
					}
				}
				walk(st, nt.Obj().Name())
			}
		}
		// implementers that are matched only through an interface-typed (or multi-type) case: their
		// fields are not accessible there, so any child they have is skipped
		for _, t := range impls {
			i, ok := sw.covers(t)
			if !ok {
				continue
			}
			exact := false
			for _, ct := range sw.cases[i].types {
				if ct != nil && types.Identical(ct, t) && len(sw.cases[i].types) == 1 {
					exact = true
				}
			}
			st := structOf(t)
			nt := core.NamedOf(t)
			if exact || st == nil || nt == nil {
				continue
			}
			for k := 0; k < st.NumFields(); k++ {
				f := st.Field(k)
				fk := nt.Obj().Name() + "." + f.Name()
				if f.Embedded() {
					if est := structOf(f.Type()); est != nil && !isNodeish(f.Type(), nodeIface, 0) {
						continue
					}
				}
				if !isNodeish(f.Type(), nodeIface, 0) {
					continue
				}
				if _, ok := nonChildFields[fk]; ok {
					continue
				}
				key := fmt.Sprintf("%s/case %s/field %s", funcName, typeLabel(t), f.Name())
				c.Bad(ruleChild, key, sw.cases[i].cc.Pos(), fmt.Sprintf("%s is matched only by the catch-all case `%s`, which cannot reach its Node-typed field %s: nodes below it are never visited", typeLabel(t), types.ExprString(sw.cases[i].cc.List[0]), fk))
			}
		}
		_ = strings.Join
	}
}

// nodeText returns the source text of a declaration (used only for coarse "calls X anywhere" checks).
func nodeText(c *core.Ctx, d *ast.FuncDecl) string {
	var sb strings.Builder
	ast.Inspect(d.Body, func(n ast.Node) bool {
		if ce, ok := n.(*ast.CallExpr); ok {
			sb.WriteString(types.ExprString(ce.Fun))
			sb.WriteString("( ")
		}
		return true
	})
	return sb.String()
}
