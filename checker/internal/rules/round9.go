package rules

// Rules written after the ninth round of seeded changes. Each is a clause about a KIND of construct (every
// `omitempty` numeric of a JSON view, every in-place sort, every shift by a variable, every raw-JSON conversion,
// every memo of the evolution analyser, the walk that finds the model files, the sinks' Add), enumerated on the
// current tree before arming.

import (
	"fmt"
	"go/ast"
	"go/constant"
	"go/token"
	"go/types"
	"reflect"
	"strings"

	"verif/checker/internal/core"
)

func init() {
	reg("C04", ruleOmitEmptyOnlyWhereEmptyMeansAbsent, ruleBackEndsDoNotReorderTheModel, ruleRawJSONProvenance, ruleWriteIfNeeded)
	reg("C15", ruleOmitEmptyOnlyWhereEmptyMeansAbsent, ruleBackEndsDoNotReorderTheModel, ruleWriteIfNeeded)
	reg("C03", ruleBackEndsDoNotReorderTheModel)
	reg("C19", ruleBackEndsDoNotReorderTheModel)
	reg("C12", ruleBackEndsDoNotReorderTheModel, ruleSinkAddKeepsEverything, ruleWalkKeepsEveryModelFile)
	reg("C10", ruleRawJSONProvenance, ruleShiftCountsBounded, rulePrunes(topoSortFiles, "V5", 2))
	reg("C06", ruleEvolutionMemoPerPredecessor)
	reg("C05", ruleEvolutionMemoPerPredecessor)
	reg("C09", ruleShiftCountsBounded, ruleWalkKeepsEveryModelFile, ruleSinkAddKeepsEverything)
	reg("C13", ruleShiftCountsBounded, ruleWalkKeepsEveryModelFile)
	reg("C11", ruleWalkKeepsEveryModelFile, ruleSinkAddKeepsEverything, rulePrunesPartial(evolutionFiles, "V5", 3))
	reg("C08", rulePrunes(func(f string) bool {
		return topoSortFiles(f) || strings.HasSuffix(f, "/pkg/dsl/validation_computed_fields.go")
	}, "V5", 3))
	reg("C17", ruleStateMachine)
}

// ---------------------------------------------------------------------------------------------------------------
// OE1: `omitempty` in the JSON views of pkg/dsl. The schema text is json.Marshal of these structs; a numeric VALUE
// field with omitempty makes 0 indistinguishable from "not given" (a fixed vector of length 0 and a dynamic vector
// would share one schema although their encodings differ). Pointers, slices, maps, interfaces, strings and bools are
// fine: their empty value is what "absent" means in the model.
// ---------------------------------------------------------------------------------------------------------------
func ruleOmitEmptyOnlyWhereEmptyMeansAbsent(c *core.Ctx) {
	const rule = "OE1"
	c.Rule(rule, "pkg/dsl: no struct field of integer or floating-point type (a value, not a pointer) carries `omitempty` in its json tag: zero is a value of the model, not the absence of one", 15)
	p := c.Pkg("pkg/dsl")
	if p == nil {
		c.Undecided(rule, "anchor/pkg/dsl", 0, "package not found")
		return
	}
	n := 0
	for _, f := range p.Syntax {
		if c.IsTestFile(f.Pos()) {
			continue
		}
		ast.Inspect(f, func(m ast.Node) bool {
			st, ok := m.(*ast.StructType)
			if !ok || st.Fields == nil {
				return true
			}
			for _, fld := range st.Fields.List {
				if fld.Tag == nil {
					continue
				}
				tag := reflect.StructTag(strings.Trim(fld.Tag.Value, "`"))
				j, ok := tag.Lookup("json")
				if !ok || !strings.Contains(j, ",omitempty") {
					continue
				}
				t := p.TypesInfo.TypeOf(fld.Type)
				if t == nil {
					continue
				}
				n++
				name := "_"
				if len(fld.Names) > 0 {
					name = fld.Names[0].Name
				}
				numeric := false
				if b, ok := t.Underlying().(*types.Basic); ok && b.Info()&(types.IsInteger|types.IsFloat|types.IsComplex) != 0 {
					numeric = true
				}
				key := fmt.Sprintf("%s %s json:%q", name, types.TypeString(t, func(*types.Package) string { return "" }), strings.SplitN(j, ",", 2)[0])
				c.Check(!numeric, rule, key, fld.Pos(), "the empty value of this type is what `absent` means",
					"a numeric value field with `omitempty`: the value 0 is dropped from the JSON, so a model that says 0 (a fixed vector of length 0, a dimension of length 0) gets the same schema text as one that says nothing — two models with different encodings share a schema")
			}
			return true
		})
	}
	if n == 0 {
		c.Undecided(rule, "anchor/omitempty fields", 0, "none found")
	}
}

// ---------------------------------------------------------------------------------------------------------------
// MU1: back ends read the validated model, they do not reorder it. An in-place sort (or reverse) of a slice that IS a
// field of a dsl node changes what every later back end of the same run sees (schema literal, value order).
// ---------------------------------------------------------------------------------------------------------------
func ruleBackEndsDoNotReorderTheModel(c *core.Ctx) {
	const rule = "MU1"
	c.Rule(rule, "internal/* (back ends, command layer): the slice handed to sort.Slice / SliceStable / Sort / Stable / Strings / slices.Sort* / slices.Reverse is a local copy (built with make/append/keys of a map), never a field of a definition / type / protocol node of pkg/dsl or a local that aliases one (a field of an expression node, which is printed once per back end and is not part of the schema, may be reordered only by the back end that internal/cmd runs last)", 4)
	sorters := map[string]bool{"sort.Slice": true, "sort.SliceStable": true, "sort.Sort": true, "sort.Stable": true, "sort.Strings": true, "sort.Ints": true,
		"slices.Sort": true, "slices.SortFunc": true, "slices.SortStableFunc": true, "slices.Reverse": true}
	// set by isDslField when the field belongs to an EXPRESSION node: an expression is printed once by each back end and is
	// not part of the schema, so reordering it in place is visible only to a back end that runs LATER in the same run
	exprNodeField := false
	isDslField := func(info *types.Info, e ast.Expr) bool {
		// a selector (possibly sliced / converted) whose receiver is a value of a pkg/dsl type
		for {
			switch x := ast.Unparen(e).(type) {
			case *ast.SliceExpr:
				e = x.X
				continue
			case *ast.CallExpr: // conversion T(x)
				if tv, ok := info.Types[x.Fun]; ok && tv.IsType() && len(x.Args) == 1 {
					e = x.Args[0]
					continue
				}
				return false
			case *ast.SelectorExpr:
				sel := info.Selections[x]
				if sel == nil || sel.Kind() != types.FieldVal {
					return false
				}
				if v, ok := sel.Obj().(*types.Var); ok && v.Pkg() != nil && strings.HasSuffix(v.Pkg().Path(), "/pkg/dsl") {
					// fields of EXPRESSION nodes: see exprNodeField (the MATLAB emitter reverses the arguments of the subscript
					// it is printing)
					if ex, _ := v.Pkg().Scope().Lookup("Expression").(*types.TypeName); ex != nil {
						if it, ok := ex.Type().Underlying().(*types.Interface); ok {
							rt := sel.Recv()
							if _, isPtr := rt.(*types.Pointer); !isPtr {
								rt = types.NewPointer(rt)
							}
							if types.Implements(rt, it) {
								exprNodeField = true
								return true
							}
						}
					}
					return true
				}
				return false
			case *ast.StarExpr:
				e = x.X
				continue
			}
			return false
		}
	}
	n := 0
	for _, d := range c.AllDecls() {
		p := c.DeclPkg(d)
		if p == nil || d.Body == nil || c.IsTestFile(d.Pos()) || !strings.Contains(p.PkgPath, "/internal/") || strings.HasSuffix(p.PkgPath, "/internal/validation") {
			continue
		}
		info := p.TypesInfo
		ast.Inspect(d.Body, func(m ast.Node) bool {
			ce, ok := m.(*ast.CallExpr)
			if !ok || len(ce.Args) == 0 {
				return true
			}
			f := core.Callee(info, ce)
			if f == nil || !sorters[core.FullName(f)] {
				return true
			}
			n++
			arg := ast.Unparen(ce.Args[0])
			why := ""
			exprNodeField = false
			switch {
			case isDslField(info, arg):
				why = "`" + types.ExprString(arg) + "` is a field of the model"
			default:
				if id, ok := arg.(*ast.Ident); ok {
					obj := info.ObjectOf(id)
					// every assignment to the local in this function
					ast.Inspect(d.Body, func(k ast.Node) bool {
						as, ok := k.(*ast.AssignStmt)
						if !ok || len(as.Lhs) != len(as.Rhs) {
							return true
						}
						for i, l := range as.Lhs {
							li, ok := l.(*ast.Ident)
							if !ok || info.ObjectOf(li) != obj {
								continue
							}
							if isDslField(info, as.Rhs[i]) {
								why = "`" + id.Name + "` is `" + types.ExprString(as.Rhs[i]) + "`, a field of the model (a slice assignment copies the header, not the elements)"
							}
						}
						return true
					})
					// a parameter that is a named slice type of pkg/dsl, or a slice of dsl nodes handed in by the caller
					if v, ok := obj.(*types.Var); ok && why == "" {
						for _, fl := range d.Type.Params.List {
							for _, nm := range fl.Names {
								if info.Defs[nm] == v {
									if nt := core.NamedOf(v.Type()); nt != nil && nt.Obj().Pkg() != nil && strings.HasSuffix(nt.Obj().Pkg().Path(), "/pkg/dsl") {
										why = "parameter `" + id.Name + "` has the model's own slice type " + nt.Obj().Name()
									}
								}
							}
						}
					}
				}
			}
			key := fmt.Sprintf("%s/%s(%s)", c.FuncName(d), core.FullName(f), types.ExprString(arg))
			if why != "" && exprNodeField {
				// tolerated only in the back end that runs last: nothing reads the expression afterwards
				be := backEndOf(p.PkgPath)
				last, order, decided := lastBackEndOfARun(c)
				switch {
				case !decided:
					c.Undecided(rule, key, ce.Pos(), "an expression node of the model is reordered in place ("+why+"), which is invisible only if no back end runs after `"+be+"`; the order in which internal/cmd calls the back ends could not be determined")
				case last == be:
					c.OK(rule, key, ce.Pos(), "reorders an expression node in place, in the back end that internal/cmd runs last ("+strings.Join(order, ", ")+"): nothing reads the expression afterwards")
				default:
					c.Bad(rule, key, ce.Pos(), "reorders an expression node of the model in place ("+why+") although other back ends run after `"+be+"` (order: "+strings.Join(order, ", ")+"): they print the subscript arguments / operands in the order this back end left them — the same expression means different things in the generated languages")
				}
				return true
			}
			c.Check(why == "", rule, key, ce.Pos(), "sorts a local collection",
				"sorts the model in place: "+why+" — the order of the definition's members changes for everything generated afterwards in the same run (the schema literals of the other back ends, value tables), so the back ends disagree with each other and with a run that generates one of them alone")
			return true
		})
	}
	if n == 0 {
		c.Undecided(rule, "anchor/sort calls in internal/*", 0, "none found")
	}
}

// ---------------------------------------------------------------------------------------------------------------
// RJ1: a type whose MarshalJSON returns its own bytes verbatim puts RAW text into the model JSON. The text must be
// JSON by construction: the decimal text of a big.Int, the output of json.Marshal, or a constant.
// ---------------------------------------------------------------------------------------------------------------
func ruleRawJSONProvenance(c *core.Ctx) {
	const rule = "RJ1"
	c.Rule(rule, "pkg/dsl: every conversion to a raw-JSON type (MarshalJSON returns the receiver's bytes unchanged; json.RawMessage) converts the decimal text of a math/big integer, a result of json.Marshal or a constant — text that is JSON by construction", 1)
	p := c.Pkg("pkg/dsl")
	if p == nil {
		c.Undecided(rule, "anchor/pkg/dsl", 0, "package not found")
		return
	}
	info := p.TypesInfo
	raw := map[*types.TypeName]bool{}
	for _, f := range p.Syntax {
		for _, dd := range f.Decls {
			fd, ok := dd.(*ast.FuncDecl)
			if !ok || fd.Recv == nil || fd.Name.Name != "MarshalJSON" || fd.Body == nil || len(fd.Recv.List) == 0 || len(fd.Recv.List[0].Names) == 0 {
				continue
			}
			recv := info.Defs[fd.Recv.List[0].Names[0]]
			if recv == nil {
				continue
			}
			verbatim := false
			ast.Inspect(fd.Body, func(m ast.Node) bool {
				rs, ok := m.(*ast.ReturnStmt)
				if !ok || len(rs.Results) == 0 {
					return true
				}
				e := ast.Unparen(rs.Results[0])
				if ce, ok := e.(*ast.CallExpr); ok && len(ce.Args) == 1 {
					if tv, ok := info.Types[ce.Fun]; ok && tv.IsType() {
						e = ast.Unparen(ce.Args[0])
					}
				}
				if id, ok := e.(*ast.Ident); ok && info.ObjectOf(id) == recv {
					verbatim = true
				}
				return true
			})
			if verbatim {
				if nt := core.NamedOf(recv.Type()); nt != nil {
					raw[nt.Obj()] = true
				}
			}
		}
	}
	isRaw := func(t types.Type) bool {
		nt := core.NamedOf(t)
		if nt == nil {
			return false
		}
		if raw[nt.Obj()] {
			return true
		}
		return nt.Obj().Pkg() != nil && nt.Obj().Pkg().Path() == "encoding/json" && nt.Obj().Name() == "RawMessage"
	}
	isBig := func(t types.Type) bool {
		if pt, ok := t.Underlying().(*types.Pointer); ok {
			t = pt.Elem()
		}
		nt := core.NamedOf(t)
		return nt != nil && nt.Obj().Pkg() != nil && nt.Obj().Pkg().Path() == "math/big" && nt.Obj().Name() == "Int"
	}
	n := 0
	for _, pk := range c.ModulePkgs() {
		pinfo := pk.TypesInfo
		for _, f := range pk.Syntax {
			if c.IsTestFile(f.Pos()) {
				continue
			}
			// provenance of the text: a constant, json.Marshal, or the decimal text of a big integer — through
			// conversions and through a local assigned once
			var provenance func(arg ast.Expr, at token.Pos, depth int) string
			provenance = func(arg ast.Expr, at token.Pos, depth int) string {
				arg = ast.Unparen(arg)
				for {
					in, ok := arg.(*ast.CallExpr)
					if !ok || len(in.Args) != 1 {
						break
					}
					if t2, ok := pinfo.Types[in.Fun]; ok && t2.IsType() {
						arg = ast.Unparen(in.Args[0])
						continue
					}
					break
				}
				if tv2, ok := pinfo.Types[arg]; ok && tv2.Value != nil && tv2.Value.Kind() == constant.String {
					return "a constant"
				}
				if in, ok := arg.(*ast.CallExpr); ok {
					if fn := core.Callee(pinfo, in); fn != nil {
						sig := fn.Type().(*types.Signature)
						switch {
						case core.FullName(fn) == "encoding/json.Marshal":
							return "a result of json.Marshal"
						case sig.Recv() != nil && isBig(sig.Recv().Type()) && (fn.Name() == "String" || fn.Name() == "Text" || fn.Name() == "Append" || fn.Name() == "MarshalText" || fn.Name() == "MarshalJSON"):
							return "the decimal text of a big integer"
						}
					}
				}
				if id, ok := arg.(*ast.Ident); ok && depth < 3 {
					if enc := enclosingFuncBody(f, at); enc != nil {
						var rhs []ast.Expr
						ast.Inspect(enc, func(k ast.Node) bool {
							as, ok := k.(*ast.AssignStmt)
							if !ok || len(as.Lhs) == 0 {
								return true
							}
							if li, ok := as.Lhs[0].(*ast.Ident); ok && pinfo.ObjectOf(li) == pinfo.ObjectOf(id) && len(as.Rhs) >= 1 {
								rhs = append(rhs, as.Rhs[0])
							}
							return true
						})
						if len(rhs) == 1 {
							return provenance(rhs[0], at, depth+1)
						}
					}
				}
				return ""
			}
			judge := func(what string, arg ast.Expr, at token.Pos) {
				n++
				good := provenance(arg, at, 0)
				c.Check(good != "", rule, what, at, "raw JSON from "+good,
					"text that is not JSON by construction is emitted verbatim into the model JSON: for a value such as `.5` or `2.` json.Marshal of the enclosing document fails after part of the output was written, with an error that names no file or line")
			}
			ast.Inspect(f, func(m ast.Node) bool {
				switch x := m.(type) {
				case *ast.CallExpr: // explicit conversion
					if len(x.Args) != 1 {
						return true
					}
					if tv, ok := pinfo.Types[x.Fun]; ok && tv.IsType() && isRaw(tv.Type) {
						// the conversion inside the MarshalJSON of the raw type itself ([]byte(b)) goes the other way
						if at, ok := pinfo.Types[x.Args[0]]; ok && isRaw(at.Type) {
							return true
						}
						judge(fmt.Sprintf("%s(%s)", types.ExprString(x.Fun), types.ExprString(x.Args[0])), x.Args[0], x.Pos())
					}
				case *ast.CompositeLit: // a field of raw-JSON type given a plain []byte / string
					st, ok := pinfo.TypeOf(x).Underlying().(*types.Struct)
					if !ok {
						return true
					}
					for i, el := range x.Elts {
						var fv *types.Var
						val := el
						if kv, ok := el.(*ast.KeyValueExpr); ok {
							val = kv.Value
							if id, ok := kv.Key.(*ast.Ident); ok {
								for k := 0; k < st.NumFields(); k++ {
									if st.Field(k).Name() == id.Name {
										fv = st.Field(k)
									}
								}
							}
						} else if i < st.NumFields() {
							fv = st.Field(i)
						}
						if fv == nil || !isRaw(fv.Type()) {
							continue
						}
						if vt := pinfo.TypeOf(val); vt != nil && isRaw(vt) {
							continue // already of the raw type: judged where it was converted
						}
						judge(fmt.Sprintf("%s: %s", fv.Name(), types.ExprString(val)), val, val.Pos())
					}
				case *ast.AssignStmt:
					if len(x.Lhs) != len(x.Rhs) {
						return true
					}
					for i, l := range x.Lhs {
						lt := pinfo.TypeOf(l)
						if lt == nil || !isRaw(lt) {
							continue
						}
						if vt := pinfo.TypeOf(x.Rhs[i]); vt != nil && isRaw(vt) {
							continue
						}
						judge(fmt.Sprintf("%s = %s", types.ExprString(l), types.ExprString(x.Rhs[i])), x.Rhs[i], x.Pos())
					}
				}
				return true
			})
		}
	}
	if n == 0 {
		c.Undecided(rule, "anchor/raw JSON conversions", 0, "none found")
	}
}

func enclosingFuncBody(f *ast.File, pos token.Pos) *ast.BlockStmt {
	var best *ast.BlockStmt
	ast.Inspect(f, func(n ast.Node) bool {
		switch x := n.(type) {
		case *ast.FuncDecl:
			if x.Body != nil && x.Body.Pos() <= pos && pos < x.Body.End() {
				best = x.Body
			}
		}
		return true
	})
	return best
}

// ---------------------------------------------------------------------------------------------------------------
// SH2: a shift whose count is not a constant must be bounded by the width of the shifted type; in Go `1 << n` with
// n >= 64 is silently 0.
// ---------------------------------------------------------------------------------------------------------------
func ruleShiftCountsBounded(c *core.Ctx) {
	const rule = "SH2"
	c.Rule(rule, "module code: every `<<` has a constant count, or its count is compared with a constant not larger than the width of the shifted type in the same function (a fixed-width `1 << n` wraps to 0 for n >= 64; math/big has SetBit / Lsh)", 1)
	n := 0
	// shifts outside function bodies (constant declarations) are constant by construction
	for _, pk := range c.ModulePkgs() {
		for _, f := range pk.Syntax {
			if c.IsTestFile(f.Pos()) {
				continue
			}
			for _, dd := range f.Decls {
				gd, ok := dd.(*ast.GenDecl)
				if !ok {
					continue
				}
				ast.Inspect(gd, func(m ast.Node) bool {
					if be, ok := m.(*ast.BinaryExpr); ok && be.Op == token.SHL {
						n++
						if gd.Tok == token.CONST {
							c.OK(rule, fmt.Sprintf("%s/const %s << %s", strings.TrimPrefix(pk.PkgPath, core.Mod+"/"), types.ExprString(be.X), types.ExprString(be.Y)), be.OpPos, "constant declaration")
						} else if tv, ok := pk.TypesInfo.Types[be.Y]; ok && tv.Value != nil {
							c.OK(rule, fmt.Sprintf("%s/var %s << %s", strings.TrimPrefix(pk.PkgPath, core.Mod+"/"), types.ExprString(be.X), types.ExprString(be.Y)), be.OpPos, "constant count")
						} else {
							c.Bad(rule, fmt.Sprintf("%s/var %s << %s", strings.TrimPrefix(pk.PkgPath, core.Mod+"/"), types.ExprString(be.X), types.ExprString(be.Y)), be.OpPos, "package-level shift by a run-time value")
						}
					}
					return true
				})
			}
		}
	}
	for _, d := range c.AllDecls() {
		p := c.DeclPkg(d)
		if p == nil || d.Body == nil || c.IsTestFile(d.Pos()) || !strings.HasPrefix(p.PkgPath, core.Mod) {
			continue
		}
		info := p.TypesInfo
		ast.Inspect(d.Body, func(m ast.Node) bool {
			var x, cnt ast.Expr
			var at token.Pos
			switch e := m.(type) {
			case *ast.BinaryExpr:
				if e.Op != token.SHL {
					return true
				}
				x, cnt, at = e.X, e.Y, e.OpPos
			case *ast.AssignStmt:
				if e.Tok != token.SHL_ASSIGN || len(e.Lhs) != 1 || len(e.Rhs) != 1 {
					return true
				}
				x, cnt, at = e.Lhs[0], e.Rhs[0], e.TokPos
			default:
				return true
			}
			n++
			if tv, ok := info.Types[cnt]; ok && tv.Value != nil {
				c.OK(rule, fmt.Sprintf("%s/%s << %s", c.FuncName(d), types.ExprString(x), types.ExprString(cnt)), at, "constant count")
				return true
			}
			// the variable behind the count (conversions peeled)
			root := ast.Unparen(cnt)
			for {
				ce, ok := root.(*ast.CallExpr)
				if !ok || len(ce.Args) != 1 {
					break
				}
				if tv, ok := info.Types[ce.Fun]; ok && tv.IsType() {
					root = ast.Unparen(ce.Args[0])
					continue
				}
				break
			}
			width := int64(64)
			if t := info.TypeOf(x); t != nil {
				if b, ok := t.Underlying().(*types.Basic); ok {
					switch b.Kind() {
					case types.Int8, types.Uint8:
						width = 8
					case types.Int16, types.Uint16:
						width = 16
					case types.Int32, types.Uint32:
						width = 32
					}
				}
			}
			bounded := false
			ast.Inspect(d.Body, func(k ast.Node) bool {
				be, ok := k.(*ast.BinaryExpr)
				if !ok {
					return true
				}
				switch be.Op {
				case token.LSS, token.LEQ, token.GTR, token.GEQ:
				default:
					return true
				}
				for _, pr := range [][2]ast.Expr{{be.X, be.Y}, {be.Y, be.X}} {
					if types.ExprString(ast.Unparen(pr[0])) != types.ExprString(root) {
						continue
					}
					if tv, ok := info.Types[pr[1]]; ok && tv.Value != nil {
						if v, ok := constant.Int64Val(constant.ToInt(tv.Value)); ok && v <= width {
							bounded = true
						}
					}
				}
				return true
			})
			c.Check(bounded, rule, fmt.Sprintf("%s/%s << %s", c.FuncName(d), types.ExprString(x), types.ExprString(cnt)), at, "the count is compared with a constant within the width",
				fmt.Sprintf("the count `%s` of this shift is a run-time value that nothing in the function bounds by the width (%d bits) of the shifted type: from the %dth element on the result wraps to 0 (or changes sign), "+
					"a value that then passes the range and duplicate checks — the list form of `!flags` with that many members means something else than the map form", types.ExprString(cnt), width, width+1))
			return true
		})
	}
	if n == 0 {
		c.Undecided(rule, "anchor/shift expressions", 0, "none found")
	}
}

// ---------------------------------------------------------------------------------------------------------------
// EC1: the memo of the evolution analyser (EvolutionContext: pair tables and verdicts keyed by the NAMES of a new and
// an old definition) is valid for one predecessor only — two predecessors have same-named definitions that differ.
// The call in the loop over the predecessors that reaches the allocation must stand inside the loop.
// ---------------------------------------------------------------------------------------------------------------
func ruleEvolutionMemoPerPredecessor(c *core.Ctx) {
	const rule = "EC1"
	c.Rule(rule, "dsl.ValidateEvolution: every call through which an EvolutionContext (the name-keyed memo of pairs and verdicts) is allocated stands inside the loop over the predecessors: one memo per old model", 1)
	p := c.Pkg("pkg/dsl")
	_, ve, _ := c.Func("pkg/dsl", "ValidateEvolution")
	if p == nil || ve == nil {
		c.Undecided(rule, "anchor/pkg/dsl.ValidateEvolution", 0, "anchor not found")
		return
	}
	info := p.TypesInfo
	tn, _ := p.Types.Scope().Lookup("EvolutionContext").(*types.TypeName)
	if tn == nil {
		c.Undecided(rule, "anchor/pkg/dsl.EvolutionContext", 0, "type not found")
		return
	}
	allocates := map[*types.Func]bool{}
	for _, d := range c.AllDecls() {
		if c.DeclPkg(d) != p || d.Body == nil {
			continue
		}
		hit := false
		ast.Inspect(d.Body, func(m ast.Node) bool {
			switch x := m.(type) {
			case *ast.CompositeLit:
				if nt := core.NamedOf(info.TypeOf(x)); nt != nil && nt.Obj() == tn {
					hit = true
				}
			case *ast.CallExpr:
				if id, ok := ast.Unparen(x.Fun).(*ast.Ident); ok && id.Name == "new" && len(x.Args) == 1 {
					if nt := core.NamedOf(info.TypeOf(x.Args[0])); nt != nil && nt.Obj() == tn {
						hit = true
					}
				}
			}
			return true
		})
		if hit {
			if f, ok := info.Defs[d.Name].(*types.Func); ok {
				allocates[f] = true
			}
		}
	}
	if len(allocates) == 0 {
		c.Undecided(rule, "anchor/allocation of EvolutionContext", 0, "no function allocates an EvolutionContext")
		return
	}
	reaches := func(f *types.Func) bool {
		if f == nil {
			return false
		}
		return allocates[f.Origin()] || c.PathToStatic(f.Origin(), func(g *types.Func) bool { return allocates[g] }, nil) != nil
	}
	// the loop over the predecessors: a range over a parameter of type []*Environment
	var loops []*ast.RangeStmt
	ast.Inspect(ve.Body, func(m ast.Node) bool {
		rs, ok := m.(*ast.RangeStmt)
		if !ok {
			return true
		}
		if sl, ok := info.TypeOf(rs.X).Underlying().(*types.Slice); ok {
			if pt, ok := sl.Elem().(*types.Pointer); ok {
				if nt := core.NamedOf(pt.Elem()); nt != nil && nt.Obj().Name() == "Environment" {
					loops = append(loops, rs)
				}
			}
		}
		return true
	})
	if len(loops) == 0 {
		c.Undecided(rule, "ValidateEvolution/loop over the predecessors", ve.Pos(), "no range over []*Environment found")
		return
	}
	inLoop := func(pos token.Pos) bool {
		for _, l := range loops {
			if l.Body.Pos() <= pos && pos < l.Body.End() {
				return true
			}
		}
		return false
	}
	n := 0
	selfAlloc := false
	if f, ok := info.Defs[ve.Name].(*types.Func); ok && allocates[f] {
		selfAlloc = true
	}
	if selfAlloc {
		ast.Inspect(ve.Body, func(m ast.Node) bool {
			if cl, ok := m.(*ast.CompositeLit); ok {
				if nt := core.NamedOf(info.TypeOf(cl)); nt != nil && nt.Obj() == tn {
					n++
					c.Check(inLoop(cl.Pos()), rule, "ValidateEvolution/EvolutionContext literal", cl.Pos(), "allocated inside the loop over the predecessors",
						"the memo is allocated once for all predecessors: the verdict stored for (new name, old name) while comparing with the first old model is returned for the same-named definition of the next one, so an incompatible change against a later version is accepted (or a compatible one rejected) depending on the order of `versions:`")
				}
			}
			return true
		})
	}
	ast.Inspect(ve.Body, func(m ast.Node) bool {
		ce, ok := m.(*ast.CallExpr)
		if !ok {
			return true
		}
		f := core.Callee(info, ce)
		if f == nil || !core.InModule(f) || !reaches(f) {
			return true
		}
		n++
		c.Check(inLoop(ce.Pos()), rule, "ValidateEvolution/call of "+f.Name(), ce.Pos(), "the memo is allocated per predecessor (the call stands inside the loop)",
			"the call that allocates the EvolutionContext stands outside the loop over the predecessors: one memo keyed by definition NAMES is shared by all old models, so the verdict stored while comparing with the first is returned for the same-named definition of the next — an incompatible change against a later version is accepted, depending on the order of `versions:`")
		return true
	})
	if n == 0 {
		c.Undecided(rule, "ValidateEvolution/allocation site", ve.Pos(), "no call in ValidateEvolution reaches the allocation of an EvolutionContext")
	}
}

// ---------------------------------------------------------------------------------------------------------------
// E7c: ErrorSink.Add / WarningSink.Add keep what they are given on every path.
// ---------------------------------------------------------------------------------------------------------------
func ruleSinkAddKeepsEverything(c *core.Ctx) {
	const rule = "E7c"
	c.Rule(rule, "internal/validation: every path through ErrorSink.Add / WarningSink.Add appends its argument to the sink's slice (no cap, no filter: the set of diagnostics reported does not depend on the order in which passes and map iterations produce them)", 1)
	p := c.Pkg("internal/validation")
	if p == nil {
		c.Undecided(rule, "anchor/internal/validation", 0, "package not found")
		return
	}
	info := p.TypesInfo
	n := 0
	for _, f := range p.Syntax {
		if c.IsTestFile(f.Pos()) {
			continue
		}
		for _, dd := range f.Decls {
			d, ok := dd.(*ast.FuncDecl)
			if !ok || d.Recv == nil || d.Body == nil || !strings.HasPrefix(d.Name.Name, "Add") || d.Type.Params == nil || len(d.Type.Params.List) == 0 {
				continue
			}
			rt := info.TypeOf(d.Recv.List[0].Type)
			if rt == nil {
				continue
			}
			if pt, ok := rt.(*types.Pointer); ok {
				rt = pt.Elem()
			}
			nt := core.NamedOf(rt)
			if nt == nil || !strings.HasSuffix(nt.Obj().Name(), "Sink") {
				continue
			}
			var param types.Object
			if len(d.Type.Params.List[0].Names) > 0 {
				param = info.Defs[d.Type.Params.List[0].Names[0]]
			}
			isAppend := func(s ast.Stmt) bool {
				as, ok := s.(*ast.AssignStmt)
				if !ok || len(as.Rhs) != 1 {
					return false
				}
				ce, ok := ast.Unparen(as.Rhs[0]).(*ast.CallExpr)
				if !ok {
					return false
				}
				id, ok := ast.Unparen(ce.Fun).(*ast.Ident)
				if !ok || id.Name != "append" || len(ce.Args) < 2 {
					return false
				}
				uses := false
				for _, a := range ce.Args[1:] {
					ast.Inspect(a, func(k ast.Node) bool {
						if i2, ok := k.(*ast.Ident); ok && info.ObjectOf(i2) == param {
							uses = true
						}
						return true
					})
				}
				return uses && types.ExprString(as.Lhs[0]) == types.ExprString(ce.Args[0])
			}
			var all func(list []ast.Stmt) bool
			all = func(list []ast.Stmt) bool {
				for i, s := range list {
					if isAppend(s) {
						return true
					}
					switch x := s.(type) {
					case *ast.ReturnStmt:
						return false
					case *ast.IfStmt:
						rest := list[i+1:]
						thenOK := all(append(append([]ast.Stmt{}, x.Body.List...), rest...))
						if bodyLeaves(x.Body) {
							thenOK = all(x.Body.List)
						}
						elseOK := false
						switch e := x.Else.(type) {
						case *ast.BlockStmt:
							if bodyLeaves(e) {
								elseOK = all(e.List)
							} else {
								elseOK = all(append(append([]ast.Stmt{}, e.List...), rest...))
							}
						case *ast.IfStmt:
							elseOK = all(append([]ast.Stmt{e}, rest...))
						default:
							elseOK = all(rest)
						}
						return thenOK && elseOK
					case *ast.BlockStmt:
						return all(append(append([]ast.Stmt{}, x.List...), list[i+1:]...))
					case *ast.ExprStmt:
						// delegation: e.Add(x) of the same sink family
						if ce, ok := x.X.(*ast.CallExpr); ok {
							if fn := core.Callee(info, ce); fn != nil && strings.HasPrefix(fn.Name(), "Add") && fn.Pkg() == p.Types {
								for _, a := range ce.Args {
									found := false
									ast.Inspect(a, func(k ast.Node) bool {
										if i2, ok := k.(*ast.Ident); ok && info.ObjectOf(i2) == param {
											found = true
										}
										return true
									})
									if found {
										return true
									}
								}
							}
						}
					}
				}
				return false
			}
			n++
			c.Check(all(d.Body.List), rule, c.FuncName(d), d.Pos(), "appends its argument on every path",
				"a path through "+d.Name.Name+" leaves without keeping the diagnostic: which errors are reported then depends on the order in which they arrive (validation passes that range over maps produce them in a different order on every run), and an invalid model can look less broken than it is")
		}
	}
	if n == 0 {
		c.Undecided(rule, "anchor/Add methods of the sinks", 0, "none found")
	}
}

// ---------------------------------------------------------------------------------------------------------------
// Q7b: the walk that collects the model files keeps every *.yml / *.yaml file except the package file.
// ---------------------------------------------------------------------------------------------------------------
func ruleWalkKeepsEveryModelFile(c *core.Ctx) {
	const rule = "Q7b"
	c.Rule(rule, "dsl.ParseYamlInDir: the callback of the directory walk never returns SkipDir / SkipAll, the file is added under conditions on its name only (suffix, the package file's name, IsDir) and the listing comes from a walker or lister that returns entries in lexical order (or is sorted)", 1)
	p := c.Pkg("pkg/dsl")
	_, d, _ := c.Func("pkg/dsl", "ParseYamlInDir")
	if p == nil || d == nil {
		c.Undecided(rule, "anchor/pkg/dsl.ParseYamlInDir", 0, "anchor not found")
		return
	}
	walkers := map[string]bool{"path/filepath.Walk": true, "path/filepath.WalkDir": true, "io/fs.WalkDir": true}
	unordered := map[string]bool{"(os.File).Readdir": true, "(os.File).ReadDir": true, "(os.File).Readdirnames": true, "path/filepath.Glob": true}
	allowedCalls := map[string]bool{"IsDir": true, "Name": true, "HasSuffix": true, "Ext": true, "ToLower": true, "EqualFold": true, "Base": true, "len": true}
	// functions of the package reachable from ParseYamlInDir (helpers that do the listing)
	seen := map[*ast.FuncDecl]bool{}
	var fds []*ast.FuncDecl
	var collect func(fd *ast.FuncDecl, depth int)
	collect = func(fd *ast.FuncDecl, depth int) {
		if fd == nil || fd.Body == nil || seen[fd] || depth > 3 || c.DeclPkg(fd) != p {
			return
		}
		seen[fd] = true
		fds = append(fds, fd)
		for _, cs := range c.Calls(fd) {
			if cs.Callee != nil && core.InModule(cs.Callee) {
				collect(c.Decl(cs.Callee), depth+1)
			}
		}
	}
	collect(d, 0)
	info := p.TypesInfo
	n := 0
	for _, fd := range fds {
		hasSort := false
		ast.Inspect(fd.Body, func(m ast.Node) bool {
			if ce, ok := m.(*ast.CallExpr); ok {
				if f := core.Callee(info, ce); f != nil && f.Pkg() != nil && (f.Pkg().Path() == "sort" || f.Pkg().Path() == "slices") && strings.Contains(f.Name(), "Sort") || f != nil && f.Pkg() != nil && f.Pkg().Path() == "sort" {
					hasSort = true
				}
			}
			return true
		})
		ast.Inspect(fd.Body, func(m ast.Node) bool {
			ce, ok := m.(*ast.CallExpr)
			if !ok {
				return true
			}
			f := core.Callee(info, ce)
			if f == nil {
				return true
			}
			name := core.FullName(f)
			if unordered[name] {
				n++
				c.Check(hasSort, rule, c.FuncName(fd)+"/"+name, ce.Pos(), "the listing is sorted in the same function",
					"the entries of the directory are used in the order the file system returns them: two byte-identical copies of a package (or the same package after a rename round trip) are parsed in different orders, which changes generated files and which of two duplicate definitions is reported")
				return true
			}
			if !walkers[name] || len(ce.Args) < 2 {
				return true
			}
			var flBody *ast.BlockStmt
			switch cb := ast.Unparen(ce.Args[1]).(type) {
			case *ast.FuncLit:
				flBody = cb.Body
			case *ast.Ident:
				obj := info.ObjectOf(cb)
				if fo, ok := obj.(*types.Func); ok { // a function of the package
					if cd := c.Decl(fo); cd != nil {
						flBody = cd.Body
					}
				} else { // a local bound once to a function literal
					nAssign := 0
					ast.Inspect(fd.Body, func(k ast.Node) bool {
						if as, ok := k.(*ast.AssignStmt); ok && len(as.Lhs) == 1 && len(as.Rhs) == 1 {
							if li, ok := as.Lhs[0].(*ast.Ident); ok && info.ObjectOf(li) == obj {
								nAssign++
								if l2, ok := ast.Unparen(as.Rhs[0]).(*ast.FuncLit); ok {
									flBody = l2.Body
								}
							}
						}
						return true
					})
					if nAssign != 1 {
						flBody = nil
					}
				}
			}
			if flBody == nil {
				n++
				c.Undecided(rule, c.FuncName(fd)+"/walk callback", ce.Pos(), "the callback of the walk is neither a function literal, a local bound once to one, nor a function of the package")
				return true
			}
			fl := &ast.FuncLit{Body: flBody}
			// (a) SkipDir / SkipAll
			var skip token.Pos
			ast.Inspect(fl.Body, func(k ast.Node) bool {
				if se, ok := k.(*ast.SelectorExpr); ok && (se.Sel.Name == "SkipDir" || se.Sel.Name == "SkipAll") {
					skip = se.Pos()
				}
				return true
			})
			n++
			c.Check(skip == token.NoPos, rule, c.FuncName(fd)+"/walk callback/skip", func() token.Pos {
				if skip != token.NoPos {
					return skip
				}
				return flBody.Pos()
			}(), "the callback returns only nil or the error it was given",
				"the callback returns SkipDir/SkipAll: returned for a FILE it skips the rest of the directory, so every model file sorted behind such an entry (a dot-file like .DS_Store) is never parsed — an invalid definition in one of them is not reported and validation passes")
			// (b) conditions in front of the append
			var badCond string
			var badAt token.Pos
			var guards []ast.Expr
			var visit func(list []ast.Stmt, gs []ast.Expr)
			visit = func(list []ast.Stmt, gs []ast.Expr) {
				for _, s := range list {
					switch x := s.(type) {
					case *ast.IfStmt:
						visit(x.Body.List, append(append([]ast.Expr{}, gs...), x.Cond))
						if eb, ok := x.Else.(*ast.BlockStmt); ok {
							visit(eb.List, append(append([]ast.Expr{}, gs...), x.Cond))
						}
						if bodyLeaves(x.Body) {
							gs = append(append([]ast.Expr{}, gs...), x.Cond)
						}
					case *ast.AssignStmt:
						for _, r := range x.Rhs {
							if ce2, ok := ast.Unparen(r).(*ast.CallExpr); ok {
								if id, ok := ast.Unparen(ce2.Fun).(*ast.Ident); ok && id.Name == "append" {
									guards = append(guards, gs...)
								}
							}
						}
					case *ast.BlockStmt:
						visit(x.List, gs)
					}
				}
			}
			visit(fl.Body.List, nil)
			for _, g := range guards {
				ast.Inspect(g, func(k ast.Node) bool {
					ce2, ok := k.(*ast.CallExpr)
					if !ok {
						return true
					}
					nm := ""
					switch fx := ast.Unparen(ce2.Fun).(type) {
					case *ast.SelectorExpr:
						nm = fx.Sel.Name
					case *ast.Ident:
						nm = fx.Name
					}
					if !allowedCalls[nm] && !nameOnlyPredicate(c, info, ce2, allowedCalls, 0) {
						badCond, badAt = types.ExprString(ce2), ce2.Pos()
					}
					return true
				})
			}
			n++
			c.Check(badCond == "", rule, c.FuncName(fd)+"/walk callback/conditions", func() token.Pos {
				if badAt != token.NoPos {
					return badAt
				}
				return flBody.Pos()
			}(), "a file is added under tests of its name and IsDir only",
				"whether a *.yml file of the model directory is parsed also depends on `"+badCond+"`: files that fail that test (a symbolic link, a name with a certain prefix) are silently left out, so an invalid definition in them is not reported and validation passes")
			return true
		})
	}
	if n == 0 {
		c.Undecided(rule, "anchor/directory walk in ParseYamlInDir", d.Pos(), "no walk or listing found")
	}
}

// ---------------------------------------------------------------------------------------------------------------
// V7b: a collector of definitions takes them from every namespace of the environment (imports included).
// ---------------------------------------------------------------------------------------------------------------
func ruleDefinitionCollectorsWalkAllNamespaces(c *core.Ctx) {
	const rule = "V7b"
	c.Rule(rule, "pkg/dsl: a function that takes an *Environment and returns a collection of type definitions ranges over env.Namespaces and does not single out the top-level namespace (definitions of imported packages take part in the comparison of versions)", 1)
	p := c.Pkg("pkg/dsl")
	if p == nil {
		c.Undecided(rule, "anchor/pkg/dsl", 0, "package not found")
		return
	}
	info := p.TypesInfo
	isDefColl := func(t types.Type) bool {
		var el types.Type
		switch u := t.Underlying().(type) {
		case *types.Slice:
			el = u.Elem()
		case *types.Map:
			el = u.Elem()
		default:
			return false
		}
		nt := core.NamedOf(el)
		return nt != nil && nt.Obj().Pkg() == p.Types && nt.Obj().Name() == "TypeDefinition"
	}
	n := 0
	for _, d := range c.AllDecls() {
		if c.DeclPkg(d) != p || d.Body == nil || d.Recv != nil || d.Type.Results == nil || c.IsTestFile(d.Pos()) {
			continue
		}
		returnsColl := false
		for _, r := range d.Type.Results.List {
			if t := info.TypeOf(r.Type); t != nil && isDefColl(t) {
				returnsColl = true
			}
		}
		if !returnsColl {
			continue
		}
		var env types.Object
		for _, po := range paramObjs(info, d) {
			if po == nil {
				continue
			}
			if pt, ok := po.Type().(*types.Pointer); ok {
				if nt := core.NamedOf(pt.Elem()); nt != nil && nt.Obj().Name() == "Environment" && nt.Obj().Pkg() == p.Types {
					env = po
				}
			}
		}
		if env == nil {
			continue
		}
		top, ranges := token.NoPos, false
		ast.Inspect(d.Body, func(m ast.Node) bool {
			switch x := m.(type) {
			case *ast.CallExpr:
				if se, ok := ast.Unparen(x.Fun).(*ast.SelectorExpr); ok && se.Sel.Name == "GetTopLevelNamespace" && identObj(info, se.X) == env {
					top = x.Pos()
				}
			case *ast.RangeStmt:
				if se, ok := ast.Unparen(x.X).(*ast.SelectorExpr); ok && se.Sel.Name == "Namespaces" && identObj(info, se.X) == env {
					ranges = true
				}
			case *ast.IndexExpr:
				if se, ok := ast.Unparen(x.X).(*ast.SelectorExpr); ok && se.Sel.Name == "Namespaces" && identObj(info, se.X) == env {
					if tv, ok := info.Types[x.Index]; ok && tv.Value != nil {
						top = x.Pos()
					}
				}
			}
			return true
		})
		n++
		at := d.Pos()
		if top != token.NoPos {
			at = top
		}
		c.Check(top == token.NoPos && ranges, rule, d.Name.Name, at, "collects from every namespace of the environment",
			"the collector takes the definitions of one namespace only: types of imported packages are never paired across versions, so a package that imports another one is reported as incompatible with its own previous version (or changes in an imported type go unnoticed)")
	}
	if n == 0 {
		c.Undecided(rule, "anchor/definition collectors", 0, "none found")
	}
}

func init() {
	reg("C06", ruleDefinitionCollectorsWalkAllNamespaces)
	reg("C05", ruleDefinitionCollectorsWalkAllNamespaces)
	reg("C08", ruleRawJSONProvenance)
}

// ---------------------------------------------------------------------------------------------------------------
// AF1: a verdict that a loop accumulates ("some element has the property") is set, or or-ed, never overwritten by the
// answer for the current element: otherwise the last element decides alone.
// ---------------------------------------------------------------------------------------------------------------
func ruleLoopVerdictsAccumulate(c *core.Ctx) {
	const rule = "AF1"
	c.Rule(rule, "pkg/dsl: a boolean declared in front of a loop, assigned inside it and read behind it is assigned a constant, or-ed/and-ed with itself, or the assignment is followed by leaving the loop — never overwritten by the answer for the current element (the last element would decide alone)", 5)
	p := c.Pkg("pkg/dsl")
	if p == nil {
		c.Undecided(rule, "anchor/pkg/dsl", 0, "package not found")
		return
	}
	info := p.TypesInfo
	n := 0
	for _, d := range c.AllDecls() {
		if c.DeclPkg(d) != p || d.Body == nil || c.IsTestFile(d.Pos()) {
			continue
		}
		var loops []ast.Stmt
		ast.Inspect(d.Body, func(m ast.Node) bool {
			switch m.(type) {
			case *ast.ForStmt, *ast.RangeStmt:
				loops = append(loops, m.(ast.Stmt))
			}
			return true
		})
		for _, l := range loops {
			var body *ast.BlockStmt
			switch x := l.(type) {
			case *ast.ForStmt:
				body = x.Body
			case *ast.RangeStmt:
				body = x.Body
			}
			// assignments in the body, not in nested function literals or nested loops (those are judged on their own)
			var visit func(list []ast.Stmt)
			visit = func(list []ast.Stmt) {
				for i, s := range list {
					switch x := s.(type) {
					case *ast.AssignStmt:
						if x.Tok != token.ASSIGN {
							continue
						}
						for k, lh := range x.Lhs {
							id, ok := ast.Unparen(lh).(*ast.Ident)
							if !ok || id.Name == "_" {
								continue
							}
							v, ok := info.ObjectOf(id).(*types.Var)
							if !ok || v.Pos() >= l.Pos() || v.Pos() < d.Pos() {
								continue // declared inside the loop (or not a local)
							}
							if b, ok := v.Type().Underlying().(*types.Basic); !ok || b.Kind() != types.Bool {
								continue
							}
							// read behind the loop?
							readAfter := false
							ast.Inspect(d.Body, func(q ast.Node) bool {
								if i2, ok := q.(*ast.Ident); ok && i2.Pos() > l.End() && info.Uses[i2] == v {
									readAfter = true
								}
								return true
							})
							if !readAfter {
								continue
							}
							n++
							okForm := ""
							var rhs ast.Expr
							if len(x.Rhs) == len(x.Lhs) {
								rhs = ast.Unparen(x.Rhs[k])
							}
							if rhs != nil {
								if tv, ok := info.Types[rhs]; ok && tv.Value != nil {
									okForm = "assigned a constant"
								}
								if be, ok := rhs.(*ast.BinaryExpr); ok && (be.Op == token.LOR || be.Op == token.LAND) {
									for _, side := range []ast.Expr{be.X, be.Y} {
										if i2, ok := ast.Unparen(side).(*ast.Ident); ok && info.ObjectOf(i2) == v {
											okForm = "combined with its previous value"
										}
									}
								}
							}
							if okForm == "" {
								// followed, in the same statement list, by leaving the loop (directly or under `if v`)
								for _, nx := range list[i+1:] {
									switch y := nx.(type) {
									case *ast.BranchStmt:
										if y.Tok == token.BREAK {
											okForm = "followed by break"
										}
									case *ast.ReturnStmt:
										okForm = "followed by return"
									case *ast.IfStmt:
										// `if v { break }`: the loop ends as soon as the verdict is reached (a test of anything else,
										// `!v` included, lets a later element overwrite it)
										if ci, isId := ast.Unparen(y.Cond).(*ast.Ident); isId && bodyLeaves(y.Body) && info.ObjectOf(ci) == v {
											okForm = "followed by a conditional exit on the verdict"
										}
									}
									if okForm != "" {
										break
									}
								}
							}
							if okForm == "" {
								// `for …; cond && v; …`: the loop's own condition tests the verdict, so the loop ends with the first
								// element that makes it false (the "all elements" form; `cond && !v` is the "some element" form)
								if fs, isFor := l.(*ast.ForStmt); isFor && fs.Cond != nil {
									var conj func(e ast.Expr)
									conj = func(e ast.Expr) {
										e = ast.Unparen(e)
										if be, ok := e.(*ast.BinaryExpr); ok && be.Op == token.LAND {
											conj(be.X)
											conj(be.Y)
											return
										}
										if ue, ok := e.(*ast.UnaryExpr); ok && ue.Op == token.NOT {
											e = ast.Unparen(ue.X)
										}
										if i2, ok := e.(*ast.Ident); ok && info.ObjectOf(i2) == v {
											okForm = "the loop condition tests the verdict"
										}
									}
									conj(fs.Cond)
								}
							}
							c.Check(okForm != "", rule, fmt.Sprintf("%s/%s in loop", c.FuncName(d), id.Name), x.Pos(), okForm,
								"`"+id.Name+"` is declared in front of the loop, read behind it and overwritten in every iteration with the answer for the current element: only the LAST element counts (for `Pair<Rec, int>` with a changed `Rec` the later, unchanged argument resets the verdict and the change is lost)")
						}
					case *ast.IfStmt:
						visit(x.Body.List)
						if eb, ok := x.Else.(*ast.BlockStmt); ok {
							visit(eb.List)
						} else if ei, ok := x.Else.(*ast.IfStmt); ok {
							visit([]ast.Stmt{ei})
						}
					case *ast.BlockStmt:
						visit(x.List)
					case *ast.SwitchStmt:
						for _, cc := range x.Body.List {
							visit(cc.(*ast.CaseClause).Body)
						}
					case *ast.TypeSwitchStmt:
						for _, cc := range x.Body.List {
							visit(cc.(*ast.CaseClause).Body)
						}
					}
				}
			}
			visit(body.List)
		}
	}
	if n == 0 {
		c.Undecided(rule, "anchor/loop verdicts", 0, "none found")
	}
}

func init() {
	reg("C05", ruleLoopVerdictsAccumulate)
	reg("C06", ruleLoopVerdictsAccumulate)
	reg("C09", ruleLoopVerdictsAccumulate)
}

// ---------------------------------------------------------------------------------------------------------------
// BN1: `if a.F != nil && b.F != nil { compare }` on the same optional field of two values says nothing about the
// mixed case (one set, one not). Without an else the mixed case counts as "no difference".
// ---------------------------------------------------------------------------------------------------------------
func ruleBothSetGuardsHandleTheMixedCase(c *core.Ctx) {
	const rule = "BN1"
	c.Rule(rule, "pkg/dsl: an `if x.F != nil && y.F != nil` over the same nil-able field of two values has an else branch (or follows a test of the mixed case): a field set on one side only is a difference, not nothing", 1)
	p := c.Pkg("pkg/dsl")
	if p == nil {
		c.Undecided(rule, "anchor/pkg/dsl", 0, "package not found")
		return
	}
	info := p.TypesInfo
	n := 0
	nilTest := func(e ast.Expr) (recv string, field *types.Var, ok bool) {
		be, isB := ast.Unparen(e).(*ast.BinaryExpr)
		if !isB || be.Op != token.NEQ {
			return "", nil, false
		}
		x, y := ast.Unparen(be.X), ast.Unparen(be.Y)
		if id, isId := y.(*ast.Ident); !isId || id.Name != "nil" {
			if id2, isId2 := x.(*ast.Ident); isId2 && id2.Name == "nil" {
				x = y
			} else {
				return "", nil, false
			}
		}
		se, isSel := x.(*ast.SelectorExpr)
		if !isSel {
			return "", nil, false
		}
		sel := info.Selections[se]
		if sel == nil || sel.Kind() != types.FieldVal {
			return "", nil, false
		}
		v, _ := sel.Obj().(*types.Var)
		return types.ExprString(se.X), v, v != nil
	}
	for _, d := range c.AllDecls() {
		if c.DeclPkg(d) != p || d.Body == nil || c.IsTestFile(d.Pos()) {
			continue
		}
		ast.Inspect(d.Body, func(m ast.Node) bool {
			is, ok := m.(*ast.IfStmt)
			if !ok {
				return true
			}
			be, ok := ast.Unparen(is.Cond).(*ast.BinaryExpr)
			if !ok || be.Op != token.LAND {
				return true
			}
			r1, f1, ok1 := nilTest(be.X)
			r2, f2, ok2 := nilTest(be.Y)
			if !ok1 || !ok2 || f1 != f2 || r1 == r2 {
				return true
			}
			n++
			mixedBefore := false
			ast.Inspect(d.Body, func(q ast.Node) bool {
				if b2, ok := q.(*ast.BinaryExpr); ok && b2.End() < is.Pos() && b2.Op == token.NEQ {
					l, r := types.ExprString(b2.X), types.ExprString(b2.Y)
					if strings.Contains(l, "== nil") && strings.Contains(r, "== nil") && strings.Contains(l, f1.Name()) && strings.Contains(r, f1.Name()) {
						mixedBefore = true
					}
				}
				return true
			})
			c.Check(is.Else != nil || mixedBefore, rule, fmt.Sprintf("%s/%s.%s and %s.%s both set", c.FuncName(d), r1, f1.Name(), r2, f2.Name()), is.Pos(),
				"the other cases are handled in the else branch",
				fmt.Sprintf("`%s` is examined only when it is set on both sides and nothing handles the case that one side has it and the other has not: that difference (an explicit base type against the default one, say) counts as no change", f1.Name()))
			return true
		})
	}
	if n == 0 {
		c.Undecided(rule, "anchor/both-set guards", 0, "none found")
	}
}

func init() {
	reg("C05", ruleBothSetGuardsHandleTheMixedCase)
	reg("C06", ruleBothSetGuardsHandleTheMixedCase)
}

// ---------------------------------------------------------------------------------------------------------------
// EB1: a Python block header (`class X:`, `def f():`, `if c:`, `for x in y:` …) printed by the Python back end is
// followed by an indented body that prints at least one statement for EVERY model: a body made only of loops over
// model collections and conditional prints is empty for the model whose collections are empty.
// ---------------------------------------------------------------------------------------------------------------
func ruleEmittedPythonBlocksAreNeverEmpty(c *core.Ctx) {
	const rule = "EB1"
	c.Rule(rule, "python back end: the w.Indented(...) body that follows a printed block header (a line ending in `:`) prints a statement on every path — an unconditional print, or a `pass` — not only inside loops over model collections and conditional prints", 20)
	n := 0
	for _, d := range c.AllDecls() {
		p := c.DeclPkg(d)
		if p == nil || d.Body == nil || c.IsTestFile(d.Pos()) || !strings.Contains(p.PkgPath, "/internal/python") {
			continue
		}
		info := p.TypesInfo
		constStr := func(e ast.Expr) (string, bool) {
			if tv, ok := info.Types[e]; ok && tv.Value != nil && tv.Value.Kind() == constant.String {
				return constant.StringVal(tv.Value), true
			}
			return "", false
		}
		emitLit := func(s ast.Stmt) (string, bool) {
			es, ok := s.(*ast.ExprStmt)
			if !ok {
				return "", false
			}
			ce, ok := es.X.(*ast.CallExpr)
			if !ok {
				return "", false
			}
			name := types.ExprString(ce.Fun)
			if !(strings.HasSuffix(name, "Fprintf") || strings.HasSuffix(name, "WriteString") || strings.HasSuffix(name, "WriteStringln") || strings.HasSuffix(name, "Fprintln") || strings.HasSuffix(name, "Fprint")) {
				return "", false
			}
			for _, a := range ce.Args {
				if s, ok := constStr(a); ok {
					if strings.HasSuffix(name, "ln") {
						s += "\n"
					}
					return s, true
				}
			}
			return "", false
		}
		// does the statement list print something non-blank on every path?
		var definite func(list []ast.Stmt, depth int) bool
		definite = func(list []ast.Stmt, depth int) bool {
			if depth > 4 {
				return false
			}
			for _, s := range list {
				if lit, ok := emitLit(s); ok {
					if strings.TrimSpace(lit) != "" {
						return true
					}
					continue
				}
				switch x := s.(type) {
				case *ast.IfStmt:
					if eb, ok := x.Else.(*ast.BlockStmt); ok && definite(x.Body.List, depth+1) && definite(eb.List, depth+1) {
						return true
					}
				case *ast.BlockStmt:
					if definite(x.List, depth+1) {
						return true
					}
				case *ast.SwitchStmt:
					// every clause prints, and the clauses cover a default or every constant of the tag's type
					all, hasDefault := len(x.Body.List) > 0, false
					listed := map[string]bool{}
					for _, cl := range x.Body.List {
						cc := cl.(*ast.CaseClause)
						if cc.List == nil {
							hasDefault = true
						}
						for _, e := range cc.List {
							if tv, ok := info.Types[e]; ok && tv.Value != nil {
								listed[tv.Value.ExactString()] = true
							}
						}
						if !definite(cc.Body, depth+1) {
							all = false
						}
					}
					if all && !hasDefault && x.Tag != nil {
						if nt := core.NamedOf(info.TypeOf(x.Tag)); nt != nil && nt.Obj().Pkg() != nil {
							total, covered := 0, 0
							sc := nt.Obj().Pkg().Scope()
							for _, name := range sc.Names() {
								if k, ok := sc.Lookup(name).(*types.Const); ok && types.Identical(k.Type(), nt) {
									total++
									if listed[k.Val().ExactString()] {
										covered++
									}
								}
							}
							hasDefault = total > 0 && covered == total
						}
					}
					if all && hasDefault {
						return true
					}
				case *ast.RangeStmt:
					// validated facts: the parser rejects a record without fields ("must define at least one field"), a
					// protocol without steps ("must define a non-empty sequence") and a union without options; a union class
					// is written for a type with at least one non-null case — loops over these print at least once
					if t := info.TypeOf(x.X); t != nil {
						el := t
						if sl, ok := t.Underlying().(*types.Slice); ok {
							el = sl.Elem()
						}
						if pt, ok := el.(*types.Pointer); ok {
							el = pt.Elem()
						}
						if nt := core.NamedOf(el); nt != nil && nt.Obj().Pkg() != nil && strings.HasSuffix(nt.Obj().Pkg().Path(), "/pkg/dsl") {
							switch nt.Obj().Name() {
							case "Field", "ProtocolStep", "TypeCase":
								body := x.Body.List
								for len(body) > 0 { // `if tc.Type == nil { continue }`
									is, ok := body[0].(*ast.IfStmt)
									if !ok || is.Else != nil || len(is.Body.List) != 1 {
										break
									}
									br, ok := is.Body.List[0].(*ast.BranchStmt)
									if !ok || br.Tok != token.CONTINUE {
										break
									}
									body = body[1:]
								}
								if definite(body, depth+1) {
									return true
								}
							}
						}
					}
				case *ast.ExprStmt:
					if ce, ok := x.X.(*ast.CallExpr); ok {
						// printing an expression of the model always prints something
						for _, a := range ce.Args {
							if t := info.TypeOf(a); t != nil {
								if nt := core.NamedOf(t); nt != nil && nt.Obj().Pkg() != nil && strings.HasSuffix(nt.Obj().Pkg().Path(), "/pkg/dsl") && nt.Obj().Name() == "Expression" {
									return true
								}
							}
						}
						// w.Indented(func(){...}) nested, or a local closure / package helper whose body prints definitely
						if strings.HasSuffix(types.ExprString(ce.Fun), "Indented") && len(ce.Args) == 1 {
							if fl, ok := ast.Unparen(ce.Args[0]).(*ast.FuncLit); ok && definite(fl.Body.List, depth+1) {
								return true
							}
						}
						if f := core.Callee(info, ce); f != nil && core.InModule(f) {
							if fd := c.Decl(f); fd != nil && fd.Body != nil && c.DeclPkg(fd) == p && definite(fd.Body.List, depth+1) {
								return true
							}
						}
					}
				case *ast.ReturnStmt:
					return false
				}
			}
			// case analysis over the conditions of the top-level statements: `for v := range X {print}` prints when X is
			// not empty, `if len(X) == 0 && !flag {print "pass"}` when it is, `if kind == A {print}` / `if kind == B || kind == C
			// {print}` cover an enumeration — together they may cover every case
			atoms := []string{}
			domains := map[string][]string{}
			addAtom := func(a string, dom []string) {
				for _, x := range atoms {
					if x == a {
						return
					}
				}
				atoms = append(atoms, a)
				domains[a] = dom
			}
			boolDom := []string{"false", "true"}
			var eval func(e ast.Expr, env map[string]string) (bool, bool)
			lenAtom := func(e ast.Expr) (string, bool) { // len(X) -> "empty:X"
				if ce, ok := ast.Unparen(e).(*ast.CallExpr); ok && len(ce.Args) == 1 {
					if id, ok := ast.Unparen(ce.Fun).(*ast.Ident); ok && id.Name == "len" {
						return "empty:" + types.ExprString(ce.Args[0]), true
					}
				}
				return "", false
			}
			enumDomain := func(t types.Type) []string {
				nt := core.NamedOf(t)
				if nt == nil || nt.Obj().Pkg() == nil {
					return nil
				}
				var dom []string
				sc := nt.Obj().Pkg().Scope()
				for _, name := range sc.Names() {
					if k, ok := sc.Lookup(name).(*types.Const); ok && types.Identical(k.Type(), nt) {
						dom = append(dom, k.Val().ExactString())
					}
				}
				return dom
			}
			eval = func(e ast.Expr, env map[string]string) (val bool, known bool) {
				switch x := ast.Unparen(e).(type) {
				case *ast.UnaryExpr:
					if x.Op == token.NOT {
						v, k := eval(x.X, env)
						return !v, k
					}
				case *ast.BinaryExpr:
					switch x.Op {
					case token.LAND, token.LOR:
						a, ka := eval(x.X, env)
						b, kb := eval(x.Y, env)
						if x.Op == token.LAND {
							return a && b, ka && kb
						}
						return a || b, ka && kb
					case token.EQL, token.NEQ, token.GTR:
						if at, ok := lenAtom(x.X); ok {
							if tv, ok := info.Types[x.Y]; ok && tv.Value != nil && tv.Value.ExactString() == "0" {
								addAtom(at, boolDom)
								empty := env[at] == "true"
								if x.Op == token.EQL {
									return empty, true
								}
								return !empty, true
							}
						}
						if x.Op != token.GTR {
							// `v == Const` over an enumeration declared in the module
							for _, pr := range [][2]ast.Expr{{x.X, x.Y}, {x.Y, x.X}} {
								tv, isConst := info.Types[pr[1]]
								if !isConst || tv.Value == nil {
									continue
								}
								if _, selfConst := info.Types[pr[0]]; selfConst && info.Types[pr[0]].Value != nil {
									continue
								}
								dom := enumDomain(info.TypeOf(pr[0]))
								if len(dom) == 0 || len(dom) > 8 {
									continue
								}
								a := "enum:" + types.ExprString(pr[0])
								addAtom(a, dom)
								eq := env[a] == tv.Value.ExactString()
								if x.Op == token.EQL {
									return eq, true
								}
								return !eq, true
							}
						}
					}
				case *ast.Ident, *ast.SelectorExpr:
					if t := info.TypeOf(x); t != nil {
						if b, ok := t.Underlying().(*types.Basic); ok && b.Kind() == types.Bool {
							a := "bool:" + types.ExprString(x)
							addAtom(a, boolDom)
							return env[a] == "true", true
						}
					}
				}
				return false, false
			}
			printsUnder := func(env map[string]string) bool {
				for _, s := range list {
					switch x := s.(type) {
					case *ast.RangeStmt:
						a := "empty:" + types.ExprString(x.X)
						addAtom(a, boolDom)
						if env[a] != "true" && definite(x.Body.List, depth+1) {
							return true
						}
					case *ast.IfStmt:
						if x.Init != nil {
							continue
						}
						v, known := eval(x.Cond, env)
						if known && v && definite(x.Body.List, depth+1) {
							return true
						}
						if eb, ok := x.Else.(*ast.BlockStmt); ok && known && !v && definite(eb.List, depth+1) {
							return true
						}
						if known && v && bodyLeaves(x.Body) {
							return false // the path leaves here without having printed
						}
					}
				}
				return false
			}
			first := map[string]string{}
			printsUnder(first) // collects the atoms
			total := 1
			for _, a := range atoms {
				total *= len(domains[a])
			}
			if len(atoms) > 0 && total <= 256 {
				all := true
				idx := make([]int, len(atoms))
				for {
					env := map[string]string{}
					for i, a := range atoms {
						env[a] = domains[a][idx[i]]
					}
					if !printsUnder(env) {
						all = false
						break
					}
					k := 0
					for k < len(idx) {
						idx[k]++
						if idx[k] < len(domains[atoms[k]]) {
							break
						}
						idx[k] = 0
						k++
					}
					if k == len(idx) {
						break
					}
				}
				if all {
					return true
				}
			}
			return false
		}
		var walk func(list []ast.Stmt)
		walk = func(list []ast.Stmt) {
			for i := 0; i+1 < len(list); i++ {
				hdr, ok := emitLit(list[i])
				if !ok {
					continue
				}
				h := strings.TrimRight(hdr, "\n")
				if !strings.HasSuffix(h, ":") || strings.HasPrefix(strings.TrimSpace(h), "#") || strings.HasPrefix(strings.TrimSpace(h), "\"") {
					continue
				}
				es, ok := list[i+1].(*ast.ExprStmt)
				if !ok {
					continue
				}
				ind, ok := es.X.(*ast.CallExpr)
				if !ok || !strings.HasSuffix(types.ExprString(ind.Fun), "Indented") || len(ind.Args) != 1 {
					continue
				}
				fl, ok := ast.Unparen(ind.Args[0]).(*ast.FuncLit)
				if !ok {
					continue
				}
				n++
				key := fmt.Sprintf("%s/%s", c.FuncName(d), strings.TrimSpace(firstWords(h, 5)))
				c.Check(definite(fl.Body.List, 0), rule, key, ind.Pos(), "the body prints a statement on every path",
					"the body printed under `"+strings.TrimSpace(h)+"` consists of loops over model collections and conditional prints only: for a definition whose collections are empty (an enum without values, a record without fields) nothing is printed and the generated Python module does not compile (IndentationError)")
			}
			for _, s := range list {
				ast.Inspect(s, func(m ast.Node) bool {
					switch x := m.(type) {
					case *ast.BlockStmt:
						walk(x.List)
						return false
					case *ast.CaseClause:
						walk(x.Body)
						return false
					}
					return true
				})
			}
		}
		walk(d.Body.List)
	}
	if n == 0 {
		c.Undecided(rule, "anchor/printed Python block headers", 0, "none found")
	}
}

func init() {
	reg("C08", ruleEmittedPythonBlocksAreNeverEmpty)
}

func backEndOf(pkgPath string) string {
	rest := pkgPath
	if i := strings.Index(rest, "/internal/"); i >= 0 {
		rest = rest[i+len("/internal/"):]
	}
	if i := strings.Index(rest, "/"); i >= 0 {
		rest = rest[:i]
	}
	return rest
}

// lastBackEndOfARun: the function of internal/cmd that calls the Generate functions of several back ends, and the
// back end whose call stands last in it (source order of the calls; a table of closures is read in the order it is
// written, so a table that is not in execution order must be re-reviewed).
func lastBackEndOfARun(c *core.Ctx) (last string, order []string, decided bool) {
	p := c.Pkg("internal/cmd")
	if p == nil {
		return "", nil, false
	}
	info := p.TypesInfo
	for _, d := range c.AllDecls() {
		if c.DeclPkg(d) != p || d.Body == nil || c.IsTestFile(d.Pos()) {
			continue
		}
		type site struct {
			pos token.Pos
			be  string
		}
		var sites []site
		sorted := false
		ast.Inspect(d.Body, func(m ast.Node) bool {
			ce, ok := m.(*ast.CallExpr)
			if !ok {
				return true
			}
			f := core.Callee(info, ce)
			if f == nil || f.Pkg() == nil {
				return true
			}
			if f.Pkg().Path() == "sort" || f.Pkg().Path() == "slices" {
				sorted = true // the calls may be re-ordered at run time
			}
			if f.Name() == "Generate" && core.InModule(f) && strings.Contains(f.Pkg().Path(), "/internal/") && f.Pkg() != p.Types {
				sites = append(sites, site{ce.Pos(), backEndOf(f.Pkg().Path())})
			}
			return true
		})
		distinct := map[string]bool{}
		for _, s := range sites {
			distinct[s.be] = true
		}
		if len(distinct) < 2 {
			continue
		}
		if sorted {
			return "", nil, false
		}
		for _, s := range sites {
			order = append(order, s.be)
		}
		return sites[len(sites)-1].be, order, true
	}
	return "", nil, false
}

// nameOnlyPredicate: the call goes to a function of the module whose body consists of calls from the allowed set (and
// of such helpers): a predicate over the file name, factored out of the walk callback.
func nameOnlyPredicate(c *core.Ctx, info *types.Info, call *ast.CallExpr, allowed map[string]bool, depth int) bool {
	if depth > 2 {
		return false
	}
	f := core.Callee(info, call)
	if f == nil || !core.InModule(f) {
		return false
	}
	d := c.Decl(f)
	if d == nil || d.Body == nil || c.DeclPkg(d) == nil {
		return false
	}
	// the helper may receive the name or the FileInfo / DirEntry itself: what it asks of them is judged like the callback
	ok := true
	dinfo := c.DeclPkg(d).TypesInfo
	ast.Inspect(d.Body, func(k ast.Node) bool {
		ce, isCall := k.(*ast.CallExpr)
		if !isCall {
			return true
		}
		nm := ""
		switch fx := ast.Unparen(ce.Fun).(type) {
		case *ast.SelectorExpr:
			nm = fx.Sel.Name
		case *ast.Ident:
			nm = fx.Name
		}
		if !allowed[nm] && !nameOnlyPredicate(c, dinfo, ce, allowed, depth+1) {
			ok = false
		}
		return true
	})
	return ok
}

// ---------------------------------------------------------------------------------------------------------------
// I4: the import depth limit admits exactly MaxImportRecursionDepth nesting levels. The three pieces — the value the
// root call starts with, the step of the recursive call, the test that rejects — are read off the code and evaluated
// for nesting levels 0, 1, 2, …: whichever way the counter runs, the first rejected level is MaxImportRecursionDepth.
// ---------------------------------------------------------------------------------------------------------------
func ruleDepthLimitAdmitsExactlyMax(c *core.Ctx) {
	const rule = "I4"
	c.Rule(rule, "packaging.collectPackages: start value (at the outside call), step (at the recursive call) and rejecting test of the depth counter, evaluated for nesting levels 0,1,2,…, admit levels 0 … MaxImportRecursionDepth-1 and reject level MaxImportRecursionDepth — counting up or down", 1)
	p := c.Pkg("pkg/packaging")
	f, d, _ := c.Func("pkg/packaging", "collectPackages")
	if p == nil || d == nil || f == nil {
		c.Undecided(rule, "anchor/pkg/packaging.collectPackages", 0, "anchor not found")
		return
	}
	info := p.TypesInfo
	mx, _ := p.Types.Scope().Lookup("MaxImportRecursionDepth").(*types.Const)
	if mx == nil {
		c.Undecided(rule, "anchor/MaxImportRecursionDepth", d.Pos(), "constant not found")
		return
	}
	max, _ := constant.Int64Val(constant.ToInt(mx.Val()))
	// the integer parameter that the recursive call passes on as `param ± k`
	params := paramObjs(info, d)
	var depth types.Object
	depthIdx := -1
	var step int64
	ast.Inspect(d.Body, func(m ast.Node) bool {
		ce, ok := m.(*ast.CallExpr)
		if !ok || core.Callee(info, ce) == nil || core.Callee(info, ce).Origin() != f {
			return true
		}
		for i, a := range ce.Args {
			be, ok := ast.Unparen(core.InlineLocals(info, d.Body, a)).(*ast.BinaryExpr)
			if !ok || (be.Op != token.ADD && be.Op != token.SUB) || i >= len(params) {
				continue
			}
			if identObj(info, be.X) == params[i] && params[i] != nil {
				if tv, ok := info.Types[be.Y]; ok && tv.Value != nil {
					k, _ := constant.Int64Val(constant.ToInt(tv.Value))
					if be.Op == token.SUB {
						k = -k
					}
					depth, depthIdx, step = params[i], i, k
				}
			}
		}
		return true
	})
	if depth == nil || step == 0 {
		c.Undecided(rule, "collectPackages/step", d.Pos(), "no integer parameter that the recursive call passes on as `parameter ± constant` was found")
		return
	}
	// start values at the calls from outside
	var starts []int64
	startKnown := true
	for _, od := range c.AllDecls() {
		if od == d || c.DeclPkg(od) != p || od.Body == nil {
			continue
		}
		ast.Inspect(od.Body, func(m ast.Node) bool {
			ce, ok := m.(*ast.CallExpr)
			if !ok || core.Callee(info, ce) == nil || core.Callee(info, ce).Origin() != f || depthIdx >= len(ce.Args) {
				return true
			}
			if tv, ok := info.Types[ce.Args[depthIdx]]; ok && tv.Value != nil {
				v, _ := constant.Int64Val(constant.ToInt(tv.Value))
				starts = append(starts, v)
			} else {
				startKnown = false
			}
			return true
		})
	}
	if len(starts) == 0 || !startKnown {
		c.Undecided(rule, "collectPackages/start value", d.Pos(), "the value the counter starts with at the outside call is not a constant")
		return
	}
	// the rejecting test: a leaving `if` whose condition compares the parameter with a constant
	type test struct {
		op  token.Token
		rhs int64
		pos token.Pos
	}
	var tests []test
	ast.Inspect(d.Body, func(m ast.Node) bool {
		is, ok := m.(*ast.IfStmt)
		if !ok || !bodyLeaves(is.Body) {
			return true
		}
		be, ok := ast.Unparen(is.Cond).(*ast.BinaryExpr)
		if !ok {
			return true
		}
		x, y, op := be.X, be.Y, be.Op
		if identObj(info, y) == depth {
			x, y = y, x
			op = map[token.Token]token.Token{token.LSS: token.GTR, token.LEQ: token.GEQ, token.GTR: token.LSS, token.GEQ: token.LEQ, token.EQL: token.EQL, token.NEQ: token.NEQ}[op]
		}
		if identObj(info, x) != depth {
			return true
		}
		if tv, ok := info.Types[y]; ok && tv.Value != nil {
			v, _ := constant.Int64Val(constant.ToInt(tv.Value))
			tests = append(tests, test{op, v, is.Pos()})
		}
		return true
	})
	if len(tests) == 0 {
		c.Undecided(rule, "collectPackages/rejecting test", d.Pos(), "no leaving `if` that compares the depth counter with a constant was found")
		return
	}
	// the test applies to the package the call is about: it stands among the top-level statements, not inside the loop
	// over the imports (there it would let a package at the last level through whenever it imports nothing)
	for _, t := range tests {
		top := false
		for _, st := range d.Body.List {
			if st.Pos() == t.pos {
				top = true
			}
		}
		c.Check(top, rule, "collectPackages/rejecting test applies to every package", t.pos, "the test is a top-level statement of collectPackages",
			"the depth test stands inside a loop or a branch: a package without imports is never tested, so a chain one level deeper than MaxImportRecursionDepth is accepted when its last package imports nothing")
	}
	rejects := func(v int64) bool {
		for _, t := range tests {
			switch t.op {
			case token.LSS:
				if v < t.rhs {
					return true
				}
			case token.LEQ:
				if v <= t.rhs {
					return true
				}
			case token.GTR:
				if v > t.rhs {
					return true
				}
			case token.GEQ:
				if v >= t.rhs {
					return true
				}
			case token.EQL:
				if v == t.rhs {
					return true
				}
			}
		}
		return false
	}
	for _, s0 := range starts {
		first := int64(-1)
		for k := int64(0); k <= max+5; k++ {
			if rejects(s0 + k*step) {
				first = k
				break
			}
		}
		c.Check(first == max, rule, fmt.Sprintf("collectPackages/first rejected nesting level (start %d, step %+d)", s0, step), tests[0].pos,
			fmt.Sprintf("levels 0 … %d are admitted, level %d is rejected", max-1, max),
			fmt.Sprintf("the first nesting level the limit rejects is %d, not MaxImportRecursionDepth = %d: an import chain one level %s than the documented limit is %s", first, max,
				map[bool]string{true: "deeper", false: "shallower"}[first > max || first < 0], map[bool]string{true: "accepted and generated from", false: "rejected"}[first > max || first < 0]))
	}
}

// ---------------------------------------------------------------------------------------------------------------
// P6c: a model file may hold several YAML documents; the decoder of pkg/dsl is called until it reports the end.
// ---------------------------------------------------------------------------------------------------------------
func ruleModelDecoderRunsToTheEnd(c *core.Ctx) {
	const rule = "P6c"
	c.Rule(rule, "pkg/dsl: every (*yaml.Decoder).Decode of a model file stands inside a loop (a model file may hold several `---` documents: decoding once drops everything behind the first)", 1)
	p := c.Pkg("pkg/dsl")
	if p == nil {
		c.Undecided(rule, "anchor/pkg/dsl", 0, "package not found")
		return
	}
	info := p.TypesInfo
	n := 0
	for _, d := range c.AllDecls() {
		if c.DeclPkg(d) != p || d.Body == nil || c.IsTestFile(d.Pos()) {
			continue
		}
		var loops []ast.Node
		ast.Inspect(d.Body, func(m ast.Node) bool {
			switch m.(type) {
			case *ast.ForStmt, *ast.RangeStmt:
				loops = append(loops, m)
			}
			return true
		})
		ast.Inspect(d.Body, func(m ast.Node) bool {
			ce, ok := m.(*ast.CallExpr)
			if !ok {
				return true
			}
			f := core.Callee(info, ce)
			if f == nil || core.FullName(f) != "(gopkg.in/yaml.v3.Decoder).Decode" {
				return true
			}
			n++
			in := false
			for _, l := range loops {
				// a loop whose own statements contain the call — not merely a loop over files around a single Decode:
				// the loop must be condition-less or conditioned on the decoding (not a range over a collection)
				if fs, ok := l.(*ast.ForStmt); ok && fs.Pos() <= ce.Pos() && ce.End() <= fs.End() {
					in = true
				}
			}
			// the call may sit in a helper that is itself called from such a loop with the same decoder
			if !in {
				self, _ := info.Defs[d.Name].(*types.Func)
				for _, od := range c.AllDecls() {
					if c.DeclPkg(od) != p || od.Body == nil || self == nil {
						continue
					}
					ast.Inspect(od.Body, func(k ast.Node) bool {
						fs, ok := k.(*ast.ForStmt)
						if !ok {
							return true
						}
						ast.Inspect(fs.Body, func(q ast.Node) bool {
							if c2, ok := q.(*ast.CallExpr); ok {
								if g := core.Callee(info, c2); g != nil && g.Origin() == self {
									in = true
								}
							}
							return true
						})
						return true
					})
				}
			}
			c.Check(in, rule, c.FuncName(d)+"/Decode", ce.Pos(), "decoded in a `for` loop until the decoder reports the end",
				"the model file is decoded once: every YAML document after the first `---` is silently dropped, so definitions (and rule violations) placed there are never parsed or validated")
			return true
		})
	}
	if n == 0 {
		c.Undecided(rule, "anchor/yaml Decode calls in pkg/dsl", 0, "none found")
	}
}

func init() {
	reg("C18", ruleDepthLimitAdmitsExactlyMax)
	reg("C11", ruleDepthLimitAdmitsExactlyMax, ruleModelDecoderRunsToTheEnd)
	reg("C09", ruleModelDecoderRunsToTheEnd)
	reg("C13", ruleModelDecoderRunsToTheEnd)
}

func init() {
	// cross-registrations after the tenth round: the clause was decided, but not under the property the change was written for
	reg("C05", rulePrunes(schemaFiles, "V5", 2))
	reg("C06", ruleAllModelsValidated)
	reg("C08", ruleVisitorCoverage("VisitorWithContext.VisitChildren", "V1", "V2", 30), ruleVisitorCoverage("defaultRewriteImpl", "V3", "V4", 30))
	reg("C04", ruleVisitorCoverage("defaultRewriteImpl", "V3", "V4", 30))
	reg("C15", ruleVisitorCoverage("defaultRewriteImpl", "V3", "V4", 30))
}

// ---------------------------------------------------------------------------------------------------------------
// O4: an emitted C++ `to_json` that ADDS members to `j` (push_back / operator[]) under emitted conditions first gives
// `j` its container kind unconditionally; otherwise a value whose conditions are all false is written as `null`.
// ---------------------------------------------------------------------------------------------------------------
func ruleEmittedToJsonStartsFromAContainer(c *core.Ctx) {
	const rule = "O4"
	c.Rule(rule, "cpp/ndjson: in a printed `to_json(ordered_json& j, …)` that adds members to `j` (`j.push_back`, `j[…] =`), a printed `j = …;` at brace depth 0 of the function precedes the first addition (a record whose optional fields are all empty is `{}`, not `null`)", 1)
	p := c.Pkg("internal/cpp/ndjson")
	if p == nil {
		c.Undecided(rule, "anchor/internal/cpp/ndjson", 0, "package not found")
		return
	}
	info := p.TypesInfo
	isHeader := func(e ast.Node) bool {
		found := false
		ast.Inspect(e, func(m ast.Node) bool {
			if _, isLit := m.(*ast.FuncLit); isLit {
				return false
			}
			if bl, ok := m.(*ast.BasicLit); ok && bl.Kind == token.STRING {
				if tv, ok := info.Types[bl]; ok && tv.Value != nil {
					t := constant.StringVal(tv.Value)
					if strings.Contains(t, "to_json(ordered_json& j") && strings.HasSuffix(strings.TrimSpace(t), "{") {
						found = true
					}
				}
			}
			return true
		})
		return found
	}
	headers, n := 0, 0
	for _, d := range c.AllDecls() {
		if c.DeclPkg(d) != p || d.Body == nil || c.IsTestFile(d.Pos()) {
			continue
		}
		localLits := map[types.Object]*ast.FuncLit{}
		ast.Inspect(d.Body, func(m ast.Node) bool {
			if as, ok := m.(*ast.AssignStmt); ok && len(as.Lhs) == 1 && len(as.Rhs) == 1 {
				if fl, ok := ast.Unparen(as.Rhs[0]).(*ast.FuncLit); ok {
					if o := identObj(info, as.Lhs[0]); o != nil {
						localLits[o] = fl
					}
				}
			}
			return true
		})
		var bodies []*ast.FuncLit
		var walkList func(list []ast.Stmt)
		walkList = func(list []ast.Stmt) {
			for i, st := range list {
				es, ok := st.(*ast.ExprStmt)
				if ok {
					if ce, ok := es.X.(*ast.CallExpr); ok && isHeader(ce) {
						headers++
						// (2) the header and the body are handed to one block helper
						got := false
						for _, a := range ce.Args {
							switch x := ast.Unparen(a).(type) {
							case *ast.FuncLit:
								bodies, got = append(bodies, x), true
							case *ast.Ident:
								if fl := localLits[info.ObjectOf(x)]; fl != nil {
									bodies, got = append(bodies, fl), true
								}
							}
						}
						// (1) the header is printed and the next statement prints the indented body
						if !got && i+1 < len(list) {
							if es2, ok := list[i+1].(*ast.ExprStmt); ok {
								if ind, ok := es2.X.(*ast.CallExpr); ok && strings.HasSuffix(types.ExprString(ind.Fun), "Indented") && len(ind.Args) == 1 {
									if fl, ok := ast.Unparen(ind.Args[0]).(*ast.FuncLit); ok {
										bodies = append(bodies, fl)
									}
								}
							}
						}
					}
				}
				ast.Inspect(st, func(m ast.Node) bool {
					switch x := m.(type) {
					case *ast.BlockStmt:
						walkList(x.List)
						return false
					case *ast.CaseClause:
						walkList(x.Body)
						return false
					}
					return true
				})
			}
		}
		walkList(d.Body.List)
		for _, fl := range bodies {
			depth, initialised := 0, false
			var firstAdd token.Pos
			hasAdds := false
			ast.Inspect(fl.Body, func(m ast.Node) bool {
				bl, ok := m.(*ast.BasicLit)
				if !ok || bl.Kind != token.STRING {
					return true
				}
				tv, ok := info.Types[bl]
				if !ok || tv.Value == nil {
					return true
				}
				t := constant.StringVal(tv.Value)
				adds := strings.Contains(t, "j.push_back(") || strings.Contains(t, "j[") || strings.Contains(t, "j.emplace")
				if adds {
					hasAdds = true
					if !initialised && firstAdd == token.NoPos {
						firstAdd = bl.Pos()
					}
				}
				if depth == 0 && strings.HasPrefix(strings.TrimSpace(t), "j = ") && firstAdd == token.NoPos {
					initialised = true
				}
				depth += strings.Count(t, "{") - strings.Count(t, "}")
				return true
			})
			if !hasAdds {
				continue
			}
			n++
			at := fl.Pos()
			if firstAdd != token.NoPos {
				at = firstAdd
			}
			c.Check(firstAdd == token.NoPos, rule, c.FuncName(d)+"/to_json", at, "`j = …;` is printed at depth 0 before the first addition",
				"members are added to `j` under printed conditions and nothing gives `j` its container kind first: a record whose optional fields are all empty is written as `null` instead of `{}`, and read back as an absent value")
		}
	}
	if headers == 0 {
		c.Undecided(rule, "anchor/printed to_json functions", 0, "no printed `to_json(ordered_json& j, …) {` found in cpp/ndjson")
	} else if n == 0 {
		c.OK(rule, "cpp/ndjson/to_json functions", 0, fmt.Sprintf("%d printed to_json functions, none adds members to `j` one by one", headers))
	}
}

func init() {
	reg("C02", ruleEmittedToJsonStartsFromAContainer)
	reg("C03", ruleEmittedToJsonStartsFromAContainer)
}

// ---------------------------------------------------------------------------------------------------------------
// BN2: (*big.Int).Uint64 / Int64 return the low bits and drop the sign; the value must have been tested first.
// ---------------------------------------------------------------------------------------------------------------
func ruleBigIntNarrowingIsGuarded(c *core.Ctx) {
	const rule = "BN2"
	c.Rule(rule, "module code: every (*big.Int).Uint64() / Int64() is preceded, in the same function, by a test of the same value's size (IsUint64, IsInt64, Cmp, CmpAbs, BitLen; Sign alone where the text is a YAML !!int, which fits in 64 bits): the narrowing drops the sign and the high bits without telling", 3)
	n := 0
	for _, d := range c.AllDecls() {
		p := c.DeclPkg(d)
		if p == nil || d.Body == nil || c.IsTestFile(d.Pos()) || !strings.HasPrefix(p.PkgPath, core.Mod) {
			continue
		}
		info := p.TypesInfo
		isBigMethod := func(ce *ast.CallExpr, names ...string) (string, bool) {
			se, ok := ast.Unparen(ce.Fun).(*ast.SelectorExpr)
			if !ok {
				return "", false
			}
			f := core.Callee(info, ce)
			if f == nil || f.Pkg() == nil || f.Pkg().Path() != "math/big" {
				return "", false
			}
			for _, nm := range names {
				if f.Name() == nm {
					return strings.TrimPrefix(types.ExprString(se.X), "&"), true
				}
			}
			return "", false
		}
		ast.Inspect(d.Body, func(m ast.Node) bool {
			ce, ok := m.(*ast.CallExpr)
			if !ok {
				return true
			}
			recv, ok := isBigMethod(ce, "Uint64", "Int64")
			if !ok {
				return true
			}
			n++
			// a test of the SIZE (IsUint64, IsInt64, Cmp, CmpAbs, BitLen); a test of the sign alone is enough only where
			// the text is known to be a YAML !!int (yaml.v3 resolves !!int only for values that fit in 64 bits)
			guarded, signTested, yamlInt := false, false, false
			ast.Inspect(d.Body, func(k ast.Node) bool {
				if bl, ok := k.(*ast.BasicLit); ok && bl.Kind == token.STRING && strings.Contains(bl.Value, "!!int") {
					yamlInt = true
				}
				c2, ok := k.(*ast.CallExpr)
				if !ok || c2.Pos() >= ce.Pos() {
					return true
				}
				if r2, ok := isBigMethod(c2, "IsUint64", "IsInt64", "Cmp", "CmpAbs", "BitLen"); ok && r2 == recv {
					guarded = true
				}
				if r2, ok := isBigMethod(c2, "Sign"); ok && r2 == recv {
					signTested = true
				}
				return true
			})
			if signTested && yamlInt {
				guarded = true
			}
			c.Check(guarded, rule, fmt.Sprintf("%s/%s", c.FuncName(d), types.ExprString(ce)), ce.Pos(), "the sign / range of the value is tested before it is narrowed",
				"`"+types.ExprString(ce)+"` narrows a big integer whose sign and size were never looked at: a negative value becomes its magnitude (an enum value whose sign flipped counts as unchanged), a large one loses its high bits")
			return true
		})
	}
	if n == 0 {
		c.Undecided(rule, "anchor/big.Int narrowing", 0, "none found")
	}
}

func init() {
	reg("C06", ruleBigIntNarrowingIsGuarded)
	reg("C05", ruleBigIntNarrowingIsGuarded)
	reg("C09", ruleBigIntNarrowingIsGuarded)
	reg("C10", ruleBigIntNarrowingIsGuarded)
	reg("C13", ruleBigIntNarrowingIsGuarded)
}

func init() {
	// more cross-registrations after the tenth round
	reg("C09", ruleDecodeLoopLeavesOnError)
	reg("C11", ruleCollectPackages, ruleContextLiteralsComplete)
	reg("C12", ruleChdirRestored, ruleTemporaryCwdPathsAbsolute)
	reg("C13", ruleOptionalFieldSymmetry)
}

// ---------------------------------------------------------------------------------------------------------------
// RB1: the single-item read of a stream step reports end of stream through `read_block_successful`; what the
// generator prints to CONVERT the item just read (writeTypeConversion from the temporary) must be printed inside
// `if (read_block_successful) { … }` whenever the step can be a stream read item by item.
// ---------------------------------------------------------------------------------------------------------------
func ruleConversionOnlyAfterSuccessfulBlockRead(c *core.Ctx) {
	const rule = "RB1"
	c.Rule(rule, "cpp/binary.writeProtocolStep: every call of writeTypeConversion is made where `write` or `isPlural` is known true or `step.IsStream()` known false, or inside the w.Indented that follows the printed `if (read_block_successful) {` — at the end of a stream the temporary holds no item and must not be converted", 2)
	_, d, p := c.Func("internal/cpp/binary", "writeProtocolStep")
	if d == nil || p == nil {
		c.Undecided(rule, "anchor/internal/cpp/binary.writeProtocolStep", 0, "anchor not found")
		return
	}
	info := p.TypesInfo
	type fact struct {
		text string
		val  bool
	}
	n := 0
	var walk func(list []ast.Stmt, facts []fact, guardedByRead bool)
	judge := func(call *ast.CallExpr, facts []fact, guardedByRead bool) {
		n++
		ok := guardedByRead
		why := "printed inside `if (read_block_successful) { … }`"
		for _, f := range facts {
			switch {
			case f.text == "write" && f.val:
				ok, why = true, "write direction"
			case f.text == "isPlural" && f.val:
				ok, why = true, "batch read (the conversion runs over the items that were read)"
			case strings.HasSuffix(f.text, ".IsStream()") && !f.val:
				ok, why = true, "not a stream step"
			}
		}
		c.Check(ok, rule, fmt.Sprintf("writeProtocolStep/%s", types.ExprString(call)), call.Pos(), why,
			"the conversion of the item just read is printed unconditionally for a stream step read item by item: at the end of the stream ReadBlock delivers nothing, the value-initialised temporary is converted anyway, and a conversion that rejects that value (string -> number, a union whose first case was removed) throws instead of reporting the end of the stream")
	}
	var scanExpr func(e ast.Node, facts []fact, guardedByRead bool)
	scanExpr = func(e ast.Node, facts []fact, guardedByRead bool) {
		ast.Inspect(e, func(m ast.Node) bool {
			switch x := m.(type) {
			case *ast.FuncLit:
				walk(x.Body.List, facts, guardedByRead)
				return false
			case *ast.CallExpr:
				if f := core.Callee(info, x); f != nil && f.Name() == "writeTypeConversion" {
					judge(x, facts, guardedByRead)
				}
			}
			return true
		})
	}
	walk = func(list []ast.Stmt, facts []fact, guardedByRead bool) {
		prevOpensReadGuard := false
		for _, s := range list {
			opens := false
			switch x := s.(type) {
			case *ast.IfStmt:
				cond := types.ExprString(ast.Unparen(x.Cond))
				neg := false
				if u, ok := ast.Unparen(x.Cond).(*ast.UnaryExpr); ok && u.Op == token.NOT {
					cond, neg = types.ExprString(ast.Unparen(u.X)), true
				}
				if x.Init != nil {
					scanExpr(x.Init, facts, guardedByRead)
				}
				walk(x.Body.List, append(append([]fact{}, facts...), fact{cond, !neg}), guardedByRead)
				switch e := x.Else.(type) {
				case *ast.BlockStmt:
					walk(e.List, append(append([]fact{}, facts...), fact{cond, neg}), guardedByRead)
				case *ast.IfStmt:
					walk([]ast.Stmt{e}, append(append([]fact{}, facts...), fact{cond, neg}), guardedByRead)
				}
				if bodyLeaves(x.Body) && x.Else == nil {
					facts = append(append([]fact{}, facts...), fact{cond, neg})
				}
			case *ast.ExprStmt:
				if ce, ok := x.X.(*ast.CallExpr); ok {
					for _, a := range ce.Args {
						if tv, ok := info.Types[a]; ok && tv.Value != nil && tv.Value.Kind() == constant.String && strings.Contains(constant.StringVal(tv.Value), "if (read_block_successful)") {
							opens = true
						}
					}
					if strings.HasSuffix(types.ExprString(ce.Fun), "Indented") && len(ce.Args) == 1 {
						if fl, ok := ast.Unparen(ce.Args[0]).(*ast.FuncLit); ok {
							walk(fl.Body.List, facts, guardedByRead || prevOpensReadGuard)
							prevOpensReadGuard = false
							continue
						}
					}
				}
				scanExpr(x, facts, guardedByRead)
			case *ast.BlockStmt:
				walk(x.List, facts, guardedByRead)
			default:
				scanExpr(s, facts, guardedByRead)
			}
			prevOpensReadGuard = opens
		}
	}
	walk(d.Body.List, nil, false)
	if n == 0 {
		c.Undecided(rule, "writeProtocolStep/calls of writeTypeConversion", d.Pos(), "none found")
	}
}

func init() {
	reg("C05", ruleConversionOnlyAfterSuccessfulBlockRead)
	reg("C17", ruleConversionOnlyAfterSuccessfulBlockRead)
	reg("C16", ruleConversionOnlyAfterSuccessfulBlockRead)
}

// ---------------------------------------------------------------------------------------------------------------
// T12: a generation that validated its input runs the generators: in the function of internal/cmd that calls the
// back ends, every `return` that stands in front of the last Generate call is the return of an error.
// ---------------------------------------------------------------------------------------------------------------
func ruleGenerationRunsTheGenerators(c *core.Ctx) {
	const rule = "T12"
	c.Rule(rule, "internal/cmd: in the function that calls the Generate functions of the back ends, every return in front of the last of those calls stands under a test of an error (`err != nil`): no digest, timestamp or cache lets a regeneration skip the generators", 3)
	p := c.Pkg("internal/cmd")
	if p == nil {
		c.Undecided(rule, "anchor/internal/cmd", 0, "package not found")
		return
	}
	info := p.TypesInfo
	n := 0
	for _, d := range c.AllDecls() {
		if c.DeclPkg(d) != p || d.Body == nil || c.IsTestFile(d.Pos()) {
			continue
		}
		var last token.Pos
		backends := map[string]bool{}
		ast.Inspect(d.Body, func(m ast.Node) bool {
			if ce, ok := m.(*ast.CallExpr); ok {
				if f := core.Callee(info, ce); f != nil && f.Pkg() != nil && f.Name() == "Generate" && core.InModule(f) && f.Pkg() != p.Types {
					backends[f.Pkg().Path()] = true
					if ce.Pos() > last {
						last = ce.Pos()
					}
				}
			}
			return true
		})
		if len(backends) < 2 {
			continue
		}
		// returns in front of the last Generate call, with the conditions of the enclosing ifs
		errType := types.Universe.Lookup("error").Type()
		isErrTest := func(e ast.Expr) bool {
			found := false
			ast.Inspect(e, func(k ast.Node) bool {
				if be, ok := k.(*ast.BinaryExpr); ok && be.Op == token.NEQ && isNilIdent(be.Y) {
					if t := info.TypeOf(be.X); t != nil && types.Identical(t, errType) {
						found = true
					}
				}
				return true
			})
			return found
		}
		var visit func(list []ast.Stmt, conds []ast.Expr)
		visit = func(list []ast.Stmt, conds []ast.Expr) {
			for _, s := range list {
				switch x := s.(type) {
				case *ast.ReturnStmt:
					if x.Pos() > last {
						continue
					}
					n++
					underErr := false
					for _, cnd := range conds {
						if cnd != nil && isErrTest(cnd) {
							underErr = true
						}
					}
					// or the return hands an error value on (whatever the variable is called)
					if !underErr && len(x.Results) > 0 {
						lastRes := x.Results[len(x.Results)-1]
						if t := info.TypeOf(lastRes); t != nil && !isNilIdent(lastRes) {
							if types.Identical(t, errType) || types.Implements(t, errType.Underlying().(*types.Interface)) {
								underErr = true
							}
						}
					}
					c.Check(underErr, rule, fmt.Sprintf("%s/return#%d", c.FuncName(d), n), x.Pos(), "returns an error",
						"a path returns in front of the generators without an error: the regeneration reports success although nothing was generated, so after an edit the digest / cache does not see (a predecessor version, an option of an import) the files on disk stay different from a one-shot `yardl generate`")
				case *ast.IfStmt:
					visit(x.Body.List, append(append([]ast.Expr{}, conds...), x.Cond))
					switch e := x.Else.(type) {
					case *ast.BlockStmt:
						visit(e.List, append(append([]ast.Expr{}, conds...), nil))
					case *ast.IfStmt:
						visit([]ast.Stmt{e}, append(append([]ast.Expr{}, conds...), nil))
					}
				case *ast.BlockStmt:
					visit(x.List, conds)
				case *ast.ForStmt:
					visit(x.Body.List, conds)
				case *ast.RangeStmt:
					visit(x.Body.List, conds)
				case *ast.SwitchStmt:
					for _, cl := range x.Body.List {
						visit(cl.(*ast.CaseClause).Body, append(append([]ast.Expr{}, conds...), nil))
					}
				}
			}
		}
		visit(d.Body.List, nil)
	}
	if n == 0 {
		c.Undecided(rule, "anchor/function that calls the back ends", 0, "no function of internal/cmd calls the Generate functions of two or more back ends")
	}
}

func init() {
	reg("C20", ruleGenerationRunsTheGenerators)
}

// ---------------------------------------------------------------------------------------------------------------
// LF1: a loop `for i := range A` that FILLS `B[i]` (or a field of it) fills every entry: no `continue` stands in
// front of the assignment. An entry that was skipped stays nil and is dereferenced by the code that walks B later.
// ---------------------------------------------------------------------------------------------------------------
func ruleFillingLoopsFillEveryEntry(c *core.Ctx) {
	const rule = "LF1"
	c.Rule(rule, "pkg/packaging, pkg/dsl, internal/cmd: in a range loop with index i whose body assigns a pointer to `X[i]` / `X[i].F`, no `continue` precedes that assignment (every entry is filled; a skipped one stays nil)", 2)
	n := 0
	for _, d := range c.AllDecls() {
		p := c.DeclPkg(d)
		if p == nil || d.Body == nil || c.IsTestFile(d.Pos()) || !(strings.HasSuffix(p.PkgPath, "/pkg/packaging") || strings.HasSuffix(p.PkgPath, "/pkg/dsl") || strings.HasSuffix(p.PkgPath, "/internal/cmd")) {
			continue
		}
		info := p.TypesInfo
		ast.Inspect(d.Body, func(m ast.Node) bool {
			rs, ok := m.(*ast.RangeStmt)
			if !ok || rs.Key == nil {
				return true
			}
			idx := identObj(info, rs.Key)
			if idx == nil {
				return true
			}
			// the filling assignment at the top level of the loop body
			var fill *ast.AssignStmt
			for _, s := range rs.Body.List {
				as, ok := s.(*ast.AssignStmt)
				if !ok || as.Tok != token.ASSIGN || len(as.Lhs) != 1 {
					continue
				}
				usesIdx := false
				ast.Inspect(as.Lhs[0], func(k ast.Node) bool {
					if ie, ok := k.(*ast.IndexExpr); ok && identObj(info, ie.Index) == idx {
						usesIdx = true
					}
					return true
				})
				if !usesIdx {
					continue
				}
				if t := info.TypeOf(as.Lhs[0]); t != nil {
					// pointers only: an interface-valued table (ProtocolChange.StepChanges, RecordChange.FieldChanges) uses
					// nil for "nothing to report" and is read with nil tests
					switch t.Underlying().(type) {
					case *types.Pointer:
						fill = as
					}
				}
			}
			if fill == nil {
				return true
			}
			n++
			var early token.Pos
			for _, s := range rs.Body.List {
				if s.Pos() >= fill.Pos() {
					break
				}
				ast.Inspect(s, func(k ast.Node) bool {
					switch y := k.(type) {
					case *ast.FuncLit, *ast.ForStmt, *ast.RangeStmt:
						return false
					case *ast.IfStmt:
						// `if v == nil { continue }; X[i] = v`: the skipped assignment would have stored nil
						if be, ok := ast.Unparen(y.Cond).(*ast.BinaryExpr); ok && be.Op == token.EQL && len(fill.Rhs) == 1 && y.Else == nil {
							if isNilIdent(be.Y) && types.ExprString(be.X) == types.ExprString(fill.Rhs[0]) {
								return false
							}
						}
					case *ast.BlockStmt:
						// a branch that fills the entry itself and then continues is fine
						filledHere := false
						for _, bs := range y.List {
							if as, ok := bs.(*ast.AssignStmt); ok && len(as.Lhs) == 1 && types.ExprString(as.Lhs[0]) == types.ExprString(fill.Lhs[0]) {
								filledHere = true
							}
							if br, ok := bs.(*ast.BranchStmt); ok && br.Tok == token.CONTINUE && !filledHere {
								early = br.Pos()
							}
						}
					}
					return true
				})
			}
			at := fill.Pos()
			if early != token.NoPos {
				at = early
			}
			c.Check(early == token.NoPos, rule, fmt.Sprintf("%s/%s", c.FuncName(d), types.ExprString(fill.Lhs[0])), at, "every iteration reaches the assignment (errors leave the function)",
				"a `continue` in front of `"+types.ExprString(fill.Lhs[0])+" = …` skips the assignment for some entries: they stay nil, and the code that walks the collection afterwards (logImports, the flattening of namespaces) dereferences them — a panic instead of a diagnostic")
			return true
		})
	}
	if n == 0 {
		c.Undecided(rule, "anchor/filling loops", 0, "none found")
	}
}

func init() {
	reg("C18", ruleFillingLoopsFillEveryEntry)
	reg("C10", ruleFillingLoopsFillEveryEntry)
}

// ---------------------------------------------------------------------------------------------------------------
// NP2: the type parser's syntax tree has ALTERNATIVES held in pointer fields (a type is a name or a parenthesised
// type: Type.Named / Type.Sub). Code of pkg/dsl that goes through such a field tests it for nil first.
// ---------------------------------------------------------------------------------------------------------------
func ruleParserAlternativesTestedBeforeUse(c *core.Ctx) {
	const rule = "NP2"
	c.Rule(rule, "pkg/dsl: a pointer field of a pkg/dsl/parser syntax node (an alternative of the grammar, e.g. Type.Named / Type.Sub) is dereferenced only under `x.F != nil` (enclosing if / else-if) or after a leaving `if x.F == nil`", 2)
	p := c.Pkg("pkg/dsl")
	if p == nil {
		c.Undecided(rule, "anchor/pkg/dsl", 0, "package not found")
		return
	}
	info := p.TypesInfo
	n := 0
	for _, d := range c.AllDecls() {
		if c.DeclPkg(d) != p || d.Body == nil || c.IsTestFile(d.Pos()) {
			continue
		}
		// parent links for the statements of the function
		type frame struct {
			ifs []*ast.IfStmt // enclosing ifs whose BODY contains the node
		}
		var visit func(list []ast.Stmt, conds []string, leftNil map[string]bool)
		check := func(e ast.Node, conds []string, leftNil map[string]bool) {
			ast.Inspect(e, func(m ast.Node) bool {
				if _, isLit := m.(*ast.FuncLit); isLit {
					return true
				}
				se, ok := m.(*ast.SelectorExpr)
				if !ok {
					return true
				}
				// se = BASE.G where BASE = X.F and F is a pointer field declared in package parser
				base, ok := ast.Unparen(se.X).(*ast.SelectorExpr)
				if !ok {
					return true
				}
				sel := info.Selections[base]
				if sel == nil || sel.Kind() != types.FieldVal {
					return true
				}
				fv, _ := sel.Obj().(*types.Var)
				if fv == nil || fv.Pkg() == nil || !strings.HasSuffix(fv.Pkg().Path(), "/pkg/dsl/parser") {
					return true
				}
				if _, isPtr := fv.Type().Underlying().(*types.Pointer); !isPtr {
					return true
				}
				n++
				txt := types.ExprString(base)
				ok2 := leftNil[txt]
				for _, cnd := range conds {
					if strings.Contains(cnd, txt+" != nil") {
						ok2 = true
					}
				}
				c.Check(ok2, rule, fmt.Sprintf("%s/%s", c.FuncName(d), types.ExprString(se)), se.Pos(), "`"+txt+"` is tested for nil on the path",
					"`"+txt+"` is an alternative of the grammar and nil when the other one was parsed (a parenthesised type has no `Named`): the dereference panics on input such as `name: (Pair)` instead of producing a located diagnostic")
				return true
			})
		}
		visit = func(list []ast.Stmt, conds []string, leftNil map[string]bool) {
			left := map[string]bool{}
			for k, v := range leftNil {
				left[k] = v
			}
			for _, s := range list {
				switch x := s.(type) {
				case *ast.IfStmt:
					cnd := types.ExprString(x.Cond)
					if x.Init != nil {
						check(x.Init, conds, left)
					}
					// the condition itself: `a.F != nil && a.F.G …` — the right operand is under the left one
					condConds := append([]string{}, conds...)
					if be, ok := ast.Unparen(x.Cond).(*ast.BinaryExpr); ok && be.Op == token.LAND {
						check(be.X, condConds, left)
						check(be.Y, append(condConds, types.ExprString(be.X)), left)
					} else if be, ok := ast.Unparen(x.Cond).(*ast.BinaryExpr); ok && be.Op == token.LOR {
						check(be.X, condConds, left)
						// `a.F == nil || a.F.G` : right operand evaluated only when a.F != nil
						lx := types.ExprString(be.X)
						if strings.HasSuffix(lx, " == nil") {
							check(be.Y, append(condConds, strings.TrimSuffix(lx, " == nil")+" != nil"), left)
						} else {
							check(be.Y, condConds, left)
						}
					} else {
						check(x.Cond, condConds, left)
					}
					visit(x.Body.List, append(append([]string{}, conds...), cnd), left)
					switch e := x.Else.(type) {
					case *ast.BlockStmt:
						visit(e.List, conds, left)
					case *ast.IfStmt:
						visit([]ast.Stmt{e}, conds, left)
					}
					if bodyLeaves(x.Body) && x.Else == nil {
						for _, part := range strings.Split(cnd, " || ") {
							part = strings.TrimSpace(strings.Trim(part, "()"))
							if strings.HasSuffix(part, " == nil") {
								left[strings.TrimSuffix(part, " == nil")] = true
							}
						}
					}
				case *ast.BlockStmt:
					visit(x.List, conds, left)
				case *ast.ForStmt:
					visit(x.Body.List, conds, left)
				case *ast.RangeStmt:
					check(x.X, conds, left)
					visit(x.Body.List, conds, left)
				case *ast.SwitchStmt:
					for _, cl := range x.Body.List {
						cc := cl.(*ast.CaseClause)
						cs := conds
						if x.Tag == nil { // `switch { case x.F != nil: … }` is an if-chain
							for _, e := range cc.List {
								check(e, conds, left)
								cs = append(append([]string{}, cs...), types.ExprString(e))
							}
						}
						visit(cc.Body, cs, left)
					}
				case *ast.TypeSwitchStmt:
					for _, cl := range x.Body.List {
						visit(cl.(*ast.CaseClause).Body, conds, left)
					}
				default:
					check(s, conds, left)
				}
			}
		}
		visit(d.Body.List, nil, nil)
	}
	if n == 0 {
		c.Undecided(rule, "anchor/uses of the parser's alternatives", 0, "none found")
	}
}

func init() {
	reg("C10", ruleParserAlternativesTestedBeforeUse)
}
