package rules

import (
	"fmt"
	"go/ast"
	"go/token"
	"go/types"
	"strings"

	"verif/checker/internal/core"
)

// M1: every `range` over a map is order-insensitive: its body only does commutative
// things (stores into maps/sets, counters, sink.Add — the sinks sort before rendering),
// collects into a slice that is sorted before any other use, or returns a constant.

var sortFuncs = map[string]bool{
	"sort.Strings": true, "sort.Slice": true, "sort.SliceStable": true, "sort.Ints": true, "sort.Sort": true, "sort.Stable": true,
	"slices.Sort": true, "slices.SortFunc": true, "slices.SortStableFunc": true,
}

// calls that are commutative across iterations
var commutativeCalls = map[string]string{
	"(" + core.Mod + "/internal/validation.ErrorSink).Add":   "error sink sorts by file/line/column/message before rendering (rule M2)",
	"(" + core.Mod + "/internal/validation.WarningSink).Add": "warning sink sorts by file/line/column/message before rendering (rule M2)",
}

// ruleMapOrderScoped: M1 restricted to the evolution analyser (C06: deterministic verdicts).
func ruleMapOrderScoped(c *core.Ctx) {
	mapOrderIn(c, "M1", func(f string) bool { return strings.Contains(f, "/pkg/dsl/evolution") }, 3)
}

func ruleMapOrder(c *core.Ctx) { mapOrderIn(c, "M1", func(string) bool { return true }, 10) }

func mapOrderIn(c *core.Ctx, rule string, fileOK func(string) bool, min int) {
	c.Rule(rule, "every range over a Go map has an iteration-order-independent effect (commutative body, or collect-then-sort, or constant return)", min)
	for _, d := range c.AllDecls() {
		if !fileOK(c.Fset.Position(d.Pos()).Filename) {
			continue
		}
		p := c.DeclPkg(d)
		info := p.TypesInfo
		n := 0
		ast.Inspect(d.Body, func(x ast.Node) bool {
			rs, ok := x.(*ast.RangeStmt)
			if !ok {
				return true
			}
			t := info.TypeOf(rs.X)
			if t == nil {
				return true
			}
			if _, isMap := t.Underlying().(*types.Map); !isMap {
				return true
			}
			n++
			key := fmt.Sprintf("%s/range %s", c.FuncName(d), types.ExprString(rs.X))
			why, ok := mapRangeOrderFree(c, info, d, rs)
			if ok {
				c.OK(rule, key, rs.Pos(), why)
			} else {
				c.Bad(rule, key, rs.Pos(), "iteration order of a Go map is random per execution and this loop's effect depends on it: "+why)
			}
			return true
		})
	}
}

func mapRangeOrderFree(c *core.Ctx, info *types.Info, d *ast.FuncDecl, rs *ast.RangeStmt) (string, bool) {
	collected := map[types.Object]bool{} // slices appended to
	var reasons []string
	bad := ""
	sawBreak := false
	loopVars := map[types.Object]bool{}
	for _, e := range []ast.Expr{rs.Key, rs.Value} {
		if id, ok := e.(*ast.Ident); ok && id.Name != "_" {
			loopVars[info.Defs[id]] = true
		}
	}
	var checkStmt func(s ast.Stmt)
	earlyReturn := false
	inLit := 0
	visitedLits := map[*ast.FuncLit]bool{}
	isLocal := func(o types.Object) bool {
		if o == nil {
			return false
		}
		if o.Pos() >= rs.Body.Pos() && o.Pos() <= rs.Body.End() {
			return true
		}
		for fl := range visitedLits {
			if o.Pos() >= fl.Pos() && o.Pos() <= fl.End() {
				return true
			}
		}
		return false
	}
	checkExprCalls := func(n ast.Node) {
		ast.Inspect(n, func(x ast.Node) bool {
			if bad != "" {
				return false
			}
			ce, ok := x.(*ast.CallExpr)
			if !ok {
				return true
			}
			if id, ok := ast.Unparen(ce.Fun).(*ast.Ident); ok {
				if _, isB := info.Uses[id].(*types.Builtin); isB {
					return true // len, append (handled at assignment), make, delete, ...
				}
			}
			if tv, ok := info.Types[ce.Fun]; ok && tv.IsType() {
				return true // conversion
			}
			f := core.Callee(info, ce)
			name := core.FullName(f)
			if r, ok := commutativeCalls[name]; ok {
				reasons = append(reasons, r)
				return true
			}
			// calling a value of a named function type whose every instance is commutative (rule M3)
			if f == nil {
				if nt := core.NamedOf(info.TypeOf(ce.Fun)); nt != nil {
					if r, ok := commutativeFuncTypes[nt.Obj().Pkg().Path()+"."+nt.Obj().Name()]; ok {
						reasons = append(reasons, r)
						return true
					}
				}
			}
			// tree traversal: the effect is that of the visitor closure, which is checked itself
			if f != nil && f.Pkg() != nil && f.Pkg().Path() == core.Mod+"/pkg/dsl" {
				switch f.Name() {
				case "Visit", "VisitChildren", "VisitWithContext":
					for _, a := range ce.Args {
						if fl, ok := ast.Unparen(a).(*ast.FuncLit); ok && !visitedLits[fl] {
							visitedLits[fl] = true
							inLit++
							checkStmt(fl.Body)
							inLit--
						}
					}
					if sel, ok := ast.Unparen(ce.Fun).(*ast.SelectorExpr); ok {
						if fl := enclosingLitWithParam(d, ce, identObj(info, sel.X), info); fl != nil && !visitedLits[fl] {
							visitedLits[fl] = true
							inLit++
							checkStmt(fl.Body)
							inLit--
						}
					}
					reasons = append(reasons, "tree traversal whose visitor closure is order-independent")
					return false
				}
			}
			if r, ok := pureByReading[name]; ok {
				_ = r
				return true
			}
			if f != nil && isPure(c, f, 0) {
				return true
			}
			if f != nil && core.InModule(f) && isPureX(c, f, 0, true) {
				reasons = append(reasons, "helper "+f.Name()+" only computes and reports to the sorting sinks")
				return true
			}
			bad = "calls " + orDyn(name, ce) + " inside the loop (not known to be order-independent)"
			return false
		})
	}
	checkStmt = func(s ast.Stmt) {
		if bad != "" {
			return
		}
		switch st := s.(type) {
		case *ast.BlockStmt:
			for _, x := range st.List {
				checkStmt(x)
			}
		case *ast.ExprStmt:
			checkExprCalls(st.X)
		case *ast.IncDecStmt:
			reasons = append(reasons, "counter")
		case *ast.AssignStmt:
			for _, r := range st.Rhs {
				// x = append(x, ...) collects
				if ce, ok := ast.Unparen(r).(*ast.CallExpr); ok {
					if id, ok := ast.Unparen(ce.Fun).(*ast.Ident); ok && id.Name == "append" {
						if _, isB := info.Uses[id].(*types.Builtin); isB && len(st.Lhs) == 1 {
							if o := identObj(info, st.Lhs[0]); o != nil {
								collected[o] = true
								for _, a := range ce.Args[1:] {
									checkExprCalls(a)
								}
								continue
							}
						}
					}
				}
				checkExprCalls(r)
			}
			for _, l := range st.Lhs {
				switch lx := ast.Unparen(l).(type) {
				case *ast.IndexExpr:
					if _, isMap := info.TypeOf(lx.X).Underlying().(*types.Map); isMap {
						reasons = append(reasons, "store into a map")
						continue
					}
					// `S[next] = v` with `next++` beside it: appending by hand, S collects
					if o := pairedStore(info, rs.Body, st, lx); o != nil {
						collected[o] = true
						continue
					}
					bad = "stores into an indexed non-map location"
				case *ast.Ident:
					o := info.Defs[lx]
					if o == nil {
						o = info.Uses[lx]
					}
					if isLocal(o) {
						continue // local to the iteration / to the visitor closure
					}
					if collected[o] {
						continue
					}
					if st.Tok == token.ADD_ASSIGN || st.Tok == token.OR_ASSIGN {
						if b, ok := o.Type().Underlying().(*types.Basic); ok && b.Info()&(types.IsInteger|types.IsBoolean) != 0 {
							reasons = append(reasons, "integer accumulation")
							continue
						}
					}
					// plain boolean flag set to a constant
					if len(st.Rhs) == 1 {
						if tv, ok := info.Types[st.Rhs[0]]; ok && tv.Value != nil {
							reasons = append(reasons, "sets an outer variable to a constant")
							continue
						}
					}
					bad = "assigns outer variable " + lx.Name + " a loop-dependent value (last writer wins)"
				case *ast.SelectorExpr:
					bad = "assigns a field inside the loop"
				}
			}
		case *ast.IfStmt:
			if st.Init != nil {
				checkStmt(st.Init)
			}
			checkExprCalls(st.Cond)
			checkStmt(st.Body)
			if st.Else != nil {
				checkStmt(st.Else)
			}
		case *ast.RangeStmt:
			checkExprCalls(st.X)
			checkStmt(st.Body)
		case *ast.ForStmt:
			checkStmt(st.Body)
		case *ast.SwitchStmt:
			for _, cc := range st.Body.List {
				for _, b := range cc.(*ast.CaseClause).Body {
					checkStmt(b)
				}
			}
		case *ast.TypeSwitchStmt:
			for _, cc := range st.Body.List {
				for _, b := range cc.(*ast.CaseClause).Body {
					checkStmt(b)
				}
			}
		case *ast.DeclStmt:
		case *ast.BranchStmt:
			if st.Tok == token.BREAK {
				sawBreak = true // judged below: an existential search (`found = true; break`) does not depend on the order
			}
		case *ast.ReturnStmt:
			for _, r := range st.Results {
				tv, ok := info.Types[r]
				if ok && (tv.Value != nil || tv.IsNil()) {
					continue
				}
				// returning something that does not depend on the loop variables or loop-local state is fine
				dep := false
				ast.Inspect(r, func(x ast.Node) bool {
					if id, ok := x.(*ast.Ident); ok {
						if o := info.Uses[id]; o != nil && (loopVars[o] || (o.Pos() >= rs.Body.Pos() && o.Pos() <= rs.Body.End())) {
							dep = true
						}
					}
					return !dep
				})
				if dep {
					bad = "returns a value that depends on which entry is met first"
					return
				}
			}
			reasons = append(reasons, "returns a loop-independent value")
			if inLit == 0 { // a return inside a visitor closure ends that callback, not the loop
				earlyReturn = true
			}
		default:
			bad = fmt.Sprintf("statement %T not classified", s)
		}
	}
	checkStmt(rs.Body)
	if bad == "" && sawBreak {
		for _, r := range reasons {
			if r != "sets an outer variable to a constant" && r != "returns a loop-independent value" {
				bad = "breaks out of the loop at the first matching entry"
			}
		}
		if bad == "" {
			reasons = append(reasons, "leaves at the first match after setting constants only: which entry matches first does not matter")
		}
	}
	if bad != "" {
		return bad, false
	}
	// a return that stops the iteration is order-independent only when nothing else the body does
	// can differ between orders: with any accumulated effect, what has been done when the loop
	// stops depends on which entries were met first
	if earlyReturn {
		for _, r := range reasons {
			if r != "returns a loop-independent value" {
				return "stops at the first matching entry although the body also has effects (" + r + "): the entries handled before the stop depend on map order", false
			}
		}
		if len(collected) > 0 {
			return "stops at the first matching entry although the body also collects values", false
		}
	}
	// every collected slice must be sorted before any other use after the loop
	for o := range collected {
		if o.Pos() >= rs.Body.Pos() && o.Pos() <= rs.Body.End() {
			continue
		}
		if why, ok := sortedBeforeUse(c, info, d, rs, o); !ok {
			return "appends to " + o.Name() + " in map order; " + why, false
		}
		reasons = append(reasons, "collects into "+o.Name()+" which is sorted before use")
	}
	if len(reasons) == 0 {
		reasons = append(reasons, "body has no cross-iteration effect")
	}
	return strings.Join(dedup(reasons), "; "), true
}

// functions confirmed by reading to have no effect besides their result
var pureByReading = map[string]string{
	core.Mod + "/pkg/dsl.TypeToShortSyntax":       "renders a type into a fresh strings.Builder and returns the string",
	core.Mod + "/pkg/dsl.typeChangeToError":       "formats two TypeToShortSyntax results",
	core.Mod + "/pkg/dsl.typeChangeToWarning":     "formats a warning string",
	core.Mod + "/pkg/dsl.typeChangeWarningReason": "formats a warning string",
	core.Mod + "/pkg/dsl.typeChangeIsError":       "classifies a change object",
	core.Mod + "/pkg/dsl.GetUnderlyingType":       "follows alias links, read-only",
}

// named function types all of whose values are commutative callbacks
var commutativeFuncTypes = map[string]string{
	core.Mod + "/pkg/dsl.SinkWarningOrError": "callback that only adds to the error/warning sink (rule M3); sinks sort before rendering",
}

// enclosingLitWithParam: innermost function literal containing n that declares obj as a parameter.
func enclosingLitWithParam(d *ast.FuncDecl, n ast.Node, obj types.Object, info *types.Info) *ast.FuncLit {
	if obj == nil {
		return nil
	}
	var found *ast.FuncLit
	ast.Inspect(d.Body, func(x ast.Node) bool {
		fl, ok := x.(*ast.FuncLit)
		if !ok || !(fl.Pos() <= n.Pos() && n.End() <= fl.End()) {
			return true
		}
		for _, f := range fl.Type.Params.List {
			for _, nm := range f.Names {
				if info.Defs[nm] == obj {
					found = fl
				}
			}
		}
		return true
	})
	return found
}

func orDyn(name string, ce *ast.CallExpr) string {
	if name == "" {
		return "dynamic " + types.ExprString(ce.Fun)
	}
	return name
}

func dedup(in []string) []string {
	seen := map[string]bool{}
	var out []string
	for _, s := range in {
		if !seen[s] {
			seen[s] = true
			out = append(out, s)
		}
	}
	return out
}

// isPure: a function that (transitively, statically) writes no file, emits nothing,
// appends to no outer state. Conservative whitelist by package + module functions
// whose bodies contain no assignment to non-locals and no calls outside the whitelist.
func isPure(c *core.Ctx, f *types.Func, depth int) bool { return isPureX(c, f, depth, false) }

// isPureX with comm: the function may, besides computing, make calls that commute across iterations (the sorting sinks
// and values of the sink function types) — a helper factored out of a map loop's body
func isPureX(c *core.Ctx, f *types.Func, depth int, comm bool) bool {
	if f.Pkg() == nil {
		return true
	}
	if _, ok := pureByReading[core.FullName(f)]; ok {
		return true
	}
	switch f.Pkg().Path() {
	case "strings", "fmt", "strconv", "math", "unicode", "errors", "path", "path/filepath", "regexp", "sort", "bytes", "math/big", "reflect":
		if f.Pkg().Path() == "fmt" && (strings.HasPrefix(f.Name(), "Fprint") || strings.HasPrefix(f.Name(), "Print")) {
			return false
		}
		return true
	}
	if f.Pkg().Path() == "github.com/rs/zerolog" || f.Pkg().Path() == "github.com/rs/zerolog/log" {
		return true // debug logging does not affect outputs or diagnostics ordering guarantees
	}
	if !core.InModule(f) || depth > 4 {
		return false
	}
	if sig := f.Type().(*types.Signature); sig.Recv() != nil {
		if iface, ok := sig.Recv().Type().Underlying().(*types.Interface); ok {
			// interface method: pure iff every implementation in pkg/dsl is pure
			n := 0
			for _, impl := range implementersOf(c, iface) {
				ms := types.NewMethodSet(impl)
				sel := ms.Lookup(f.Pkg(), f.Name())
				if sel == nil {
					continue
				}
				m := sel.Obj().(*types.Func)
				n++
				if !isPureX(c, m, depth+1, comm) {
					return false
				}
			}
			return n > 0
		}
	}
	d := c.Decl(f)
	if d == nil {
		return false
	}
	p := c.DeclPkg(d)
	pure := true
	// no writes to fields / outer variables / indexed locations reachable from parameters
	ast.Inspect(d.Body, func(n ast.Node) bool {
		if !pure {
			return false
		}
		switch x := n.(type) {
		case *ast.AssignStmt:
			for _, l := range x.Lhs {
				switch lx := ast.Unparen(l).(type) {
				case *ast.Ident:
					o := p.TypesInfo.Uses[lx]
					if o != nil && (o.Pos() < d.Pos() || o.Pos() > d.End()) {
						pure = false
					}
				case *ast.SelectorExpr, *ast.StarExpr:
					pure = false
				case *ast.IndexExpr:
					// writes into a local map/slice are fine if the base is a local identifier
					if id, ok := ast.Unparen(lx.X).(*ast.Ident); ok {
						if o := p.TypesInfo.Uses[id]; o != nil && o.Pos() >= d.Body.Pos() && o.Pos() <= d.End() {
							continue
						}
					}
					pure = false
				}
			}
		case *ast.CallExpr:
			if id, ok := ast.Unparen(x.Fun).(*ast.Ident); ok {
				if _, isB := p.TypesInfo.Uses[id].(*types.Builtin); isB {
					return true
				}
			}
			if tv, ok := p.TypesInfo.Types[x.Fun]; ok && tv.IsType() {
				return true
			}
			g := core.Callee(p.TypesInfo, x)
			if comm {
				if _, ok := commutativeCalls[core.FullName(g)]; ok {
					return true
				}
				if g == nil {
					if nt := core.NamedOf(p.TypesInfo.TypeOf(x.Fun)); nt != nil && nt.Obj().Pkg() != nil {
						if _, ok := commutativeFuncTypes[nt.Obj().Pkg().Path()+"."+nt.Obj().Name()]; ok {
							return true
						}
					}
				}
			}
			if g == nil {
				pure = false
				return false
			}
			if g.Origin() != f.Origin() && !isPureX(c, g.Origin(), depth+1, comm) {
				pure = false
			}
		}
		return true
	})
	return pure
}

// pairedStore: st is `S[i] = ...` where S and i are identifiers and the block that holds st also holds `i++`
// (and no other statement mentions i on the left): the slice the values are collected into, or nil.
func pairedStore(info *types.Info, body *ast.BlockStmt, st *ast.AssignStmt, lx *ast.IndexExpr) types.Object {
	so := identObj(info, lx.X)
	io := identObj(info, lx.Index)
	if so == nil || io == nil {
		return nil
	}
	if _, isSlice := so.Type().Underlying().(*types.Slice); !isSlice {
		return nil
	}
	var found types.Object
	ast.Inspect(body, func(n ast.Node) bool {
		blk, ok := n.(*ast.BlockStmt)
		if !ok {
			return true
		}
		has, inc := false, 0
		for _, x := range blk.List {
			if x == ast.Stmt(st) {
				has = true
			}
			if id, ok := x.(*ast.IncDecStmt); ok && id.Tok == token.INC && identObj(info, id.X) == io {
				inc++
			}
		}
		if has && inc == 1 {
			found = so
		}
		return true
	})
	if found == nil {
		return nil
	}
	// the counter is written nowhere else in the loop
	writes := 0
	ast.Inspect(body, func(n ast.Node) bool {
		switch x := n.(type) {
		case *ast.IncDecStmt:
			if identObj(info, x.X) == io {
				writes++
			}
		case *ast.AssignStmt:
			for _, l := range x.Lhs {
				if identObj(info, l) == io {
					writes += 2
				}
			}
		}
		return true
	})
	if writes != 1 {
		return nil
	}
	return found
}

// sortedBeforeUse: after the loop, the first statement of the enclosing block that
// mentions the slice is a sort call on it (collect-then-sort).
func sortedBeforeUse(c *core.Ctx, info *types.Info, d *ast.FuncDecl, rs *ast.RangeStmt, slice types.Object) (string, bool) {
	// find the block that directly contains rs
	var parent *ast.BlockStmt
	ast.Inspect(d.Body, func(n ast.Node) bool {
		if b, ok := n.(*ast.BlockStmt); ok {
			for _, s := range b.List {
				if s == ast.Stmt(rs) {
					parent = b
				}
			}
		}
		return true
	})
	if parent == nil {
		return "enclosing block not found", false
	}
	after := false
	for _, s := range parent.List {
		if s == ast.Stmt(rs) {
			after = true
			continue
		}
		if !after || !usesObj(info, s, slice) {
			continue
		}
		// a statement that only asks how many were collected (len/cap, comparison with nil) does not depend on the order
		if onlyCounts(info, s, slice) {
			continue
		}
		// first mention: must be a sort call with the slice as first argument
		if es, ok := s.(*ast.ExprStmt); ok {
			if ce, ok := es.X.(*ast.CallExpr); ok {
				if f := core.Callee(info, ce); f != nil && sortFuncs[core.FullName(f)] && len(ce.Args) >= 1 && identObj(info, ce.Args[0]) == slice {
					return "", true
				}
			}
		}
		return "the next use of it (" + c.PosStr(s.Pos()) + ") is not a sort", false
	}
	// never used again in this block: used by an enclosing scope? treat as unsorted escape if returned via named result
	return "it is not sorted in the enclosing block", false
}

// onlyCounts: every mention of the slice in s is the argument of len()/cap() or an operand of a comparison with nil.
func onlyCounts(info *types.Info, s ast.Node, slice types.Object) bool {
	allowed := map[*ast.Ident]bool{}
	ast.Inspect(s, func(n ast.Node) bool {
		switch x := n.(type) {
		case *ast.CallExpr:
			if id, ok := ast.Unparen(x.Fun).(*ast.Ident); ok && (id.Name == "len" || id.Name == "cap") && len(x.Args) == 1 {
				if _, isB := info.Uses[id].(*types.Builtin); isB {
					if a, ok := ast.Unparen(x.Args[0]).(*ast.Ident); ok {
						allowed[a] = true
					}
				}
			}
		case *ast.BinaryExpr:
			if x.Op == token.EQL || x.Op == token.NEQ {
				for _, pair := range [][2]ast.Expr{{x.X, x.Y}, {x.Y, x.X}} {
					if tv, ok := info.Types[pair[1]]; ok && tv.IsNil() {
						if a, ok := ast.Unparen(pair[0]).(*ast.Ident); ok {
							allowed[a] = true
						}
					}
				}
			}
		}
		return true
	})
	ok := true
	ast.Inspect(s, func(n ast.Node) bool {
		if id, isId := n.(*ast.Ident); isId && info.ObjectOf(id) == slice && !allowed[id] {
			ok = false
		}
		return ok
	})
	return ok
}

// M2: both diagnostic sinks sort by (file, line, column, message) — a total order on
// rendered diagnostics — before rendering.
func ruleSinkSort(c *core.Ctx) {
	const rule = "M2"
	c.Rule(rule, "ErrorSink.AsError and WarningSink.AsStrings sort their diagnostics with a comparator over file, line, column AND message before rendering", 2)
	for _, spec := range []struct{ typ, fn, field string }{{"ErrorSink", "AsError", "Errors"}, {"WarningSink", "AsStrings", "Warnings"}} {
		_, d, p := c.Func("internal/validation", spec.typ+"."+spec.fn)
		key := spec.typ + "." + spec.fn
		if d == nil {
			c.Undecided(rule, "anchor/"+key, 0, "anchor function not found")
			continue
		}
		info := p.TypesInfo
		var sortCall *ast.CallExpr
		ast.Inspect(d.Body, func(n ast.Node) bool {
			if ce, ok := n.(*ast.CallExpr); ok {
				if f := core.Callee(info, ce); f != nil && sortFuncs[core.FullName(f)] {
					sortCall = ce
				}
			}
			return true
		})
		if sortCall == nil {
			c.Bad(rule, key+"/sort", d.Pos(), "diagnostics are rendered without being sorted: their order follows map iteration / pass order")
			continue
		}
		// comparator mentions all four keys
		var cmp ast.Node = sortCall
		need := map[string]bool{"File": false, "Line": false, "Column": false, "Message": false}
		// the comparator may hand the work to helpers: follow module callees (three levels)
		var scan func(n ast.Node, ninfo *types.Info, depth int)
		visited := map[*types.Func]bool{}
		scan = func(n ast.Node, ninfo *types.Info, depth int) {
			ast.Inspect(n, func(n ast.Node) bool {
				switch x := n.(type) {
				case *ast.Ident:
					// a function or method VALUE handed to the sort (`sort.Slice(xs, e.before)`)
					if f, ok := ninfo.Uses[x].(*types.Func); ok && core.InModule(f) && depth < 3 && !visited[f.Origin()] {
						visited[f.Origin()] = true
						if fd := c.Decl(f.Origin()); fd != nil && fd.Body != nil {
							scan(fd.Body, c.DeclPkg(fd).TypesInfo, depth+1)
						}
					}
				case *ast.SelectorExpr:
					if _, ok := need[x.Sel.Name]; ok {
						if sel, isSel := ninfo.Selections[x]; isSel && sel.Kind() == types.FieldVal {
							need[x.Sel.Name] = true
						}
					}
				case *ast.CallExpr:
					if f := core.Callee(ninfo, x); f != nil && core.InModule(f) && depth < 3 && !visited[f.Origin()] {
						visited[f.Origin()] = true
						if fd := c.Decl(f.Origin()); fd != nil && fd.Body != nil {
							scan(fd.Body, c.DeclPkg(fd).TypesInfo, depth+1)
						}
					}
				}
				return true
			})
		}
		scan(cmp, info, 0)
		var missing []string
		for k, v := range need {
			if !v {
				missing = append(missing, k)
			}
		}
		c.Check(len(missing) == 0, rule, key+"/comparator keys", sortCall.Pos(), "comparator orders by File, Line, Column and Message",
			"comparator ignores "+strings.Join(missing, ",")+": diagnostics that tie on the remaining keys keep their (map-iteration dependent) insertion order")
		// the sort precedes the rendering loop
		sorted := false
		okOrder := true
		for _, s := range d.Body.List {
			if s.Pos() <= sortCall.Pos() && sortCall.End() <= s.End() {
				sorted = true
				continue
			}
			if !sorted {
				if _, isRange := s.(*ast.RangeStmt); isRange {
					okOrder = false
				}
			}
		}
		c.Check(okOrder, rule, key+"/sort before render", sortCall.Pos(), "sort precedes rendering", "rendering loop precedes the sort")
	}
}

// M3: every value passed for a parameter of a "commutative callback" type is a closure
// whose body only adds to a diagnostic sink.
func ruleCommutativeCallbacks(c *core.Ctx) {
	const rule = "M3"
	c.Rule(rule, "every closure passed as dsl.SinkWarningOrError only adds to the error/warning sink (so calling it from a map range is order-independent given M2)", 2)
	for _, d := range c.AllDecls() {
		p := c.DeclPkg(d)
		info := p.TypesInfo
		for _, cs := range c.Calls(d) {
			sig := callSig(info, cs.Call)
			if sig == nil {
				continue
			}
			for i, a := range cs.Call.Args {
				if i >= sig.Params().Len() {
					break
				}
				nt := core.NamedOf(sig.Params().At(i).Type())
				if nt == nil || nt.Obj().Pkg() == nil {
					continue
				}
				if _, ok := commutativeFuncTypes[nt.Obj().Pkg().Path()+"."+nt.Obj().Name()]; !ok {
					continue
				}
				key := fmt.Sprintf("%s/%s arg %d", c.FuncName(d), types.ExprString(cs.Call.Fun), i)
				obj := identObj(info, a)
				if obj == nil {
					c.Undecided(rule, key, a.Pos(), "callback argument is not an identifier")
					continue
				}
				// forwarding a parameter of the same type is fine
				if v, ok := obj.(*types.Var); ok && core.NamedOf(v.Type()) == nt {
					c.OK(rule, key, a.Pos(), "forwards its own callback parameter")
					continue
				}
				var lit *ast.FuncLit
				ast.Inspect(d.Body, func(n ast.Node) bool {
					if as, ok := n.(*ast.AssignStmt); ok && len(as.Lhs) == 1 && len(as.Rhs) == 1 {
						if identObj(info, as.Lhs[0]) == obj {
							if fl, ok := as.Rhs[0].(*ast.FuncLit); ok {
								lit = fl
							}
						}
					}
					return true
				})
				if lit == nil {
					c.Undecided(rule, key, a.Pos(), "callback is not a closure defined in the calling function")
					continue
				}
				okBody := len(lit.Body.List) > 0
				for _, st := range lit.Body.List {
					es, ok := st.(*ast.ExprStmt)
					if !ok {
						okBody = false
						break
					}
					ce, ok := es.X.(*ast.CallExpr)
					if !ok {
						okBody = false
						break
					}
					if _, ok := commutativeCalls[core.FullName(core.Callee(info, ce))]; !ok {
						okBody = false
					}
				}
				c.Check(okBody, rule, key, a.Pos(), "closure body only adds to a sink", "closure does something other than adding to a diagnostic sink; map-range callers become order-dependent")
			}
		}
	}
}

// N1: no source of run-to-run nondeterminism is reachable (static calls) from validation
// or code generation.
var nondetPrims = map[string]string{
	"time.Now": "wall clock", "time.Since": "wall clock", "os.Getenv": "environment", "os.LookupEnv": "environment", "os.Environ": "environment",
	"os.Hostname": "host name", "os.Getpid": "pid", "os.Getppid": "pid", "os.Getuid": "uid", "os.UserHomeDir": "environment",
	"math/rand.Int": "rng", "math/rand.Intn": "rng", "math/rand.Float64": "rng", "math/rand.Perm": "rng", "math/rand.Shuffle": "rng", "math/rand.Int63": "rng", "math/rand.Uint32": "rng",
	"math/rand/v2.Int": "rng", "math/rand/v2.IntN": "rng", "math/rand/v2.N": "rng", "math/rand/v2.Perm": "rng", "math/rand/v2.Shuffle": "rng",
	"crypto/rand.Read": "rng", "runtime.Caller": "build-path dependent", "runtime.NumCPU": "host", "os.Executable": "environment",
	"os.TempDir": "environment", "os.MkdirTemp": "random name", "os.CreateTemp": "random name",
}

// reachable nondeterminism accepted by table
var nondetStops = map[string]string{
	core.Mod + "/internal/iocommon.CopyEmbeddedStaticFiles": "runtime.Caller only in the internal symlink mode (developer option internalSymlinkStatic*), which links instead of generating",
}

func ruleNoNondeterminism(c *core.Ctx) {
	const rule = "N1"
	c.Rule(rule, "no clock, RNG, environment or pid primitive is reachable by static calls from validation or code generation", 6)
	roots := [][2]string{{"pkg/dsl", "Validate"}, {"pkg/dsl", "ValidateEvolution"}, {"pkg/dsl", "ParsePackageContents"}, {"internal/cpp", "Generate"},
		{"internal/python", "Generate"}, {"internal/matlab", "Generate"}, {"internal/cmd", "outputJson"}, {"internal/cmd", "validatePackage"}}
	for _, r := range roots {
		f, d, _ := c.Func(r[0], r[1])
		key := "root/" + r[0] + "." + r[1]
		if f == nil || d == nil {
			c.Undecided(rule, key, 0, "anchor function not found")
			continue
		}
		path := c.PathTo(f, func(g *types.Func) bool { _, ok := nondetPrims[core.FullName(g)]; return ok },
			func(g *types.Func) bool { _, ok := nondetStops[core.FullName(g)]; return ok })
		if path != nil {
			c.Bad(rule, key, d.Pos(), "reaches a nondeterminism source ("+nondetPrims[core.FullName(path[len(path)-1])]+"): "+core.PathStr(path))
		} else {
			n := len(c.Reachable([]*types.Func{f}, nil))
			c.OK(rule, key, d.Pos(), fmt.Sprintf("%d functions reachable by static calls, none is a nondeterminism source", n))
		}
	}
	// methods reached dynamically from the YAML/JSON libraries
	for _, d := range c.AllDecls() {
		if d.Recv == nil || !(d.Name.Name == "UnmarshalYAML" || d.Name.Name == "MarshalJSON" || d.Name.Name == "MarshalYAML") {
			continue
		}
		p := c.DeclPkg(d)
		f, _ := p.TypesInfo.Defs[d.Name].(*types.Func)
		if f == nil {
			continue
		}
		key := "codec/" + c.FuncName(d)
		path := c.PathTo(f, func(g *types.Func) bool { _, ok := nondetPrims[core.FullName(g)]; return ok }, nil)
		if path != nil {
			c.Bad(rule, key, d.Pos(), "reaches a nondeterminism source: "+core.PathStr(path))
		} else {
			c.OK(rule, key, d.Pos(), "codec method (called by yaml/json library) reaches no nondeterminism source")
		}
	}
}
