package rules

import (
	"go/token"
	"go/types"

	"golang.org/x/tools/go/ssa"
)

// ---- small SSA helpers shared by the rules that are decided on value flow and dominance ----

// ifEdges calls f for every conditional branch of fn: the condition with leading negations removed,
// and the successor taken when that (stripped) condition is true / false.
func ifEdges(fn *ssa.Function, f func(b *ssa.BasicBlock, cond ssa.Value, whenTrue, whenFalse *ssa.BasicBlock)) {
	for _, b := range fn.Blocks {
		if len(b.Instrs) == 0 {
			continue
		}
		ifi, ok := b.Instrs[len(b.Instrs)-1].(*ssa.If)
		if !ok {
			continue
		}
		cond, neg := stripNot(ifi.Cond)
		t, e := b.Succs[0], b.Succs[1]
		if neg {
			t, e = e, t
		}
		f(b, cond, t, e)
	}
}

// edgeDom: the edge into succ (from its only predecessor) lies on every path to target.
func edgeDom(succ, target *ssa.BasicBlock) bool {
	return len(succ.Preds) == 1 && (succ == target || succ.Dominates(target))
}

// regionOf: the blocks dominated by succ when it is entered through a single edge (nil otherwise).
func regionOf(fn *ssa.Function, succ *ssa.BasicBlock) []*ssa.BasicBlock {
	if len(succ.Preds) != 1 {
		return nil
	}
	var out []*ssa.BasicBlock
	for _, b := range fn.Blocks {
		if succ == b || succ.Dominates(b) {
			out = append(out, b)
		}
	}
	return out
}

// returnsIn: the return instructions inside the given blocks.
func returnsIn(blocks []*ssa.BasicBlock) []*ssa.Return {
	var out []*ssa.Return
	for _, b := range blocks {
		for _, ins := range b.Instrs {
			if r, ok := ins.(*ssa.Return); ok {
				out = append(out, r)
			}
		}
	}
	return out
}

// errResultNonNil: the last result of the return is an error value that is not the nil constant
// (on any incoming edge, when it is a phi).
func errResultNonNil(r *ssa.Return) bool {
	if len(r.Results) == 0 {
		return false
	}
	var nonNil func(v ssa.Value, depth int) bool
	nonNil = func(v ssa.Value, depth int) bool {
		if k, ok := v.(*ssa.Const); ok {
			return !k.IsNil()
		}
		if phi, ok := v.(*ssa.Phi); ok && depth < 3 {
			for _, e := range phi.Edges {
				if !nonNil(e, depth+1) {
					return false
				}
			}
			return true
		}
		return true
	}
	return nonNil(r.Results[len(r.Results)-1], 0)
}

func errResultNil(r *ssa.Return) bool {
	if len(r.Results) == 0 {
		return false
	}
	k, ok := r.Results[len(r.Results)-1].(*ssa.Const)
	return ok && k.IsNil()
}

// mapLookupOn: v is (the ok/value part of) a lookup in the map held by parameter m.
func mapLookupOn(v ssa.Value, m ssa.Value) *ssa.Lookup {
	switch x := v.(type) {
	case *ssa.Lookup:
		if sameOrLoaded(x.X, m) {
			return x
		}
	case *ssa.Extract:
		if lk, ok := x.Tuple.(*ssa.Lookup); ok && sameOrLoaded(lk.X, m) {
			return lk
		}
	}
	return nil
}

// sameOrLoaded: v is target, or the value loaded from target (a captured variable is a pointer in the closure).
func sameOrLoaded(v, target ssa.Value) bool {
	if v == target {
		return true
	}
	if u, ok := v.(*ssa.UnOp); ok && u.Op == token.MUL && u.X == target {
		return true
	}
	return false
}

// cmpZero: cond compares v with the integer constant k; returned as the relation `v op k` with the
// constant on the right.
func cmpConst(cond ssa.Value) (ssa.Value, token.Token, int64, bool) {
	be, ok := cond.(*ssa.BinOp)
	if !ok {
		return nil, 0, 0, false
	}
	flip := map[token.Token]token.Token{token.LSS: token.GTR, token.GTR: token.LSS, token.LEQ: token.GEQ, token.GEQ: token.LEQ, token.EQL: token.EQL, token.NEQ: token.NEQ}
	if _, isCmp := flip[be.Op]; !isCmp {
		return nil, 0, 0, false
	}
	if k, ok := be.Y.(*ssa.Const); ok && k.Value != nil {
		if b, ok := k.Type().Underlying().(*types.Basic); ok && b.Info()&types.IsInteger != 0 {
			return be.X, be.Op, k.Int64(), true
		}
	}
	if k, ok := be.X.(*ssa.Const); ok && k.Value != nil {
		if b, ok := k.Type().Underlying().(*types.Basic); ok && b.Info()&types.IsInteger != 0 {
			return be.Y, flip[be.Op], k.Int64(), true
		}
	}
	return nil, 0, 0, false
}

// impliesPositive: when `v op k` has the given truth value, v > 0 follows.
func impliesPositive(op token.Token, k int64, truth bool) bool {
	if !truth {
		neg := map[token.Token]token.Token{token.LSS: token.GEQ, token.GEQ: token.LSS, token.GTR: token.LEQ, token.LEQ: token.GTR, token.EQL: token.NEQ, token.NEQ: token.EQL}
		op = neg[op]
	}
	switch op {
	case token.GTR:
		return k >= 0
	case token.GEQ:
		return k >= 1
	case token.EQL:
		return k >= 1
	}
	return false
}

// paramsByType: the parameters of fn whose type satisfies pred, in order.
func paramsByType(fn *ssa.Function, pred func(t types.Type) bool) []*ssa.Parameter {
	var out []*ssa.Parameter
	for _, p := range fn.Params {
		if pred(p.Type()) {
			out = append(out, p)
		}
	}
	return out
}

func isMapTo(t types.Type, elem func(types.Type) bool) bool {
	m, ok := t.Underlying().(*types.Map)
	return ok && elem(m.Elem())
}

func isBoolType(t types.Type) bool {
	b, ok := t.Underlying().(*types.Basic)
	return ok && b.Kind() == types.Bool
}

func isPtrToNamed(name string) func(types.Type) bool {
	return func(t types.Type) bool {
		p, ok := t.(*types.Pointer)
		if !ok {
			return false
		}
		n, ok := p.Elem().(*types.Named)
		return ok && n.Obj().Name() == name
	}
}
