package rules

import (
	"golang.org/x/tools/go/cfg"

	"go/ast"
	"go/token"
	"go/types"

	"verif/checker/internal/core"
)

// callsIn lists resolved calls to `target` lexically inside n.
func callsIn(info *types.Info, n ast.Node, target *types.Func) []*ast.CallExpr {
	var out []*ast.CallExpr
	ast.Inspect(n, func(x ast.Node) bool {
		if ce, ok := x.(*ast.CallExpr); ok {
			if f := core.Callee(info, ce); f != nil && f.Origin() == target {
				out = append(out, ce)
			}
		}
		return true
	})
	return out
}

// fieldLoop: a loop over <expr>.<Field> — `for _, e := range x.F`, `for i := range x.F` or
// `for i := 0; i < len(x.F); i++` (the bound may be an explaining local).
type fieldLoop struct {
	Stmt  ast.Stmt
	Body  *ast.BlockStmt
	info  *types.Info
	elem  types.Object // range value variable, if any
	index types.Object // range key / index variable, if any
	over  string       // source text of x.F
}

func (l fieldLoop) Pos() token.Pos { return l.Stmt.Pos() }
func (l fieldLoop) End() token.Pos { return l.Stmt.End() }

// IsElem: e denotes the element of the current iteration — the range value variable, x.F[i], or a
// local of the loop body defined as one of those.
func (l fieldLoop) IsElem(e ast.Expr) bool {
	e = ast.Unparen(e)
	switch x := e.(type) {
	case *ast.Ident:
		o := l.info.Uses[x]
		if o == nil {
			return false
		}
		if o == l.elem && l.elem != nil {
			return true
		}
		// local defined in the body from the element
		found := false
		ast.Inspect(l.Body, func(n ast.Node) bool {
			if as, ok := n.(*ast.AssignStmt); ok && as.Tok == token.DEFINE && len(as.Lhs) == len(as.Rhs) {
				for i, lh := range as.Lhs {
					if id, ok := lh.(*ast.Ident); ok && l.info.Defs[id] == o && l.IsElem(as.Rhs[i]) {
						found = true
					}
				}
			}
			return !found
		})
		return found
	case *ast.IndexExpr:
		if id, ok := ast.Unparen(x.Index).(*ast.Ident); ok && l.index != nil && l.info.Uses[id] == l.index {
			return types.ExprString(ast.Unparen(x.X)) == l.over
		}
	case *ast.UnaryExpr:
		if x.Op == token.AND {
			return l.IsElem(x.X)
		}
	case *ast.StarExpr:
		return l.IsElem(x.X)
	}
	return false
}

func loopsOverField(info *types.Info, body ast.Node, typ, field string) []fieldLoop {
	isField := func(e ast.Expr) (string, bool) {
		// through explaining locals: n := len(x.F) is handled by the caller; here e is x.F itself
		if se, ok := ast.Unparen(e).(*ast.SelectorExpr); ok {
			if k, ok := fieldOf(info, se); ok && k.typ == typ && k.field == field {
				return types.ExprString(se), true
			}
		}
		return "", false
	}
	lenOfField := func(e ast.Expr) (string, bool) {
		e = ast.Unparen(e)
		if id, ok := e.(*ast.Ident); ok {
			// bound local: find its single definition in body
			var def ast.Expr
			n := 0
			ast.Inspect(body, func(x ast.Node) bool {
				if as, ok := x.(*ast.AssignStmt); ok {
					for i, lh := range as.Lhs {
						if li, ok := lh.(*ast.Ident); ok && (info.Defs[li] == info.Uses[id] || info.Uses[li] == info.Uses[id]) && info.Uses[id] != nil {
							n++
							if i < len(as.Rhs) {
								def = as.Rhs[i]
							}
						}
					}
				}
				return true
			})
			if n == 1 && def != nil {
				e = ast.Unparen(def)
			}
		}
		if ce, ok := e.(*ast.CallExpr); ok && len(ce.Args) == 1 {
			if f, ok := ast.Unparen(ce.Fun).(*ast.Ident); ok && f.Name == "len" {
				return isField(ce.Args[0])
			}
		}
		return "", false
	}
	var out []fieldLoop
	ast.Inspect(body, func(x ast.Node) bool {
		switch st := x.(type) {
		case *ast.RangeStmt:
			if over, ok := isField(st.X); ok {
				l := fieldLoop{Stmt: st, Body: st.Body, info: info, over: over}
				if id, ok := st.Value.(*ast.Ident); ok {
					l.elem = info.Defs[id]
				}
				if id, ok := st.Key.(*ast.Ident); ok {
					l.index = info.Defs[id]
				}
				out = append(out, l)
			}
		case *ast.ForStmt:
			as, ok := st.Init.(*ast.AssignStmt)
			if !ok || as.Tok != token.DEFINE || len(as.Lhs) != 1 {
				return true
			}
			id, ok := as.Lhs[0].(*ast.Ident)
			if !ok {
				return true
			}
			be, ok := ast.Unparen(st.Cond).(*ast.BinaryExpr)
			if !ok {
				return true
			}
			var bound ast.Expr
			switch {
			case be.Op == token.LSS && identObj(info, be.X) == info.Defs[id]:
				bound = be.Y
			case be.Op == token.GTR && identObj(info, be.Y) == info.Defs[id]:
				bound = be.X
			}
			if bound == nil {
				return true
			}
			if over, ok := lenOfField(bound); ok {
				out = append(out, fieldLoop{Stmt: st, Body: st.Body, info: info, index: info.Defs[id], over: over})
			}
		}
		return true
	})
	return out
}

// topLevelCalls lists the calls that are a top-level statement of the block: the right-hand side of an
// assignment, an expression statement, or a returned value (so: executed on every path reaching them that
// did not leave the block earlier).
func topLevelCalls(body *ast.BlockStmt) []*ast.CallExpr {
	var out []*ast.CallExpr
	add := func(e ast.Expr) {
		if ce, ok := ast.Unparen(e).(*ast.CallExpr); ok {
			out = append(out, ce)
		}
	}
	for _, st := range body.List {
		switch s := st.(type) {
		case *ast.AssignStmt:
			for _, r := range s.Rhs {
				add(r)
			}
		case *ast.ExprStmt:
			add(s.X)
		case *ast.ReturnStmt:
			for _, r := range s.Results {
				add(r)
			}
		case *ast.DeclStmt:
			if gd, ok := s.Decl.(*ast.GenDecl); ok {
				for _, sp := range gd.Specs {
					if vs, ok := sp.(*ast.ValueSpec); ok {
						for _, v := range vs.Values {
							add(v)
						}
					}
				}
			}
		}
	}
	return out
}

func paramObjs(info *types.Info, d *ast.FuncDecl) []types.Object {
	var out []types.Object
	for _, f := range d.Type.Params.List {
		for _, n := range f.Names {
			out = append(out, info.Defs[n])
		}
		if len(f.Names) == 0 {
			out = append(out, nil)
		}
	}
	return out
}

func callsInAny(info *types.Info, n ast.Node, pred func(*types.Func) bool) []*ast.CallExpr {
	var out []*ast.CallExpr
	ast.Inspect(n, func(x ast.Node) bool {
		if ce, ok := x.(*ast.CallExpr); ok {
			if f := core.Callee(info, ce); f != nil && pred(f.Origin()) {
				out = append(out, ce)
			}
		}
		return true
	})
	return out
}

// X1: every model that belongs to the package is validated: the package itself, every
// listed previous version, and (through flattening) every imported package.
func ruleAllModelsValidated(c *core.Ctx) {
	const rule = "X1"
	c.Rule(rule, "validatePackage validates the package and each previous version with dsl.Validate over the flattened namespaces (imports included); parsePackageNamespaces follows every import; flattenNamespaces follows every reference", 7)
	vp, vpd, p := c.Func("internal/cmd", "validatePackage")
	paf, _, _ := c.Func("internal/cmd", "parseAndFlattenNamespaces")
	ppn, ppnd, _ := c.Func("internal/cmd", "parsePackageNamespaces")
	fl, fld, _ := c.Func("internal/cmd", "flattenNamespaces")
	val, _, _ := c.Func("pkg/dsl", "Validate")
	evo, _, _ := c.Func("pkg/dsl", "ValidateEvolution")
	for n, f := range map[string]*types.Func{"validatePackage": vp, "parseAndFlattenNamespaces": paf, "parsePackageNamespaces": ppn, "flattenNamespaces": fl, "dsl.Validate": val, "dsl.ValidateEvolution": evo} {
		if f == nil {
			c.Undecided(rule, "anchor/"+n, 0, "anchor function not found")
			return
		}
	}
	info := p.TypesInfo
	// main package
	top := 0
	loops := loopsOverField(info, vpd.Body, "PackageInfo", "Versions")
	inLoop := func(n ast.Node) bool {
		for _, l := range loops {
			if l.Body.Pos() <= n.Pos() && n.End() <= l.Body.End() {
				return true
			}
		}
		return false
	}
	// wrappers: a function of the package whose body calls a validator as a top-level statement validates; one
	// that hands its *PackageInfo parameter to a parser as a top-level statement parses that package
	validators := map[*types.Func]bool{val: true}
	parsers := map[*types.Func]int{paf: 0} // function -> index of the package parameter
	for changed := true; changed; {
		changed = false
		for _, d := range c.AllDecls() {
			if c.DeclPkg(d) != p || d.Body == nil || d.Recv != nil {
				continue
			}
			f, _ := info.Defs[d.Name].(*types.Func)
			if f == nil {
				continue
			}
			for _, ce := range topLevelCalls(d.Body) {
				callee := core.Callee(info, ce)
				if callee == nil {
					continue
				}
				if validators[callee.Origin()] && !validators[f] && f != vp {
					validators[f] = true
					changed = true
				}
				if ix, isParser := parsers[callee.Origin()]; isParser && ix < len(ce.Args) {
					if _, done := parsers[f]; !done && f != vp {
						if id, ok := ast.Unparen(ce.Args[ix]).(*ast.Ident); ok {
							for i, prm := range paramObjs(info, d) {
								if info.Uses[id] == prm {
									parsers[f] = i
									changed = true
								}
							}
						}
					}
				}
			}
		}
	}
	for _, ce := range callsInAny(info, vpd.Body, func(f *types.Func) bool { return validators[f] }) {
		if !inLoop(ce) {
			top++
		}
	}
	c.Check(top >= 1, rule, "validatePackage/dsl.Validate(main)", vpd.Pos(), "the package's own namespaces are validated", "no dsl.Validate call for the package itself")
	c.Check(len(loops) == 1, rule, "validatePackage/range Versions", vpd.Pos(), "one loop over packageInfo.Versions", "expected exactly one loop over packageInfo.Versions")
	if len(loops) == 1 {
		l := loops[0]
		okParse := false
		for _, ce := range callsInAny(info, l.Body, func(f *types.Func) bool { _, ok := parsers[f]; return ok }) {
			ix := parsers[core.Callee(info, ce).Origin()]
			if ix < len(ce.Args) {
				if se, ok := ast.Unparen(ce.Args[ix]).(*ast.SelectorExpr); ok && se.Sel.Name == "Package" && l.IsElem(se.X) {
					okParse = true
				}
			}
		}
		c.Check(okParse, rule, "validatePackage/versions/parseAndFlattenNamespaces(version.Package)", l.Pos(), "each version's package is parsed and flattened", "the version loop does not parse version.Package")
		// dsl.Validate in the loop, unconditionally (not nested in an if/switch inside the loop body)
		uncond := false
		for _, ce := range topLevelCalls(l.Body) {
			if f := core.Callee(info, ce); f != nil && validators[f.Origin()] {
				uncond = true
			}
		}
		c.Check(uncond, rule, "validatePackage/versions/dsl.Validate", l.Pos(), "each version is validated unconditionally in the loop body", "dsl.Validate is not called as a top-level statement of the version loop (a conditional or missing validation lets an invalid previous version through)")
	}
	// no verdict "valid" before the previous versions were looked at: every return without an error lies behind the
	// loop over Versions on every path (a shortcut in front of it makes validity depend on whatever the shortcut tests)
	if len(loops) == 1 {
		fc := core.NewCFG(vpd.Body, info)
		lb := fc.BlockOf(loops[0].Stmt)
		okAll := lb != nil
		var early *ast.ReturnStmt
		ast.Inspect(vpd.Body, func(n ast.Node) bool {
			if _, isLit := n.(*ast.FuncLit); isLit {
				return false
			}
			r, ok := n.(*ast.ReturnStmt)
			if !ok || len(r.Results) == 0 {
				return true
			}
			if tv, ok := info.Types[r.Results[len(r.Results)-1]]; !ok || !tv.IsNil() {
				return true
			}
			rb := fc.BlockOf(r)
			if lb == nil || rb == nil || !fc.BlockDominates(lb, rb) {
				okAll = false
				if early == nil {
					early = r
				}
			}
			return true
		})
		pos := vpd.Pos()
		if early != nil {
			pos = early.Pos()
		}
		c.Check(okAll, rule, "validatePackage/success only after the versions", pos, "every error-free return is dominated by the loop over packageInfo.Versions",
			"validatePackage can return without an error before the previous versions were parsed and validated: an invalid or incompatible previous version no longer stops generation")
	}
	c.Check(len(callsIn(info, vpd.Body, evo)) >= 1, rule, "validatePackage/dsl.ValidateEvolution", vpd.Pos(), "evolution check is invoked", "ValidateEvolution is never called")

	// parsePackageNamespaces: recursion over p.Imports with imp.Package, appended to References
	il := loopsOverField(info, ppnd.Body, "PackageInfo", "Imports")
	okRec := false
	okAppend := false
	for _, l := range il {
		for _, ce := range callsIn(info, l.Body, ppn) {
			if len(ce.Args) >= 1 {
				if se, ok := ast.Unparen(ce.Args[0]).(*ast.SelectorExpr); ok && se.Sel.Name == "Package" && l.IsElem(se.X) {
					okRec = true
				}
			}
		}
		ast.Inspect(l.Body, func(x ast.Node) bool {
			if as, ok := x.(*ast.AssignStmt); ok && len(as.Lhs) == 1 {
				if se, ok := ast.Unparen(as.Lhs[0]).(*ast.SelectorExpr); ok {
					if k, ok := fieldOf(info, se); ok && k.typ == "Namespace" && k.field == "References" {
						okAppend = true
					}
				}
			}
			return true
		})
	}
	// every import becomes a reference of THIS namespace: on every path through the body of the import loop that comes
	// round again, the append to References is executed (a memo hit or any other test must not skip it — the importing
	// namespace needs the reference whoever parsed the package first)
	for _, l := range il {
		var app ast.Stmt
		ast.Inspect(l.Body, func(x ast.Node) bool {
			if as, ok := x.(*ast.AssignStmt); ok && len(as.Lhs) == 1 {
				if se, ok := ast.Unparen(as.Lhs[0]).(*ast.SelectorExpr); ok {
					if k, ok := fieldOf(info, se); ok && k.typ == "Namespace" && k.field == "References" {
						app = as
					}
				}
			}
			return true
		})
		if app == nil || len(l.Body.List) == 0 {
			continue
		}
		fc := core.NewCFG(ppnd.Body, info)
		start := fc.BlockOf(l.Body.List[0])
		appBlock := fc.BlockOf(app)
		inside := func(b *cfg.Block) bool {
			if b.Stmt != nil {
				return l.Body.Pos() <= b.Stmt.Pos() && b.Stmt.End() <= l.Body.End()
			}
			for _, nd := range b.Nodes {
				if nd.Pos() < l.Body.Pos() || nd.End() > l.Body.End() {
					return false
				}
			}
			return len(b.Nodes) > 0
		}
		skipped := false
		if start != nil && appBlock != nil {
			seen := map[int32]bool{start.Index: true}
			var walk func(b *cfg.Block)
			walk = func(b *cfg.Block) {
				if b == appBlock {
					return
				}
				for _, s := range b.Succs {
					if !inside(s) {
						if len(s.Succs) > 0 { // the loop head (a return block has no successors)
							skipped = true
						}
						continue
					}
					if !seen[s.Index] {
						seen[s.Index] = true
						walk(s)
					}
				}
			}
			walk(start)
		}
		c.Check(start != nil && appBlock != nil && !skipped, rule, "parsePackageNamespaces/every import is referenced", app.Pos(), "every iteration of the import loop that does not return appends to References",
			"an iteration of the import loop can finish without appending the imported namespace to References: that importer then generates code without the import (undefined names in the generated package) although another importer of the same package keeps it")
	}
	c.Check(okRec, rule, "parsePackageNamespaces/recurse imp.Package", ppnd.Pos(), "every import is parsed recursively", "imports are not parsed recursively")
	c.Check(okAppend, rule, "parsePackageNamespaces/References append", ppnd.Pos(), "every parsed import becomes a reference of the namespace", "parsed imports are not attached to namespace.References")
	// flattenNamespaces: recursion over ns.References
	rl := loopsOverField(info, fld.Body, "Namespace", "References")
	okFl := false
	for _, l := range rl {
		if len(callsIn(info, l.Body, fl)) > 0 {
			okFl = true
		}
		// the recursion may be a local closure calling itself: `visit = func(ns) { ...; for ... { visit(ref) } ... }`
		ast.Inspect(fld.Body, func(n ast.Node) bool {
			as, ok := n.(*ast.AssignStmt)
			if !ok || len(as.Lhs) != 1 || len(as.Rhs) != 1 {
				return true
			}
			lit, ok := as.Rhs[0].(*ast.FuncLit)
			self := identObj(info, as.Lhs[0])
			if !ok || self == nil || !(lit.Body.Pos() <= l.Body.Pos() && l.Body.End() <= lit.Body.End()) {
				return true
			}
			ast.Inspect(l.Body, func(m ast.Node) bool {
				if ce, isCall := m.(*ast.CallExpr); isCall && identObj(info, ce.Fun) == self {
					okFl = true
				}
				return true
			})
			return true
		})
	}
	c.Check(okFl, rule, "flattenNamespaces/recurse References", fld.Pos(), "every referenced namespace is flattened into the validated set", "references are not followed")
}
