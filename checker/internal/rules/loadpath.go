package rules

import (
	"go/ast"
	"go/types"

	"verif/checker/internal/core"
)

// callsIn lists resolved calls to `target` lexically inside n.
func callsIn(info *types.Info, n ast.Node, target *types.Func) []*ast.CallExpr {
	var out []*ast.CallExpr
	ast.Inspect(n, func(x ast.Node) bool {
		if ce, ok := x.(*ast.CallExpr); ok {
			if f := core.Callee(info, ce); f != nil && f.Origin() == target {
				out = append(out, ce)
			}
		}
		return true
	})
	return out
}

// rangesOverField finds `for ... := range <expr>.<Field>` statements in body.
func rangesOverField(info *types.Info, body ast.Node, typ, field string) []*ast.RangeStmt {
	var out []*ast.RangeStmt
	ast.Inspect(body, func(x ast.Node) bool {
		if rs, ok := x.(*ast.RangeStmt); ok {
			if se, ok := ast.Unparen(rs.X).(*ast.SelectorExpr); ok {
				if k, ok := fieldOf(info, se); ok && k.typ == typ && k.field == field {
					out = append(out, rs)
				}
			}
		}
		return true
	})
	return out
}

// X1: every model that belongs to the package is validated: the package itself, every
// listed previous version, and (through flattening) every imported package.
func ruleAllModelsValidated(c *core.Ctx) {
	const rule = "X1"
	c.Rule(rule, "validatePackage validates the package and each previous version with dsl.Validate over the flattened namespaces (imports included); parsePackageNamespaces follows every import; flattenNamespaces follows every reference", 7)
	vp, vpd, p := c.Func("internal/cmd", "validatePackage")
	paf, _, _ := c.Func("internal/cmd", "parseAndFlattenNamespaces")
	ppn, ppnd, _ := c.Func("internal/cmd", "parsePackageNamespaces")
	fl, fld, _ := c.Func("internal/cmd", "flattenNamespaces")
	val, _, _ := c.Func("pkg/dsl", "Validate")
	evo, _, _ := c.Func("pkg/dsl", "ValidateEvolution")
	for n, f := range map[string]*types.Func{"validatePackage": vp, "parseAndFlattenNamespaces": paf, "parsePackageNamespaces": ppn, "flattenNamespaces": fl, "dsl.Validate": val, "dsl.ValidateEvolution": evo} {
		if f == nil {
			c.Undecided(rule, "anchor/"+n, 0, "anchor function not found")
			return
		}
	}
	info := p.TypesInfo
	// main package
	top := 0
	loops := rangesOverField(info, vpd.Body, "PackageInfo", "Versions")
	inLoop := func(n ast.Node) bool {
		for _, l := range loops {
			if l.Body.Pos() <= n.Pos() && n.End() <= l.Body.End() {
				return true
			}
		}
		return false
	}
	for _, ce := range callsIn(info, vpd.Body, val) {
		if !inLoop(ce) {
			top++
		}
	}
	c.Check(top >= 1, rule, "validatePackage/dsl.Validate(main)", vpd.Pos(), "the package's own namespaces are validated", "no dsl.Validate call for the package itself")
	c.Check(len(loops) == 1, rule, "validatePackage/range Versions", vpd.Pos(), "one loop over packageInfo.Versions", "expected exactly one loop over packageInfo.Versions")
	if len(loops) == 1 {
		l := loops[0]
		var verVar types.Object
		if id, ok := l.Value.(*ast.Ident); ok {
			verVar = info.Defs[id]
		}
		okParse := false
		for _, ce := range callsIn(info, l.Body, paf) {
			if len(ce.Args) == 1 {
				if se, ok := ast.Unparen(ce.Args[0]).(*ast.SelectorExpr); ok && se.Sel.Name == "Package" && identObj(info, se.X) == verVar && verVar != nil {
					okParse = true
				}
			}
		}
		c.Check(okParse, rule, "validatePackage/versions/parseAndFlattenNamespaces(version.Package)", l.Pos(), "each version's package is parsed and flattened", "the version loop does not parse version.Package")
		// dsl.Validate in the loop, unconditionally (not nested in an if/switch inside the loop body)
		uncond := false
		for _, st := range l.Body.List {
			if as, ok := st.(*ast.AssignStmt); ok && len(as.Rhs) == 1 {
				if ce, ok := as.Rhs[0].(*ast.CallExpr); ok {
					if f := core.Callee(info, ce); f != nil && f.Origin() == val {
						uncond = true
					}
				}
			}
		}
		c.Check(uncond, rule, "validatePackage/versions/dsl.Validate", l.Pos(), "each version is validated unconditionally in the loop body", "dsl.Validate is not called as a top-level statement of the version loop (a conditional or missing validation lets an invalid previous version through)")
	}
	c.Check(len(callsIn(info, vpd.Body, evo)) >= 1, rule, "validatePackage/dsl.ValidateEvolution", vpd.Pos(), "evolution check is invoked", "ValidateEvolution is never called")

	// parsePackageNamespaces: recursion over p.Imports with imp.Package, appended to References
	il := rangesOverField(info, ppnd.Body, "PackageInfo", "Imports")
	okRec := false
	okAppend := false
	for _, l := range il {
		var v types.Object
		if id, ok := l.Value.(*ast.Ident); ok {
			v = info.Defs[id]
		}
		for _, ce := range callsIn(info, l.Body, ppn) {
			if len(ce.Args) >= 1 {
				if se, ok := ast.Unparen(ce.Args[0]).(*ast.SelectorExpr); ok && se.Sel.Name == "Package" && identObj(info, se.X) == v && v != nil {
					okRec = true
				}
			}
		}
		ast.Inspect(l.Body, func(x ast.Node) bool {
			if as, ok := x.(*ast.AssignStmt); ok && len(as.Lhs) == 1 {
				if se, ok := ast.Unparen(as.Lhs[0]).(*ast.SelectorExpr); ok {
					if k, ok := fieldOf(info, se); ok && k.typ == "Namespace" && k.field == "References" {
						okAppend = true
					}
				}
			}
			return true
		})
	}
	c.Check(okRec, rule, "parsePackageNamespaces/recurse imp.Package", ppnd.Pos(), "every import is parsed recursively", "imports are not parsed recursively")
	c.Check(okAppend, rule, "parsePackageNamespaces/References append", ppnd.Pos(), "every parsed import becomes a reference of the namespace", "parsed imports are not attached to namespace.References")
	// flattenNamespaces: recursion over ns.References
	rl := rangesOverField(info, fld.Body, "Namespace", "References")
	okFl := false
	for _, l := range rl {
		if len(callsIn(info, l.Body, fl)) > 0 {
			okFl = true
		}
	}
	c.Check(okFl, rule, "flattenNamespaces/recurse References", fld.Pos(), "every referenced namespace is flattened into the validated set", "references are not followed")
}
