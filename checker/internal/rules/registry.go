// Package rules holds the repository-specific rules, grouped per property.
package rules

import "verif/checker/internal/core"

// Registry maps a property id to the rules deciding its structural clauses.
var Registry = map[string][]func(*core.Ctx){}

func reg(prop string, fs ...func(*core.Ctx)) { Registry[prop] = append(Registry[prop], fs...) }
