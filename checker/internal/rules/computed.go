package rules

import (
	"fmt"
	"go/ast"
	"go/token"
	"go/types"
	"regexp"
	"sort"
	"strings"

	"golang.org/x/tools/go/cfg"

	"verif/checker/internal/core"
	"verif/checker/internal/gee"
)

// ---------------------------------------------------------------------------
// C19: computed fields.
// ---------------------------------------------------------------------------

// X1: commonTypeMap is built symmetrically and without conflicting rows.
func ruleCommonTypeMap(c *core.Ctx) {
	const rule = "X1"
	c.Rule(rule, "dsl.commonTypeMap: every row {a, b, common} is inserted under both (a,b) and (b,a); no unordered pair has two different results; the result of a row is one of its operands or wider", 50)
	p := c.Pkg("pkg/dsl")
	var lit *ast.CompositeLit
	var fn *ast.FuncLit
	for _, f := range p.Syntax {
		for _, d := range f.Decls {
			gd, ok := d.(*ast.GenDecl)
			if !ok {
				continue
			}
			for _, sp := range gd.Specs {
				vs, ok := sp.(*ast.ValueSpec)
				if !ok || len(vs.Names) != 1 || vs.Names[0].Name != "commonTypeMap" || len(vs.Values) != 1 {
					continue
				}
				if ce, ok := vs.Values[0].(*ast.CallExpr); ok {
					fn, _ = ce.Fun.(*ast.FuncLit)
				}
			}
		}
	}
	if fn == nil {
		c.Undecided(rule, "anchor/pkg/dsl.commonTypeMap", 0, "commonTypeMap initialiser not found")
		return
	}
	info := p.TypesInfo
	ast.Inspect(fn.Body, func(n ast.Node) bool {
		if cl, ok := n.(*ast.CompositeLit); ok && lit == nil {
			if _, isSlice := info.TypeOf(cl).Underlying().(*types.Slice); isSlice && len(cl.Elts) > 10 {
				lit = cl
			}
		}
		return true
	})
	if lit == nil {
		c.Undecided(rule, "commonTypeMap/rows", fn.Pos(), "row literal not found")
		return
	}
	// rank: a partial "can hold" order used only to reject results narrower than an operand kind
	rank := map[string]int{"int8": 1, "uint8": 1, "int16": 2, "uint16": 2, "int32": 3, "uint32": 3, "int64": 4, "uint64": 4, "size": 4,
		"float32": 5, "float64": 6, "complexfloat32": 7, "complexfloat64": 8}
	seen := map[string]string{}
	val := func(e ast.Expr) string {
		if tv, ok := info.Types[e]; ok && tv.Value != nil {
			return strings.Trim(tv.Value.ExactString(), "\"")
		}
		return types.ExprString(e)
	}
	for _, el := range lit.Elts {
		row, ok := el.(*ast.CompositeLit)
		if !ok || len(row.Elts) != 3 {
			c.Undecided(rule, "commonTypeMap/row shape", el.Pos(), "row is not {a, b, common}")
			continue
		}
		a, b, cm := val(row.Elts[0]), val(row.Elts[1]), val(row.Elts[2])
		pair := []string{a, b}
		sort.Strings(pair)
		k := pair[0] + "," + pair[1]
		key := "commonTypeMap/row " + k
		if old, dup := seen[k]; dup && old != cm {
			c.Bad(rule, key, row.Pos(), fmt.Sprintf("pair (%s) is listed with two different common types: %s and %s — the static type of an expression depends on operand order", k, old, cm))
			continue
		}
		seen[k] = cm
		okRank := rank[cm] >= rank[a] && rank[cm] >= rank[b] && rank[cm] > 0
		// integer × integer: the result holds every value of both operands whenever some integer
		// primitive can (signed with uint64/size has no such type: any 64-bit result is accepted)
		type irange struct {
			signed bool
			bits   int
		}
		ints := map[string]irange{"int8": {true, 8}, "int16": {true, 16}, "int32": {true, 32}, "int64": {true, 64},
			"uint8": {false, 8}, "uint16": {false, 16}, "uint32": {false, 32}, "uint64": {false, 64}, "size": {false, 64}}
		holds := func(outer, inner irange) bool {
			if outer.signed == inner.signed {
				return outer.bits >= inner.bits
			}
			return outer.signed && outer.bits > inner.bits
		}
		ra, aInt := ints[a]
		rb, bInt := ints[b]
		rc, cInt := ints[cm]
		if aInt && bInt && cInt && okRank {
			exists := false
			for _, r := range ints {
				exists = exists || (holds(r, ra) && holds(r, rb))
			}
			if exists && !(holds(rc, ra) && holds(rc, rb)) {
				c.Bad(rule, key, row.Pos(), fmt.Sprintf("common type %s of (%s, %s) cannot hold every value of both operands although an integer type that can exists: the promotion loses range", cm, a, b))
				continue
			}
			if !exists && rc.bits != 64 {
				okRank = false
			}
		}
		c.Check(okRank, rule, key, row.Pos(), "common type "+cm+" is at least as wide as both operands", fmt.Sprintf("common type %s of (%s, %s) is narrower than an operand: the documented promotion loses range", cm, a, b))
	}
	// both insertion orders: inside a loop over the rows, the map is stored under {row.a, row.b} and under
	// {row.b, row.a} (the key may go through an explaining local; the loop may be a range or an index loop)
	fwd, rev := false, false
	ast.Inspect(fn.Body, func(n ast.Node) bool {
		var body *ast.BlockStmt
		switch l := n.(type) {
		case *ast.RangeStmt:
			body = l.Body
		case *ast.ForStmt:
			body = l.Body
		default:
			return true
		}
		ast.Inspect(body, func(m ast.Node) bool {
			as, ok := m.(*ast.AssignStmt)
			if !ok || len(as.Lhs) != 1 {
				return true
			}
			ix, ok := as.Lhs[0].(*ast.IndexExpr)
			if !ok {
				return true
			}
			if _, isMap := info.TypeOf(ix.X).Underlying().(*types.Map); !isMap {
				return true
			}
			key := ast.Unparen(core.InlineLocals(info, body, ix.Index))
			for {
				if pe, ok := key.(*ast.ParenExpr); ok {
					key = pe.X
					continue
				}
				break
			}
			if kl, ok := key.(*ast.CompositeLit); ok && len(kl.Elts) == 2 {
				field := func(e ast.Expr) string {
					if kv, ok := e.(*ast.KeyValueExpr); ok {
						e = kv.Value
					}
					if se, ok := ast.Unparen(e).(*ast.SelectorExpr); ok {
						return se.Sel.Name
					}
					return ""
				}
				f0, f1 := field(kl.Elts[0]), field(kl.Elts[1])
				if f0 == "a" && f1 == "b" {
					fwd = true
				}
				if f0 == "b" && f1 == "a" {
					rev = true
				}
			}
			return true
		})
		return true
	})
	c.Check(fwd && rev, rule, "commonTypeMap/both orders inserted", fn.Pos(), "m[{a,b}] and m[{b,a}] are both set for every row", "rows are not inserted under both operand orders: GetCommonType(a,b) and GetCommonType(b,a) differ")
}

var okAtomRe = regexp.MustCompile(`[^\s()!&|]+\([^()]*\)#ok`)
var intAtomRe = regexp.MustCompile(`[^\s()!&|]+ == PrimitiveKindInteger`)
var intNeAtomRe = regexp.MustCompile(`[^\s()!&|]+ != PrimitiveKindInteger`)
var opEqRe = regexp.MustCompile(`^!?\(?(\S+\.Operator) == BinaryOp`)

var exprEmitters = []struct{ name, pkg, fn string }{
	{"cpp", "internal/cpp/types", "writeComputedFieldExpression"},
	{"python", "internal/python/types", "writeComputedFieldExpression"},
	{"matlab", "internal/matlab/types", "writeComputedFieldExpression"},
}

// X2: the three expression emitters handle the same Expression kinds, binary operators
// and function names.
func ruleEmitterSiblings(c *core.Ctx) {
	const rule = "X2"
	c.Rule(rule, "the C++, Python and MATLAB writeComputedFieldExpression handle every Expression implementer, every BinaryOperator constant and the same set of function names", 30)
	exprImpls := implementers(c, "Expression")
	dslp := c.Pkg("pkg/dsl")
	var binOps []string
	sc := dslp.Types.Scope()
	for _, n := range sc.Names() {
		if k, ok := sc.Lookup(n).(*types.Const); ok && strings.HasPrefix(k.Name(), "BinaryOp") {
			binOps = append(binOps, k.Name())
		}
	}
	fnNames := map[string]map[string]bool{}
	for _, em := range exprEmitters {
		_, d, p := c.Func(em.pkg, em.fn)
		if d == nil {
			c.Undecided(rule, em.name+"/anchor", 0, "emitter not found")
			continue
		}
		info := p.TypesInfo
		// outermost type switch over the visited node
		var best *typeSwitchInfo
		for _, ts := range findTypeSwitches(info, d.Body, nil) {
			if best == nil || len(ts.cases) > len(best.cases) {
				t := ts
				best = &t
			}
		}
		if best == nil {
			c.Undecided(rule, em.name+"/type switch", d.Pos(), "no type switch over expression nodes found")
			continue
		}
		for _, impl := range exprImpls {
			_, ok := best.covers(impl)
			c.Check(ok, rule, em.name+"/expression "+typeLabel(impl), best.stmt.Pos(), "handled", "expression kind "+typeLabel(impl)+" has no case in the "+em.name+" emitter: a well-typed computed field aborts generation or is dropped")
		}
		// binary operators: constants referenced in the emitter
		used := map[string]bool{}
		for _, fd := range declsCalledInPkg(c, d, 2) { // the emitter and the helpers of its package it calls
			ast.Inspect(fd.Body, func(n ast.Node) bool {
				if sel, ok := n.(*ast.SelectorExpr); ok {
					if k, ok := info.Uses[sel.Sel].(*types.Const); ok && strings.HasPrefix(k.Name(), "BinaryOp") {
						used[k.Name()] = true
					}
				}
				if sel, ok := n.(*ast.SelectorExpr); ok {
					if k, ok := info.Uses[sel.Sel].(*types.Const); ok && strings.HasPrefix(k.Name(), "Function") {
						if fnNames[em.name] == nil {
							fnNames[em.name] = map[string]bool{}
						}
						fnNames[em.name][k.Name()] = true
					}
				}
				return true
			})
		}
		// where the binary-expression case can be evaluated over the finite domain, "handled" means: it prints a token
		// for the operator and does not abort (lookup tables, helpers and index arithmetic included)
		sortedOps := append([]string(nil), binOps...)
		sort.Strings(sortedOps)
		if dec, _ := tokenDecisions(c, info, d, sortedOps); dec != nil {
			for _, op := range binOps {
				used[op] = dec[op]["int"] != "" && dec[op]["int"] != "<panic>" && dec[op]["other"] != "" && dec[op]["other"] != "<panic>"
			}
		}
		for _, op := range binOps {
			c.Check(used[op], rule, em.name+"/operator "+op, d.Pos(), "handled", "binary operator "+op+" is not handled by the "+em.name+" emitter")
		}
	}
	// same function names everywhere
	all := map[string]bool{}
	for _, m := range fnNames {
		for k := range m {
			all[k] = true
		}
	}
	for k := range all {
		for _, em := range exprEmitters {
			c.Check(fnNames[em.name][k], rule, em.name+"/function "+k, 0, "handled", "built-in function "+k+" is handled by another back end but not by "+em.name)
		}
	}
}

// X3: parenthesisation. In the BinaryExpression case the operand that is visited after a
// parenthesisation test is the operand the test looked at, and the right operand is
// parenthesised also at equal precedence (left associativity).
func ruleParenthesisation(c *core.Ctx) {
	const rule = "X3"
	c.Rule(rule, "in each emitter, for every shape of a binary expression (parent operator x left operand x right operand, operands being non-binary or binary with any operator), an operand is parenthesised whenever the target language would otherwise regroup it: lower precedence than the parent; equal precedence on the right of a left-associative operator; equal precedence on the left of a right-associative one (Python **)", 6)
	var ref struct {
		Assoc map[string]map[string]string `json:"associativity"`
	}
	if err := loadRef("operators.json", &ref); err != nil {
		c.Undecided(rule, "refs/operators.json", 0, err.Error())
		return
	}
	// the operators and their yardl precedence, from pkg/dsl
	var ops []string
	dsc := c.Pkg("pkg/dsl").Types.Scope()
	for _, n := range dsc.Names() {
		if k, ok := dsc.Lookup(n).(*types.Const); ok && strings.HasPrefix(k.Name(), "BinaryOp") {
			ops = append(ops, k.Name())
		}
	}
	sort.Strings(ops)
	prec := map[string]int64{}
	var precDecl *ast.FuncDecl
	for _, d := range c.AllDecls() {
		if d.Name.Name == "Precedence" && d.Recv != nil && c.DeclPkg(d) == c.Pkg("pkg/dsl") {
			precDecl = d
		}
	}
	if precDecl == nil || len(precDecl.Recv.List[0].Names) != 1 {
		c.Undecided(rule, "anchor/BinaryOperator.Precedence", 0, "method not found")
		return
	}
	for _, op := range ops {
		dinfo := c.Pkg("pkg/dsl").TypesInfo
		pi := &pinterp{c: c}
		env := &penv{vars: map[types.Object]pval{dinfo.Defs[precDecl.Recv.List[0].Names[0]]: {k: pvOp, s: op}}}
		pi.exec(dinfo, precDecl.Body.List, env)
		if len(pi.ret) != 1 || pi.ret[0].k != pvInt {
			c.Undecided(rule, "Precedence("+op+")", precDecl.Pos(), "cannot evaluate the precedence of "+op)
			return
		}
		prec[op] = pi.ret[0].n
	}
	for _, em := range exprEmitters {
		_, d, p := c.Func(em.pkg, em.fn)
		if d == nil {
			c.Undecided(rule, em.name+"/anchor", 0, "emitter not found")
			continue
		}
		dec, unk := parenDecisions(c, p.TypesInfo, d, ops)
		if dec == nil {
			c.Undecided(rule, em.name+"/BinaryExpression case", d.Pos(), "the parenthesisation decision could not be evaluated: "+unk)
			continue
		}
		assoc := func(op string) string {
			if a := ref.Assoc[em.name][op]; a != "" {
				return a
			}
			return "left"
		}
		for _, side := range []string{"left", "right"} {
			Side := strings.ToUpper(side[:1]) + side[1:]
			var missLower, missEqual []string
			for _, sc := range sortedScen(dec[side]) {
				child := sc.left
				if side == "right" {
					child = sc.right
				}
				if child == "" || assoc(sc.parent) == "function" {
					continue // not a binary expression / the parent is printed as a function call with separate arguments
				}
				need, why := false, ""
				switch {
				case prec[child] < prec[sc.parent]:
					need, why = true, "lower"
				case prec[child] == prec[sc.parent] && side == "right" && assoc(sc.parent) != "right":
					need, why = true, "equal"
				case prec[child] == prec[sc.parent] && side == "left" && assoc(sc.parent) == "right":
					need, why = true, "equal"
				}
				if need && !dec[side][sc] {
					ex := fmt.Sprintf("parent %s, %s operand %s", strings.TrimPrefix(sc.parent, "BinaryOp"), side, strings.TrimPrefix(child, "BinaryOp"))
					if why == "lower" {
						missLower = append(missLower, ex)
					} else {
						missEqual = append(missEqual, ex)
					}
				}
			}
			key := em.name + "/" + Side + " operand"
			c.Check(len(missLower) == 0, rule, key+"/lower precedence parenthesised", d.Pos(), "every "+side+" operand of lower precedence than its parent is parenthesised ("+fmt.Sprint(len(dec[side]))+" shapes evaluated)",
				"a "+side+" operand of lower precedence is printed without parentheses ("+strings.Join(firstN(missLower, 3), "; ")+"): `a * (b + c)` is emitted as `a * b + c`")
			if side == "right" {
				c.Check(len(missEqual) == 0, rule, key+"/equal precedence parenthesised", d.Pos(), "right operand parenthesised at equal precedence (left-associative operators)",
					"the right operand is printed without parentheses at equal precedence ("+strings.Join(firstN(missEqual, 3), "; ")+"): `a - (b - c)` is emitted as `a - b - c`")
			} else {
				c.Check(len(missEqual) == 0, rule, key+"/pow left operand", d.Pos(), "the left operand of a right-associative operator is parenthesised at equal precedence",
					"the left operand of a right-associative operator is printed without parentheses ("+strings.Join(firstN(missEqual, 3), "; ")+"): `(a ** b) ** c` becomes `a ** b ** c` = a ** (b ** c)")
			}
		}
	}
}

func firstN(l []string, n int) []string {
	if len(l) > n {
		return l[:n]
	}
	return l
}

// X4: operator tokens per back end vs refs/operators.json.
func ruleOperatorTokens(c *core.Ctx) {
	const rule = "X4"
	c.Rule(rule, "the token each emitter prints for a binary operator equals refs/operators.json (Python: `//` only when the resolved type is an integer, `/` otherwise)", 14)
	var ref map[string]map[string]any
	var raw map[string]any
	if err := loadRef("operators.json", &raw); err != nil {
		c.Undecided(rule, "refs/operators.json", 0, err.Error())
		return
	}
	ref = map[string]map[string]any{}
	for k, v := range raw {
		if m, ok := v.(map[string]any); ok {
			ref[k] = m
		}
	}
	c.Rule("X6", "integer division of a computed field has the same rounding in every target language: the semantics (refs/operators.json: integer_division_semantics) of the tokens the three emitters print for an integer-typed `/` agree", 1)
	intDivToken := map[string]string{}
	var intDivPos token.Pos
	for _, em := range exprEmitters {
		_, d, _ := c.Func(em.pkg, em.fn)
		if d == nil {
			c.Undecided(rule, em.name+"/anchor", 0, "emitter not found")
			continue
		}
		rows, _ := flatRows(c, em.pkg, em.fn)
		got := map[string]map[string]string{} // op -> guardclass -> token
		// the token table is evaluated: for every operator, and for an integer / non-integer result type,
		// the emissions whose guards hold under that assignment (tests on the operator written as a switch,
		// an if-chain or inside a helper; the integer test in either polarity)
		opSubj := ""
		var opEmits []gee.Row
		for _, r := range rows {
			if r.Kind != "emit" || strings.Contains(r.Tmpl, "%") || len(strings.TrimSpace(r.Tmpl)) == 0 || len(r.Tmpl) > 12 {
				continue
			}
			for _, g := range r.Guards {
				if sj, elems, _, ok := parseSetGuard(stripDsl(g)); ok && len(elems) > 0 && strings.HasPrefix(elems[0], "BinaryOp") {
					opSubj = sj
				}
			}
			opEmits = append(opEmits, r)
		}
		normAtoms := func(gs []string) []string {
			out := make([]string, len(gs))
			for i, g := range gs {
				g = stripDsl(g)
				g = okAtomRe.ReplaceAllString(g, "isprim")
				g = intAtomRe.ReplaceAllString(g, "isint")
				g = intNeAtomRe.ReplaceAllString(g, "!isint")
				// `X.Operator == BinaryOpK` spelled as a comparison
				if m := opEqRe.FindStringSubmatch(g); m != nil && opSubj == "" {
					opSubj = m[1]
				}
				out[i] = g
			}
			return out
		}
		var binOps []string
		dsc := c.Pkg("pkg/dsl").Types.Scope()
		for _, n := range dsc.Names() {
			if k, ok := dsc.Lookup(n).(*types.Const); ok && strings.HasPrefix(k.Name(), "BinaryOp") {
				binOps = append(binOps, k.Name())
			}
		}
		for _, r := range opEmits {
			normAtoms(r.Guards)
		}
		for _, op := range binOps {
			for _, cls := range []string{"int", "other"} {
				asg := map[string]string{opSubj: op, "isprim": "true", "isint": map[string]string{"int": "true", "other": "false"}[cls]}
				for _, o2 := range binOps {
					asg[opSubj+" == "+o2] = map[bool]string{true: "true", false: "false"}[o2 == op]
				}
				var toks []string
				for _, r := range opEmits {
					gs := normAtoms(r.Guards)
					mentionsOp := false
					for _, g := range gs {
						// a positive test on the operator (a switch clause, `op == K`); the negated continuation
						// guards after an early return do not select an operator
						if strings.Contains(g, "BinaryOp") && !strings.HasPrefix(g, "!") {
							mentionsOp = true
						}
					}
					if !mentionsOp {
						continue
					}
					if sat, _ := guardSat(gs, asg); sat {
						toks = append(toks, r.Tmpl)
					}
				}
				toks = uniq(toks)
				if len(toks) == 0 {
					continue
				}
				if got[op] == nil {
					got[op] = map[string]string{}
				}
				got[op][cls] = toks[0] // the first token printed under the operator's own clause
			}
			if got[op] != nil && got[op]["int"] == got[op]["other"] {
				got[op]["any"] = got[op]["int"]
			}
		}
		// second engine: the binary-expression case evaluated over the finite domain (operator x integer/other result
		// type). It sees through lookup tables, helper functions, closures and loops over literal tables, which the
		// row extraction above does not; where it can decide, its answer is taken.
		if _, ed, ep := c.Func(em.pkg, em.fn); ed != nil {
			dec, why := tokenDecisions(c, ep.TypesInfo, ed, binOps)
			if dec == nil {
				c.Tables["X4_engine/"+em.name] = "row extraction (finite-domain evaluation undecided: " + why + ")"
			} else {
				c.Tables["X4_engine/"+em.name] = "finite-domain evaluation"
			}
			if dec != nil {
				for op, m := range dec {
					got[op] = map[string]string{"int": m["int"], "other": m["other"]}
					if m["int"] == m["other"] {
						got[op]["any"] = m["int"]
					}
				}
			}
		}
		recordIntDiv := func() {
			if t, ok := got["BinaryOpDiv"]["int"]; ok {
				intDivToken[em.name] = t
			} else if t, ok := got["BinaryOpDiv"]["any"]; ok {
				intDivToken[em.name] = t
			}
			intDivPos = d.Pos()
		}
		recordIntDiv()
		for op, want := range ref[em.name] {
			key := em.name + "/" + op
			switch w := want.(type) {
			case string:
				g := got[op]["any"]
				c.Check(g == w, rule, key, d.Pos(), "emits `"+g+"`", fmt.Sprintf("emits `%s` for %s, the reference token is `%s`", g, op, w))
			case map[string]any:
				for cls, wt := range w {
					g := got[op][cls]
					c.Check(g == wt.(string), rule, key+"/"+cls, d.Pos(), "emits `"+g+"` when the result type is "+cls,
						fmt.Sprintf("emits `%s` for %s when the result type is %s (all: %v), the reference token is `%s`", g, op, cls, got[op], wt))
				}
			}
		}
	}
	// X6: same rounding of integer division everywhere
	sem, _ := raw["integer_division_semantics"].(map[string]any)
	var parts []string
	distinct := map[string]bool{}
	undecided := false
	for _, em := range exprEmitters {
		tok := intDivToken[em.name]
		m, _ := sem[em.name].(map[string]any)
		what, ok := m[tok].(string)
		if !ok {
			undecided = true
			parts = append(parts, fmt.Sprintf("%s `%s`: semantics not in the reference table", em.name, tok))
			continue
		}
		cls := what
		if i := strings.Index(what, " ("); i > 0 {
			cls = what[:i]
		}
		distinct[cls] = true
		parts = append(parts, fmt.Sprintf("%s `%s` %s", em.name, tok, what))
	}
	sort.Strings(parts)
	switch {
	case undecided || len(sem) == 0:
		c.Undecided("X6", "BinaryOpDiv/int", intDivPos, strings.Join(parts, "; "))
	case len(distinct) == 1:
		c.OK("X6", "BinaryOpDiv/int", intDivPos, strings.Join(parts, "; "))
	default:
		c.Bad("X6", "BinaryOpDiv/int", intDivPos, "an integer-typed `a / b` in a computed field is rounded differently per target language: "+strings.Join(parts, "; "))
	}
}

// opName maps a constant's numeric canonical text (BinaryOperator is an int) back to its name.
func opName(c *core.Ctx, s string) string {
	if strings.HasPrefix(s, "BinaryOp") {
		return s
	}
	s = strings.TrimPrefix(s, "dsl.")
	if strings.HasPrefix(s, "BinaryOp") {
		return s
	}
	sc := c.Pkg("pkg/dsl").Types.Scope()
	for _, n := range sc.Names() {
		if k, ok := sc.Lookup(n).(*types.Const); ok && strings.HasPrefix(k.Name(), "BinaryOp") && k.Val().ExactString() == s {
			return k.Name()
		}
	}
	return s
}

// X5: every successful typing of an arithmetic expression applies the small-integer
// promotion (or is the ** branch): in resolveComputedFields' *BinaryExpression case no
// return bypasses the promotion switch except the early exits for unresolved operands,
// reported errors and the power operator.
func rulePromotionNotBypassed(c *core.Ctx) {
	const rule = "X5"
	c.Rule(rule, "resolveComputedFields: every return of the *BinaryExpression case passes the int8/uint8/int16/uint16 → int32 promotion switch, or is an unresolved-operand exit, an error exit, or the ** branch", 4)
	_, d, p := c.Func("pkg/dsl", "resolveComputedFields")
	if d == nil {
		c.Undecided(rule, "anchor/pkg/dsl.resolveComputedFields", 0, "anchor not found")
		return
	}
	info := p.TypesInfo
	var clause *ast.CaseClause
	var lit *ast.FuncLit
	ast.Inspect(d.Body, func(n ast.Node) bool {
		if fl, ok := n.(*ast.FuncLit); ok {
			ast.Inspect(fl.Body, func(m ast.Node) bool {
				if _, nested := m.(*ast.FuncLit); nested && m != ast.Node(fl) {
					return false
				}
				if cc, ok := m.(*ast.CaseClause); ok && len(cc.List) == 1 && types.ExprString(cc.List[0]) == "*BinaryExpression" && clause == nil {
					clause, lit = cc, fl
				}
				return true
			})
		}
		return true
	})
	if clause == nil {
		c.Undecided(rule, "resolveComputedFields/case *BinaryExpression", d.Pos(), "case not found")
		return
	}
	// the promotion switch: case list mentions Int8, Uint8, Int16, Uint16 and the body assigns Int32Type
	var promo *ast.SwitchStmt
	for _, s := range clause.Body {
		if sw, ok := s.(*ast.SwitchStmt); ok {
			txt := ""
			for _, cl := range sw.Body.List {
				for _, e := range cl.(*ast.CaseClause).List {
					txt += types.ExprString(e) + ","
				}
				for _, b := range cl.(*ast.CaseClause).Body {
					if as, ok := b.(*ast.AssignStmt); ok {
						txt += "=" + types.ExprString(as.Rhs[0])
					}
				}
			}
			if strings.Contains(txt, "Int8,") && strings.Contains(txt, "Uint8,") && strings.Contains(txt, "Int16,") && strings.Contains(txt, "Uint16,") && strings.Contains(txt, "=Int32Type") {
				promo = sw
			}
		}
	}
	if promo == nil {
		c.Bad(rule, "resolveComputedFields/promotion switch", clause.Pos(), "the int8/uint8/int16/uint16 → int32 promotion switch is gone from the *BinaryExpression case: narrow integer arithmetic keeps its narrow static type and overflows differently per language")
		return
	}
	fc := core.NewCFG(lit.Body, info)
	pb := fc.BlockOf(promo.Tag)
	if pb == nil {
		c.Undecided(rule, "resolveComputedFields/promotion switch", promo.Pos(), "promotion switch not in CFG")
		return
	}
	entry := fc.BlockOf(clause.Body[0])
	reach := fc.ReachableBlocks(entry, nil, map[*cfg.Block]bool{pb: true})
	n := 0
	for _, s := range clause.Body {
		ast.Inspect(s, func(m ast.Node) bool {
			if _, nested := m.(*ast.FuncLit); nested {
				return false
			}
			ret, ok := m.(*ast.ReturnStmt)
			if !ok {
				return true
			}
			n++
			key := fmt.Sprintf("resolveComputedFields/BinaryExpression/return#%d", n)
			rb := fc.BlockOf(ret)
			if rb == nil || !reach[rb] {
				c.OK(rule, key, ret.Pos(), "reached only through the promotion switch")
				return true
			}
			cond := enclosingIfCondIn(clause.Body, ret)
			ct := ""
			if cond != nil {
				ct = core.ExprStringNoParens(core.InlineLocals(info, lit.Body, cond)) // explaining locals resolved
			}
			switch {
			case strings.Contains(ct, "GetResolvedType() == nil"):
				c.OK(rule, key, ret.Pos(), "unresolved operand: nothing to type")
			case strings.Contains(ct, "err != nil"):
				c.OK(rule, key, ret.Pos(), "error exit (operator not defined)")
			case strings.Contains(ct, "BinaryOpPow"):
				c.OK(rule, key, ret.Pos(), "** branch: integers are converted to float64")
			default:
				c.Bad(rule, key, ret.Pos(), "this return types the expression without passing the small-integer promotion (guard: `"+ct+"`): e.g. uint8 + uint8 keeps type uint8, C++ truncates the sum while Python does not")
			}
			return true
		})
	}
}

func enclosingIfCondIn(list []ast.Stmt, n ast.Node) ast.Expr {
	var cond ast.Expr
	for _, s := range list {
		ast.Inspect(s, func(x ast.Node) bool {
			if is, ok := x.(*ast.IfStmt); ok && is.Body.Pos() <= n.Pos() && n.End() <= is.Body.End() {
				cond = is.Cond
			}
			return true
		})
	}
	return cond
}
