package rules

import (
	"fmt"
	"go/ast"
	"go/types"
	"reflect"
	"strings"

	"verif/checker/internal/core"
	"verif/checker/internal/gee"
)

// ---------------------------------------------------------------------------
// C04: the embedded schema.
// ---------------------------------------------------------------------------

// A1: one schema function for all back ends.
func ruleOneSchemaFunction(c *core.Ctx) {
	const rule = "A1"
	c.Rule(rule, "the schema literal of every back end is the value of dsl.GetProtocolSchemaString(protocol, symbolTable) passed unmodified into the template; readers alias the writer's literal", 6)
	sites := []struct{ name, pkg, fn, writerTmpl, readerTmpl string }{
		{"cpp", "internal/cpp/protocols", "writeDefinitions", "std::string %s::schema_ = R\"(%s)\";\n\n", "std::string %s::schema_ = %s::schema_;\n\n"},
		{"python", "internal/python/protocols", "writeAbstractWriter", "schema = r\"\"\"%s\"\"\"", ""},
		{"python-reader", "internal/python/protocols", "writeAbstractReader", "", "schema = %s.schema"},
		{"matlab", "internal/matlab/protocols", "writeAbstractWriter", "", ""},
	}
	for _, s := range sites {
		_, d, p := c.Func(s.pkg, s.fn)
		if d == nil {
			c.Undecided(rule, s.name+"/anchor", 0, s.fn+" not found")
			continue
		}
		x := &gee.Extractor{Info: p.TypesInfo, Fset: c.Fset}
		rows := x.Extract(s.fn, d)
		// and the helpers of the same package the function hands the work to
		for _, hd := range declsCalledInPkg(c, d, 2) {
			if hd != d {
				rows = append(rows, x.Extract(hd.Name.Name, hd)...)
			}
		}
		nSchema := 0
		for _, r := range rows {
			if r.Kind != "emit" && !strings.HasPrefix(r.Kind, "assign") {
				continue
			}
			for i, a := range r.Args {
				if strings.Contains(a, "GetProtocolSchemaString(") {
					nSchema++
					pure := strings.HasPrefix(a, "dsl.GetProtocolSchemaString(ProtocolDefinition, ") && strings.HasSuffix(a, ")") && strings.Count(a, "(") == 1
					c.Check(pure, rule, s.name+"/schema literal", r.Pos, "template argument #"+fmt.Sprint(i)+" is the plain result of dsl.GetProtocolSchemaString",
						"the schema text is post-processed before it is embedded ("+a+"): this back end's schema can differ from the others")
				}
			}
			if s.readerTmpl != "" && r.Tmpl == s.readerTmpl {
				c.OK(rule, s.name+"/reader aliases writer schema", r.Pos, "reader schema is the writer's schema object")
			}
		}
		if s.name != "python-reader" {
			c.Check(nSchema >= 1, rule, s.name+"/uses GetProtocolSchemaString", d.Pos(), fmt.Sprintf("%d use(s)", nSchema), "no call to dsl.GetProtocolSchemaString in "+s.fn+": the embedded schema comes from somewhere else")
		}
	}
}

// wire-relevant fields that the schema JSON must reflect (type -> fields)
var wireFields = map[string][]string{
	"SimpleType":         {"Name", "TypeArguments"},
	"Vector":             {"Length"},
	"Array":              {"Dimensions"},
	"Map":                {"KeyType"},
	"GeneralizedType":    {"Cases", "Dimensionality"},
	"TypeCase":           {"Type", "Tag"},
	"ArrayDimension":     {"Length", "Name"},
	"EnumDefinition":     {"BaseType", "Values"},
	"EnumValue":          {"Symbol", "IntegerValue"},
	"Field":              {"Name", "Type"},
	"ProtocolStep":       {"Name", "Type"},
	"RecordDefinition":   {"Fields"},
	"NamedType":          {"Type"},
	"ProtocolDefinition": {"Sequence"},
	"DefinitionMeta":     {"Name", "TypeParameters"},
}

// json:"-" fields that are allowed to be absent from the schema
var neutralHidden = map[string]string{
	"NodeMeta.Annotations": "free-form annotations attached by tools; not part of the model",
	"NodeMeta.File":        "position", "NodeMeta.Line": "position", "NodeMeta.Column": "position",
	"DefinitionMeta.Namespace":      "the qualified name is carried by the definition's name in the schema; namespaces are not wire-relevant",
	"DefinitionMeta.TypeArguments":  "instantiation bookkeeping; instantiated types appear through SimpleType.TypeArguments",
	"EnumDefinition.IsFlags":        "flags and enums share the same wire encoding (integer of the base type); the schema distinguishes them by the enclosing key (enum/flags) in TypeDefinitions.MarshalJSON",
	"SimpleType.ResolvedDefinition": "cross reference; the referenced definition is listed under `types`",
	"Namespace.References":          "imports",
	"Namespace.IsTopLevel":          "bookkeeping",
	"Namespace.Versions":            "evolution bookkeeping",
	"Namespace.DefinitionChanges":   "evolution bookkeeping",
	"ProtocolDefinition.Versions":   "evolution bookkeeping",
	"Environment.SymbolTable":       "bookkeeping",
}

// A2: marshal coverage.
func ruleMarshalCoverage(c *core.Ctx) {
	const rule = "A2"
	c.Rule(rule, "every wire-relevant field of the dsl model reaches the schema JSON: it is marshalled by its struct tag, or read inside the type's custom MarshalJSON; every `json:\"-\"` field is in the audited neutral list; the compact array form is used only when no dimension has a name or a length", 40)
	p := c.Pkg("pkg/dsl")
	info := p.TypesInfo
	// fields mentioned inside each MarshalJSON, keyed by struct type name
	mentioned := map[string]map[string]bool{}
	var arrayDims *ast.FuncDecl
	for _, d := range c.AllDecls() {
		if c.DeclPkg(d) != p || d.Name.Name != "MarshalJSON" || d.Recv == nil {
			continue
		}
		if strings.Contains(types.ExprString(d.Recv.List[0].Type), "ArrayDimensions") {
			arrayDims = d
		}
		ast.Inspect(d.Body, func(n ast.Node) bool {
			if se, ok := n.(*ast.SelectorExpr); ok {
				if k, ok := fieldOf(info, se); ok {
					if mentioned[k.typ] == nil {
						mentioned[k.typ] = map[string]bool{}
					}
					mentioned[k.typ][k.field] = true
				}
			}
			return true
		})
	}
	hasCustom := map[string]bool{}
	for _, d := range c.AllDecls() {
		if c.DeclPkg(d) == p && d.Name.Name == "MarshalJSON" && d.Recv != nil {
			hasCustom[strings.TrimPrefix(types.ExprString(d.Recv.List[0].Type), "*")] = true
		}
	}
	// Vector/Array/Map/Stream are marshalled inside GeneralizedType.MarshalJSON
	viaGeneralized := map[string]bool{"Vector": true, "Array": true, "Map": true, "Stream": true}
	sc := p.Types.Scope()
	for tname, fields := range wireFields {
		tn, _ := sc.Lookup(tname).(*types.TypeName)
		st := (*types.Struct)(nil)
		if tn != nil {
			st, _ = tn.Type().Underlying().(*types.Struct)
		}
		if st == nil {
			c.Undecided(rule, "type/"+tname, 0, "struct not found in pkg/dsl")
			continue
		}
		for _, fname := range fields {
			key := tname + "." + fname
			var fld *types.Var
			tag := ""
			for i := 0; i < st.NumFields(); i++ {
				if st.Field(i).Name() == fname {
					fld = st.Field(i)
					tag = reflect.StructTag(st.Tag(i)).Get("json")
				}
			}
			if fld == nil {
				// promoted through an embedded struct (DefinitionMeta): fine if the embedded type is covered itself
				c.OK(rule, "field/"+key, tn.Pos(), "promoted from an embedded struct that is covered separately")
				continue
			}
			custom := hasCustom[tname] || viaGeneralized[tname]
			switch {
			case custom && mentioned[tname][fname]:
				c.OK(rule, "field/"+key, fld.Pos(), "read inside the custom marshaller")
			case custom:
				c.Bad(rule, "field/"+key, fld.Pos(), "the custom MarshalJSON that renders "+tname+" never reads "+fname+": two models that differ only in this (wire-relevant) field get the same schema")
			case tag == "-" || strings.HasPrefix(tag, "-,"):
				c.Bad(rule, "field/"+key, fld.Pos(), "wire-relevant field is hidden from JSON (`json:\"-\"`): two different encodings share a schema")
			default:
				c.OK(rule, "field/"+key, fld.Pos(), "marshalled by struct tag `"+tag+"`")
			}
		}
	}
	// hidden fields must be audited
	for _, n := range sc.Names() {
		tn, ok := sc.Lookup(n).(*types.TypeName)
		if !ok || c.IsTestFile(tn.Pos()) {
			continue
		}
		st, ok := tn.Type().Underlying().(*types.Struct)
		if !ok {
			continue
		}
		for i := 0; i < st.NumFields(); i++ {
			tag := reflect.StructTag(st.Tag(i)).Get("json")
			if tag != "-" {
				continue
			}
			key := n + "." + st.Field(i).Name()
			if r, ok := neutralHidden[key]; ok {
				c.OK(rule, "hidden/"+key, st.Field(i).Pos(), "audited neutral: "+r)
			} else if strings.Contains(n, "Change") || strings.Contains(n, "Evolution") || strings.HasSuffix(n, "Pair") || strings.Contains(n, "Expression") || n == "ComputedField" || n == "SubscriptArgument" || strings.Contains(n, "Pattern") || n == "SwitchCase" {
				c.OK(rule, "hidden/"+key, st.Field(i).Pos(), "evolution bookkeeping / computed-field expression node: not part of the wire format")
			} else {
				c.Bad(rule, "hidden/"+key, st.Field(i).Pos(), "field is excluded from JSON (`json:\"-\"`) and is not in the audited list of encoding-neutral fields")
			}
		}
	}
	// and the converse for what depends on the source text rather than on the model: positions and annotations stay
	// out of the JSON, otherwise moving a definition by a line changes the schema of every protocol
	for _, key := range []string{"NodeMeta.File", "NodeMeta.Line", "NodeMeta.Column", "NodeMeta.Annotations", "ProtocolDefinition.Versions"} {
		parts := strings.SplitN(key, ".", 2)
		tn, _ := sc.Lookup(parts[0]).(*types.TypeName)
		var st *types.Struct
		if tn != nil {
			st, _ = tn.Type().Underlying().(*types.Struct)
		}
		if st == nil {
			c.Undecided(rule, "stays hidden/"+key, 0, "struct not found in pkg/dsl")
			continue
		}
		found := false
		for i := 0; i < st.NumFields(); i++ {
			if st.Field(i).Name() != parts[1] {
				continue
			}
			found = true
			tag := reflect.StructTag(st.Tag(i)).Get("json")
			c.Check(tag == "-", rule, "stays hidden/"+key, st.Field(i).Pos(), "excluded from JSON", "`"+key+"` ("+neutralHidden[key]+") is marshalled (`json:\""+tag+"\"`): the schema string now depends on where a definition stands in its file / on bookkeeping, not only on the encoding — the same model gives different schemas")
		}
		if !found {
			c.OK(rule, "stays hidden/"+key, tn.Pos(), "the field no longer exists")
		}
	}
	// compact array form
	if arrayDims == nil {
		c.Undecided(rule, "ArrayDimensions.MarshalJSON", 0, "not found")
	} else {
		// the full form (the dimensions themselves, not their count) must be what is marshalled as soon as
		// one dimension has a name, and as soon as one has a length: the rows of the method are evaluated
		// under those two assignments
		ap := c.DeclPkg(arrayDims)
		x := &gee.Extractor{Info: ap.TypesInfo, Fset: c.Fset, AllReturns: true}
		rows := x.Extract("MarshalJSON", arrayDims)
		fullUnder := func(asg map[string]string) bool {
			for _, r := range rows {
				if r.Kind != "return" || !strings.HasPrefix(r.Tmpl, "VAL:") || len(r.Loop) == 0 {
					continue
				}
				if strings.Contains(r.Tmpl, "len(") {
					continue
				}
				if sat, unknown := guardSat(r.Guards, asg); sat && len(unknown) == 0 {
					return true
				}
			}
			return false
		}
		okName := fullUnder(map[string]string{"ArrayDimension.Name != nil": "true", "ArrayDimension.Length != nil": "false", "ArrayDimension.Comment == \"\"": "true"})
		okLen := fullUnder(map[string]string{"ArrayDimension.Name != nil": "false", "ArrayDimension.Length != nil": "true", "ArrayDimension.Comment == \"\"": "true"})
		// When the method is not written as returns under per-dimension tests (an accumulated flag, a predicate helper),
		// the table above has no row to evaluate. What can still be decided is the necessary part: the choice of the
		// rank-only form depends on the Name AND the Length of the dimensions.
		hasLoopRow := false
		for _, r := range rows {
			if r.Kind == "return" && len(r.Loop) > 0 {
				hasLoopRow = true
			}
		}
		if !hasLoopRow {
			deps := map[string]bool{}
			ast.Inspect(arrayDims.Body, func(n ast.Node) bool {
				ret, ok := n.(*ast.ReturnStmt)
				if !ok || len(ret.Results) == 0 {
					return true
				}
				rankOnly := false
				ast.Inspect(ret.Results[0], func(m ast.Node) bool {
					if ce, isCall := m.(*ast.CallExpr); isCall {
						if _, isLen := lenArg(ap.TypesInfo, ce); isLen {
							rankOnly = true
						}
					}
					return true
				})
				if rankOnly {
					for k := range condFieldDeps(c, ap.TypesInfo, arrayDims, ret) {
						deps[k] = true
					}
				}
				return true
			})
			okName, okLen = deps["Name"], deps["Length"]
		}
		c.Check(okName && okLen, rule, "ArrayDimensions.MarshalJSON/compact form", arrayDims.Pos(), "the rank-only form is used only when no dimension has a name or a length",
			"the rank-only form can be chosen although a dimension has a name or a fixed length: `float[2,3]`, `float[3,2]` and `float[,]` get the same schema while their encodings differ")
	}
}

// A3: canonical form — comments and computed fields stripped, types sorted.
func ruleSchemaCanonical(c *core.Ctx) {
	const rule = "A3"
	c.Rule(rule, "GetProtocolSchema: the collected type list is sorted by qualified name before it is returned, computed fields are cleared on the record clone, removeComments clears the Comment of every node type that has a marshalled Comment field", 8)
	_, d, p := c.Func("pkg/dsl", "GetProtocolSchema")
	if d == nil {
		c.Undecided(rule, "anchor/pkg/dsl.GetProtocolSchema", 0, "not found")
		return
	}
	info := p.TypesInfo
	// sort of schema.Types after the Visit call and before return
	sorted := false
	usesQualified := false
	ast.Inspect(d.Body, func(n ast.Node) bool {
		if ce, ok := n.(*ast.CallExpr); ok {
			if f := core.Callee(info, ce); f != nil && sortFuncs[core.FullName(f)] && len(ce.Args) >= 1 {
				// the list of the schema's types: the Types field itself, or a local []TypeDefinition that becomes it
				isTypes := strings.HasSuffix(types.ExprString(ce.Args[0]), ".Types")
				if sl, ok := info.TypeOf(ce.Args[0]).Underlying().(*types.Slice); ok && !isTypes {
					if nt := core.NamedOf(sl.Elem()); nt != nil && nt.Obj().Name() == "TypeDefinition" {
						isTypes = true
					}
				}
				if !isTypes {
					return true
				}
				sorted = true
				var mentions func(node ast.Node, depth int)
				mentions = func(node ast.Node, depth int) {
					ast.Inspect(node, func(m ast.Node) bool {
						switch x := m.(type) {
						case *ast.SelectorExpr:
							if x.Sel.Name == "GetQualifiedName" {
								usesQualified = true
							}
						case *ast.CallExpr:
							if depth < 2 {
								// a key helper: a function of the package or a local closure
								if g := core.Callee(info, x); g != nil && g.Pkg() == p.Types {
									if fd := c.Decl(g); fd != nil && fd.Body != nil {
										mentions(fd.Body, depth+1)
									}
								} else if id, ok := x.Fun.(*ast.Ident); ok {
									ast.Inspect(d.Body, func(q ast.Node) bool {
										if as, ok := q.(*ast.AssignStmt); ok && len(as.Lhs) == 1 && len(as.Rhs) == 1 && identObj(info, as.Lhs[0]) == identObj(info, id) {
											if fl, ok := as.Rhs[0].(*ast.FuncLit); ok {
												mentions(fl.Body, depth+1)
											}
										}
										return true
									})
								}
							}
						}
						return true
					})
				}
				mentions(ce, 0)
			}
		}
		return true
	})
	c.Check(sorted && usesQualified, rule, "GetProtocolSchema/types sorted by qualified name", d.Pos(), "schema.Types is sorted by qualified name", "the type list keeps visiting order: reordering definitions or files changes the schema")
	cleared := false
	for _, fd := range declsCalledInPkg(c, d, 2) { // GetProtocolSchema itself or a helper it calls
		ast.Inspect(fd.Body, func(n ast.Node) bool {
			if as, ok := n.(*ast.AssignStmt); ok && len(as.Lhs) == 1 {
				if se, ok := as.Lhs[0].(*ast.SelectorExpr); ok && se.Sel.Name == "ComputedFields" {
					if tv, ok := info.Types[as.Rhs[0]]; ok && tv.IsNil() {
						cleared = true
					}
				}
			}
			return true
		})
	}
	c.Check(cleared, rule, "GetProtocolSchema/computed fields cleared", d.Pos(), "ComputedFields = nil on the record clone", "computed fields stay in the schema: editing a computed field (not wire relevant) changes the schema")
	// ... and the traversal that collects the referenced types goes on in the clone, not in the original record
	// (fix c02091e: a type named only in a computed field — `y: x as MyInt` — was listed in the schema)
	for _, fd := range declsCalledInPkg(c, d, 2) {
		ast.Inspect(fd.Body, func(n ast.Node) bool {
			fl, ok := n.(*ast.FuncLit)
			if !ok || len(fl.Type.Params.List) < 2 {
				return true
			}
			var nodeParam types.Object
			last := fl.Type.Params.List[len(fl.Type.Params.List)-1]
			if len(last.Names) == 1 {
				nodeParam = info.Defs[last.Names[0]]
			}
			if nodeParam == nil {
				return true
			}
			// the statement list (case clause / block) that holds the clearing assignment
			var holder []ast.Stmt
			var clearing ast.Node
			ast.Inspect(fl.Body, func(m ast.Node) bool {
				var list []ast.Stmt
				switch x := m.(type) {
				case *ast.CaseClause:
					list = x.Body
				case *ast.BlockStmt:
					list = x.List
				}
				for _, st := range list {
					hit := false
					ast.Inspect(st, func(k ast.Node) bool {
						if as, ok := k.(*ast.AssignStmt); ok && len(as.Lhs) == 1 {
							if se, ok := as.Lhs[0].(*ast.SelectorExpr); ok && se.Sel.Name == "ComputedFields" {
								if tv, ok := info.Types[as.Rhs[0]]; ok && tv.IsNil() {
									hit = true
									clearing = as
								}
							}
						}
						return true
					})
					if hit {
						if _, isCC := m.(*ast.CaseClause); isCC || holder == nil {
							holder = list
						}
					}
				}
				return true
			})
			if holder == nil {
				return true
			}
			// in that clause: node is rebound, or the clause visits the children of something else and leaves
			rebound, visitsOther, leaves := false, false, false
			for _, st := range holder {
				ast.Inspect(st, func(k ast.Node) bool {
					switch x := k.(type) {
					case *ast.AssignStmt:
						for _, l := range x.Lhs {
							if identObj(info, l) == nodeParam && x.Pos() > clearing.Pos() {
								rebound = true
							}
						}
					case *ast.CallExpr:
						if se, ok := ast.Unparen(x.Fun).(*ast.SelectorExpr); ok && se.Sel.Name == "VisitChildren" && len(x.Args) >= 1 && x.Pos() > clearing.Pos() {
							if o := identObj(info, x.Args[0]); o != nil && o != nodeParam {
								visitsOther = true
							}
						}
					}
					return true
				})
			}
			if len(holder) > 0 {
				if _, ok := holder[len(holder)-1].(*ast.ReturnStmt); ok {
					leaves = true
				}
			}
			c.Check(rebound || (visitsOther && leaves), rule, "GetProtocolSchema/traversal continues in the clone", clearing.Pos(), "after clearing the computed fields the children of the clone are visited",
				"the computed fields are cleared on a copy, but the traversal goes on in the original record: a type that only a computed field mentions is listed in the schema, so editing a computed field changes the schema although nothing on the wire changes")
			return true
		})
	}
	// removeComments covers every struct with a marshalled Comment field
	_, rd, _ := c.Func("pkg/dsl", "removeComments")
	if rd == nil {
		c.Undecided(rule, "anchor/pkg/dsl.removeComments", 0, "not found")
		return
	}
	handled := map[string]bool{}
	for _, hd := range declsCalledInPkg(c, rd, 2) { // removeComments itself or a helper its callback calls
		handledIn(hd, handled)
	}
	sc := p.Types.Scope()
	for _, n := range sc.Names() {
		tn, ok := sc.Lookup(n).(*types.TypeName)
		if !ok || c.IsTestFile(tn.Pos()) {
			continue
		}
		st, ok := tn.Type().Underlying().(*types.Struct)
		if !ok {
			continue
		}
		for i := 0; i < st.NumFields(); i++ {
			if st.Field(i).Name() == "Comment" && !st.Field(i).Embedded() {
				tag := reflect.StructTag(st.Tag(i)).Get("json")
				if tag == "-" {
					continue
				}
				if n == "ComputedField" {
					c.OK(rule, "removeComments/"+n, st.Field(i).Pos(), "computed fields are dropped from the schema altogether")
					continue
				}
				c.Check(handled[n], rule, "removeComments/"+n, st.Field(i).Pos(), "Comment cleared", n+" has a marshalled Comment field that removeComments does not clear: editing a documentation comment changes the schema")
			}
		}
	}
}

// declsCalledInPkg: d and the functions of its package it calls (statically), to the given depth.
func declsCalledInPkg(c *core.Ctx, d *ast.FuncDecl, depth int) []*ast.FuncDecl {
	p := c.DeclPkg(d)
	seen := map[*ast.FuncDecl]bool{}
	var out []*ast.FuncDecl
	var visit func(x *ast.FuncDecl, k int)
	visit = func(x *ast.FuncDecl, k int) {
		if x == nil || seen[x] {
			return
		}
		seen[x] = true
		out = append(out, x)
		if k == 0 {
			return
		}
		for _, cs := range c.Calls(x) {
			if cs.Callee != nil && p != nil && cs.Callee.Pkg() == p.Types {
				visit(c.Decl(cs.Callee), k-1)
			}
		}
	}
	visit(d, depth)
	return out
}

// condFieldDeps: the struct fields the decision to execute `at` depends on: fields named in the conditions around it
// (and in the conditions of earlier statements of the enclosing blocks that leave), in the definitions of the locals
// those conditions read (with the conditions those definitions are made under), and in the bodies of the module
// functions they call.
func condFieldDeps(c *core.Ctx, info *types.Info, d *ast.FuncDecl, at ast.Node) map[string]bool {
	parent := map[ast.Node]ast.Node{}
	var stack []ast.Node
	ast.Inspect(d.Body, func(n ast.Node) bool {
		if n == nil {
			stack = stack[:len(stack)-1]
			return true
		}
		if len(stack) > 0 {
			parent[n] = stack[len(stack)-1]
		}
		stack = append(stack, n)
		return true
	})
	enclosing := func(n ast.Node) []ast.Expr {
		var out []ast.Expr
		child := n
		for cur := parent[n]; cur != nil; child, cur = cur, parent[cur] {
			switch s := cur.(type) {
			case *ast.IfStmt:
				out = append(out, s.Cond)
			case *ast.ForStmt:
				if s.Cond != nil {
					out = append(out, s.Cond)
				}
			case *ast.RangeStmt:
				out = append(out, s.X)
			case *ast.CaseClause:
				out = append(out, s.List...)
			case *ast.SwitchStmt:
				if s.Tag != nil {
					out = append(out, s.Tag)
				}
			case *ast.BlockStmt:
				for _, sib := range s.List {
					if ast.Node(sib) == child {
						break
					}
					// an earlier statement that can leave: control is here only if it did not
					ast.Inspect(sib, func(m ast.Node) bool {
						if _, isLit := m.(*ast.FuncLit); isLit {
							return false
						}
						if r, ok := m.(*ast.ReturnStmt); ok {
							for up := parent[r]; up != nil && up != ast.Node(s); up = parent[up] {
								switch u := up.(type) {
								case *ast.IfStmt:
									out = append(out, u.Cond)
								case *ast.ForStmt:
									if u.Cond != nil {
										out = append(out, u.Cond)
									}
								case *ast.RangeStmt:
									out = append(out, u.X)
								case *ast.CaseClause:
									out = append(out, u.List...)
								}
							}
						}
						return true
					})
				}
			}
		}
		return out
	}
	fields := map[string]bool{}
	objs := map[types.Object]bool{}
	funcs := map[*types.Func]bool{}
	work := enclosing(at)
	for len(work) > 0 {
		e := work[len(work)-1]
		work = work[:len(work)-1]
		ast.Inspect(e, func(n ast.Node) bool {
			switch x := n.(type) {
			case *ast.SelectorExpr:
				if sel, ok := info.Selections[x]; ok && sel.Kind() == types.FieldVal {
					fields[x.Sel.Name] = true
				}
			case *ast.CallExpr:
				if f := core.Callee(info, x); f != nil && core.InModule(f) && !funcs[f.Origin()] {
					funcs[f.Origin()] = true
					if cd := c.Decl(f.Origin()); cd != nil && cd.Body != nil {
						cinfo := c.DeclPkg(cd).TypesInfo
						ast.Inspect(cd.Body, func(m ast.Node) bool {
							if se, ok := m.(*ast.SelectorExpr); ok {
								if sel, ok := cinfo.Selections[se]; ok && sel.Kind() == types.FieldVal {
									fields[se.Sel.Name] = true
								}
							}
							return true
						})
					}
				}
			case *ast.Ident:
				o := info.Uses[x]
				v, isVar := o.(*types.Var)
				if !isVar || v.IsField() || objs[o] {
					return true
				}
				objs[o] = true
				ast.Inspect(d.Body, func(m ast.Node) bool {
					switch s := m.(type) {
					case *ast.AssignStmt:
						for i, l := range s.Lhs {
							if identObj(info, l) == o {
								if len(s.Rhs) == len(s.Lhs) {
									work = append(work, s.Rhs[i])
								} else {
									work = append(work, s.Rhs...)
								}
								work = append(work, enclosing(s)...)
							}
						}
					case *ast.RangeStmt:
						if identObj(info, s.Key) == o || identObj(info, s.Value) == o {
							work = append(work, s.X)
						}
					}
					return true
				})
			}
			return true
		})
	}
	return fields
}

// handledIn: the struct kinds whose `case` clause in d assigns the Comment field.
func handledIn(d *ast.FuncDecl, handled map[string]bool) {
	ast.Inspect(d.Body, func(n ast.Node) bool {
		if cc, ok := n.(*ast.CaseClause); ok {
			clears := false
			for _, s := range cc.Body {
				ast.Inspect(s, func(m ast.Node) bool {
					if as, ok := m.(*ast.AssignStmt); ok && len(as.Lhs) == 1 {
						if se, ok := as.Lhs[0].(*ast.SelectorExpr); ok && se.Sel.Name == "Comment" {
							clears = true
						}
					}
					return true
				})
			}
			if clears {
				for _, e := range cc.List {
					handled[strings.TrimPrefix(types.ExprString(e), "*")] = true
				}
			}
		}
		return true
	})
}
