package rules

import (
	"fmt"
	"go/ast"
	"go/token"
	"go/types"
	"path/filepath"
	"sort"
	"strings"

	"verif/checker/internal/core"
)

// Fields of the dsl model that one validation pass produces and later passes consume.
// Confirmed by reading; the rule re-verifies on every run that the producer does write
// the field.
var producedFields = []struct{ typ, field, producer, why string }{
	{"SimpleType", "ResolvedDefinition", "resolveTypes", "name resolution result; nil before resolveTypes for every named type"},
	{"DefinitionMeta", "Namespace", "buildSymbolTable", "set while the symbol table is built"},
	{"Environment", "SymbolTable", "buildSymbolTable", "entries are added by buildSymbolTable"},
}

// traversal helpers that only follow child links; their bodies are not part of a pass's read set
func isTraversalFile(c *core.Ctx, pos token.Pos) bool {
	b := filepath.Base(c.Fset.Position(pos).Filename)
	return b == "visitor.go" || b == "rewriter.go"
}

type fieldKey struct{ typ, field string }

type rwSet struct {
	reads  map[fieldKey]token.Pos
	writes map[fieldKey]token.Pos
}

func fieldOf(info *types.Info, sel *ast.SelectorExpr) (fieldKey, bool) {
	s, ok := info.Selections[sel]
	if !ok || s.Kind() != types.FieldVal {
		return fieldKey{}, false
	}
	v, ok := s.Obj().(*types.Var)
	if !ok || !v.IsField() {
		return fieldKey{}, false
	}
	// owner struct: walk the receiver type through embedded fields
	recv := s.Recv()
	idx := s.Index()
	t := recv
	for i := 0; i < len(idx)-1; i++ {
		st := structOf(t)
		if st == nil {
			return fieldKey{}, false
		}
		t = st.Field(idx[i]).Type()
	}
	n := core.NamedOf(t)
	if n == nil {
		return fieldKey{}, false
	}
	return fieldKey{n.Obj().Name(), v.Name()}, true
}

func structOf(t types.Type) *types.Struct {
	for {
		switch x := t.(type) {
		case *types.Pointer:
			t = x.Elem()
		case *types.Named:
			t = x.Underlying()
		case *types.Alias:
			t = types.Unalias(x)
		case *types.Struct:
			return x
		default:
			return nil
		}
	}
}

// directRW collects the dsl field reads/writes lexically inside body (closures included).
func directRW(info *types.Info, body ast.Node) rwSet {
	rw := rwSet{map[fieldKey]token.Pos{}, map[fieldKey]token.Pos{}}
	lhs := map[*ast.SelectorExpr]bool{}
	ast.Inspect(body, func(n ast.Node) bool {
		if as, ok := n.(*ast.AssignStmt); ok && as.Tok == token.ASSIGN {
			for _, l := range as.Lhs {
				if se, ok := ast.Unparen(l).(*ast.SelectorExpr); ok {
					lhs[se] = true
				}
				// m[k] = v on a field map counts as a write of the field
				if ix, ok := ast.Unparen(l).(*ast.IndexExpr); ok {
					if se, ok := ast.Unparen(ix.X).(*ast.SelectorExpr); ok {
						lhs[se] = true
					}
				}
			}
		}
		return true
	})
	ast.Inspect(body, func(n ast.Node) bool {
		switch x := n.(type) {
		case *ast.SelectorExpr:
			if k, ok := fieldOf(info, x); ok {
				if lhs[x] {
					if _, seen := rw.writes[k]; !seen {
						rw.writes[k] = x.Pos()
					}
				} else if _, seen := rw.reads[k]; !seen {
					rw.reads[k] = x.Pos()
				}
			}
		case *ast.CompositeLit:
			// keyed struct literal writes
			if st := structOf(info.TypeOf(x)); st != nil {
				if nt := core.NamedOf(info.TypeOf(x)); nt != nil {
					for _, el := range x.Elts {
						if kv, ok := el.(*ast.KeyValueExpr); ok {
							if id, ok := kv.Key.(*ast.Ident); ok {
								k := fieldKey{nt.Obj().Name(), id.Name}
								if _, seen := rw.writes[k]; !seen {
									rw.writes[k] = kv.Pos()
								}
							}
						}
					}
				}
			}
		}
		return true
	})
	return rw
}

// transitiveRW: direct set of f plus every statically called/referenced module function,
// not descending into traversal helpers. Returns for each key the chain of functions.
func transitiveRW(c *core.Ctx, root *types.Func) (reads, writes map[fieldKey]string) {
	reads, writes = map[fieldKey]string{}, map[fieldKey]string{}
	seen := map[*types.Func]bool{}
	var rec func(f *types.Func, chain string)
	rec = func(f *types.Func, chain string) {
		if seen[f] {
			return
		}
		seen[f] = true
		d := c.Decl(f)
		if d == nil || (isTraversalFile(c, d.Pos()) && f != root) {
			return
		}
		p := c.DeclPkg(d)
		rw := directRW(p.TypesInfo, d.Body)
		for k, pos := range rw.reads {
			if _, ok := reads[k]; !ok {
				reads[k] = chain + " @" + c.PosStr(pos)
			}
		}
		for k, pos := range rw.writes {
			if _, ok := writes[k]; !ok {
				writes[k] = chain + " @" + c.PosStr(pos)
			}
		}
		for _, s := range c.Succ(f) {
			if core.InModule(s) {
				rec(s, chain+" -> "+s.Name())
			}
		}
	}
	rec(root, root.Name())
	return
}

func rulePassOrder(c *core.Ctx) {
	const rule = "P0"
	c.Rule(rule, "validation passes: every pass that reads a field produced by another pass is ordered after the producer in dsl.Validate; every ValidationPass function is registered", 25)
	_, vd, p := c.Func("pkg/dsl", "Validate")
	if vd == nil {
		c.Undecided(rule, "anchor/pkg/dsl.Validate", 0, "anchor function not found")
		return
	}
	info := p.TypesInfo
	// find `passes := []ValidationPass{...}`
	var passes []*types.Func
	var litPos token.Pos
	ast.Inspect(vd.Body, func(n ast.Node) bool {
		cl, ok := n.(*ast.CompositeLit)
		if !ok {
			return true
		}
		var elem types.Type
		switch lt := info.TypeOf(cl).Underlying().(type) {
		case *types.Slice:
			elem = lt.Elem()
		case *types.Array:
			elem = lt.Elem()
		}
		if elem != nil {
			if nt := core.NamedOf(elem); nt != nil && nt.Obj().Name() == "ValidationPass" {
				litPos = cl.Pos()
				for _, e := range cl.Elts {
					if id, ok := e.(*ast.Ident); ok {
						if f, ok := info.Uses[id].(*types.Func); ok {
							passes = append(passes, f)
							continue
						}
					}
					c.Undecided(rule, "Validate/passes/element "+types.ExprString(e), e.Pos(), "pass list element is not a plain function identifier")
				}
			}
		}
		return true
	})
	if len(passes) == 0 {
		c.Undecided(rule, "Validate/passes", vd.Pos(), "the `passes` slice literal of ValidationPass was not found")
		return
	}
	index := map[string]int{}
	var names []string
	for i, f := range passes {
		index[f.Name()] = i
		names = append(names, f.Name())
	}
	c.Tables["validation_passes"] = names
	// the loop must run them in slice order: `for _, pass := range passes { env = pass(env, &errorSink) }`
	okLoop := false
	// the variable the literal is stored in, whatever it is called
	var listVar types.Object
	ast.Inspect(vd.Body, func(n ast.Node) bool {
		switch s := n.(type) {
		case *ast.AssignStmt:
			for i, r := range s.Rhs {
				if cl, ok := ast.Unparen(r).(*ast.CompositeLit); ok && cl.Pos() == litPos && i < len(s.Lhs) {
					listVar = identObj(info, s.Lhs[i])
				}
			}
		case *ast.ValueSpec:
			for i, r := range s.Values {
				if cl, ok := ast.Unparen(r).(*ast.CompositeLit); ok && cl.Pos() == litPos && i < len(s.Names) {
					listVar = info.Defs[s.Names[i]]
				}
			}
		}
		return true
	})
	ast.Inspect(vd.Body, func(n ast.Node) bool {
		switch rs := n.(type) {
		case *ast.RangeStmt:
			if o := identObj(info, rs.X); o != nil && o == listVar {
				okLoop = true
			}
			if cl, ok := ast.Unparen(rs.X).(*ast.CompositeLit); ok && cl.Pos() == litPos {
				okLoop = true
			}
		case *ast.ForStmt:
			// for i := 0; i < len(list); i++ { ... list[i](...) }
			init, ok1 := rs.Init.(*ast.AssignStmt)
			cond, ok2 := rs.Cond.(*ast.BinaryExpr)
			post, ok3 := rs.Post.(*ast.IncDecStmt)
			if !ok1 || !ok2 || !ok3 || len(init.Lhs) != 1 || len(init.Rhs) != 1 || post.Tok != token.INC || cond.Op != token.LSS {
				return true
			}
			iv := identObj(info, init.Lhs[0])
			if v, isC := constInt(info, init.Rhs[0]); !isC || v != 0 || iv == nil || identObj(info, post.X) != iv || identObj(info, cond.X) != iv {
				return true
			}
			if a, isLen := lenArg(info, cond.Y); !isLen || identObj(info, a) != listVar || listVar == nil {
				return true
			}
			ast.Inspect(rs.Body, func(m ast.Node) bool {
				if ce, ok := m.(*ast.CallExpr); ok {
					if ix, ok := ast.Unparen(ce.Fun).(*ast.IndexExpr); ok && identObj(info, ix.X) == listVar && identObj(info, ix.Index) == iv {
						okLoop = true
					}
				}
				return true
			})
		}
		return true
	})
	c.Check(okLoop, rule, "Validate/range passes", litPos, "passes are applied by ranging over the slice in order", "passes are not applied by a plain range over the slice")

	// registration: every package-level func with the ValidationPass signature is in the list
	scope := p.Types.Scope()
	var vpType types.Type
	if tn, ok := scope.Lookup("ValidationPass").(*types.TypeName); ok {
		vpType = tn.Type().Underlying()
	}
	for _, n := range scope.Names() {
		f, ok := scope.Lookup(n).(*types.Func)
		if !ok || vpType == nil || c.Decl(f) == nil || c.IsTestFile(f.Pos()) {
			continue
		}
		if types.Identical(f.Type(), vpType) {
			_, reg := index[f.Name()]
			c.Check(reg, rule, "registered/"+f.Name(), f.Pos(), fmt.Sprintf("pass #%d of Validate", index[f.Name()]), "function has the ValidationPass signature but is not in Validate's pass list: its rule is never enforced")
		}
	}

	// read/write sets
	type prw struct{ reads, writes map[fieldKey]string }
	sets := map[string]prw{}
	for _, f := range passes {
		r, w := transitiveRW(c, f)
		sets[f.Name()] = prw{r, w}
	}
	for _, pf := range producedFields {
		k := fieldKey{pf.typ, pf.field}
		pi, ok := index[pf.producer]
		if !ok {
			c.Undecided(rule, fmt.Sprintf("producer/%s.%s", pf.typ, pf.field), litPos, "producer pass "+pf.producer+" is not in the pass list")
			continue
		}
		w, writes := sets[pf.producer].writes[k]
		c.Check(writes, rule, fmt.Sprintf("producer/%s.%s<-%s", pf.typ, pf.field, pf.producer), passes[pi].Pos(),
			"producer writes the field: "+w, "the frozen producer no longer writes this field; the producer table is stale")
		for _, f := range passes {
			if f.Name() == pf.producer {
				continue
			}
			via, reads := sets[f.Name()].reads[k]
			if !reads {
				continue
			}
			key := fmt.Sprintf("order/%s.%s/%s", pf.typ, pf.field, f.Name())
			if index[f.Name()] > pi {
				c.OK(rule, key, f.Pos(), fmt.Sprintf("pass #%d reads the field after producer #%d (%s)", index[f.Name()], pi, via))
			} else {
				c.Bad(rule, key, f.Pos(), fmt.Sprintf("pass %s (#%d) reads %s.%s, which %s (#%d) only produces later — %s; read via %s",
					f.Name(), index[f.Name()], pf.typ, pf.field, pf.producer, pi, pf.why, via))
			}
		}
	}
	// alias chains are followed only once they are known to be finite: GetUnderlyingType (and what is built on it)
	// recurses through NamedType.Type without a visited set, so on a model with an alias cycle (`A: B`, `B: A`) it
	// never returns. The pass that reports reference cycles is topologicalSortTypes; a pass that reaches
	// GetUnderlyingType must run after it AND return at once when errors were recorded.
	if gut, _, _ := c.Func("pkg/dsl", "GetUnderlyingType"); gut != nil {
		if ti, ok := index["topologicalSortTypes"]; !ok {
			c.Undecided(rule, "acyclic/producer topologicalSortTypes", litPos, "topologicalSortTypes is not in the pass list")
		} else {
			for _, f := range passes {
				if f.Name() == "topologicalSortTypes" {
					continue
				}
				path := c.PathToStatic(f, func(g *types.Func) bool { return g == gut }, func(g *types.Func) bool { return !core.InModule(g) })
				if path == nil {
					continue
				}
				d := c.Decl(f)
				guarded := d != nil && startsWithErrorGuard(c, d)
				key := "acyclic/" + f.Name()
				switch {
				case index[f.Name()] < ti:
					c.Bad(rule, key, f.Pos(), fmt.Sprintf("pass %s (#%d) follows alias chains (%s) before topologicalSortTypes (#%d) has reported reference cycles: on `A: B`, `B: A` used in the position this pass looks at, GetUnderlyingType recurses until the stack overflows", f.Name(), index[f.Name()], core.PathStr(path), ti))
				case !guarded:
					c.Bad(rule, key, f.Pos(), fmt.Sprintf("pass %s (#%d) follows alias chains (%s) and does not start with `if len(errorSink.Errors) > 0 { return env }`: after topologicalSortTypes has REPORTED an alias cycle the pass still runs and GetUnderlyingType recurses until the stack overflows", f.Name(), index[f.Name()], core.PathStr(path)))
				default:
					c.OK(rule, key, f.Pos(), fmt.Sprintf("runs after cycle detection (#%d > #%d) and returns at once when errors were recorded", index[f.Name()], ti))
				}
			}
		}
	}
	// evidence: which produced fields each pass touches
	tbl := map[string][]string{}
	for _, f := range passes {
		var l []string
		for _, pf := range producedFields {
			k := fieldKey{pf.typ, pf.field}
			if _, ok := sets[f.Name()].reads[k]; ok {
				l = append(l, "R:"+pf.typ+"."+pf.field)
			}
			if _, ok := sets[f.Name()].writes[k]; ok {
				l = append(l, "W:"+pf.typ+"."+pf.field)
			}
		}
		sort.Strings(l)
		tbl[f.Name()] = l
	}
	c.Tables["pass_field_access"] = tbl
	_ = strings.Join
}

// startsWithErrorGuard: before the pass does anything else (statements that call nothing in the module may come
// first), it returns when the error sink already holds errors: `if len(sink.Errors) > 0 { return env }`, the test
// possibly kept in a local first, written `!= 0`, `>= 1` or the other way round.
func startsWithErrorGuard(c *core.Ctx, d *ast.FuncDecl) bool {
	info := c.DeclPkg(d).TypesInfo
	hasErrors := func(e ast.Expr) bool {
		if id, ok := ast.Unparen(e).(*ast.Ident); ok {
			e = singleDefRHS(info, d.Body, id)
		}
		be, ok := ast.Unparen(e).(*ast.BinaryExpr)
		if !ok {
			return false
		}
		l, r, op := be.X, be.Y, be.Op
		if _, isLen := lenArg(info, r); isLen {
			l, r, op = r, l, flipOp(op)
		}
		a, isLen := lenArg(info, l)
		if !isLen {
			return false
		}
		se, ok := ast.Unparen(a).(*ast.SelectorExpr)
		if !ok || se.Sel.Name != "Errors" {
			return false
		}
		v, ok := constInt(info, r)
		if !ok {
			return false
		}
		return (op == token.GTR && v == 0) || (op == token.NEQ && v == 0) || (op == token.GEQ && v == 1)
	}
	callsModule := func(n ast.Node) bool {
		found := false
		ast.Inspect(n, func(x ast.Node) bool {
			if ce, ok := x.(*ast.CallExpr); ok {
				if f := core.Callee(info, ce); f != nil && core.InModule(f) {
					found = true
				}
			}
			return !found
		})
		return found
	}
	for _, st := range d.Body.List {
		if is, ok := st.(*ast.IfStmt); ok && is.Init == nil && is.Else == nil && hasErrors(is.Cond) && len(is.Body.List) > 0 {
			if _, isRet := is.Body.List[len(is.Body.List)-1].(*ast.ReturnStmt); isRet && !callsModule(is.Body) {
				return true
			}
		}
		if callsModule(st) {
			return false
		}
		switch st.(type) {
		case *ast.AssignStmt, *ast.DeclStmt:
		default:
			return false
		}
	}
	return false
}
