package rules

import (
	"strings"

	"verif/checker/internal/core"
)

func inMod(p string) bool { return strings.HasPrefix(p, core.Mod) }

func init() {
	reg("C11", ruleValidateBeforeWrite, ruleWhoMayWrite, ruleE1(inMod, "E1"), ruleE2(inMod, "E2"), ruleE5(inMod, "E5"))
	reg("C12", ruleWriteIfNeeded, ruleWhoMayWrite)
}
